"""C05 — calls from MIR code to native functions follow the x86-64 System V C ABI.

Proof gate: MirVerif.Props.C05 (placement of arguments/results by _MIR_get_ff_call and
machinize_call equals the psABI specification for all argument lists).
Tie: an assembly probe callee (harness/c05_probe.S) snapshots registers and the outgoing stack;
python-generated MIR modules call it through generated prototypes under the interpreter (FFI) and
generated code (-O0..-O3); each argument's sentinel must sit where `mirdrv_c05` says the code model
puts it (tie) and where the psABI specification puts it (property).  Second oracle: gcc-compiled C
callees generated from the same prototypes.
"""
import json, os, subprocess, sys, time, hashlib, tempfile, shutil, resource, itertools
from concurrent.futures import ThreadPoolExecutor
from vf import Check, VERIF, REPO, SplitMix

PID = "C05"
NSTK = 320          # stack words the probe records (harness prints the first STKW of them)
INT_T = ["i8", "u8", "i16", "u16", "i32", "u32", "i64", "u64"]
SCALAR_T = INT_T + ["p", "f", "d", "ld"]
ENGINES_ALL = ["i", "0", "1", "2", "3"]
M64 = (1 << 64) - 1

# ----------------------------------------------------------------------------- prototypes


def tparse(t):
    if ":" in t:
        n, s = t.split(":")
        if n == "blk":
            n = "blk0"
        return n, int(s)
    return t, None


def case_line(c):
    v = "!" if c["va"] is None else ",".join(c["va"])
    return f"r:{','.join(c['res'])} a:{','.join(c['args'])} v:{v}"


def case_from_line(line):
    d = {}
    for tok in line.split():
        k, _, v = tok.partition(":")
        d[k] = v
    res = [x for x in d.get("r", "").split(",") if x]
    args = [x for x in d.get("a", "").split(",") if x]
    va = None if d.get("v", "!") == "!" else [x for x in d["v"].split(",") if x]
    return {"res": res, "args": args, "va": va}


def all_args(c):
    return c["args"] + (c["va"] or [])


# ----------------------------------------------------------------------------- sentinels / MIR text


def mk_sent(rng, j):
    """five 64-bit words for slot j; low byte of word 0 unique per slot"""
    ws = [rng.next() for _ in range(5)]
    lb = ((5 * j + 3) & 0x7F) | (0x80 if rng.below(2) else 0)
    ws[0] = (ws[0] & ~0xFF & M64) | lb
    return ws


def norm_f32(w):
    e = ((w >> 23) & 0xFF) % 254 + 1
    return (w & 0x807FFFFF) | (e << 23)


def norm_f64(w):
    e = ((w >> 52) & 0x7FF) % 2046 + 1
    return (w & 0x800FFFFFFFFFFFFF) | (e << 52)


def norm_ld(lo, hi):
    e = (hi & 0x7FFF) % 0x7FFE + 1
    return lo | (1 << 63), (hi & 0x8000) | e


class Built:
    pass


def build(c, seed):
    """MIR module + input image + expectations for one prototype"""
    rng = SplitMix(seed)
    b = Built()
    args = all_args(c)
    nnamed = len(c["args"])
    img = bytearray(64 * max(1, len(args)))
    locs, loads, ops, pdecl = [], [], [], []
    exp = []  # per arg: list of (value, nbytes, rel)  rel=True: value is offset from in_buf
    raw = []  # per arg: 64-bit register image before narrowing (ints) else None
    for j, t in enumerate(args):
        n, sz = tparse(t)
        off = 64 * j
        ws = mk_sent(rng, j)
        name = f"a{j}"
        if n in INT_T or n == "p":
            img[off:off + 8] = ws[0].to_bytes(8, "little")
            locs.append(f"i64:{name}")
            loads.append(f"mov {name}, i64:{off}(in)")
            ops.append(name)
            exp.append([(ws[0], 8, False)])  # narrowed later through the driver
            raw.append(ws[0])
            pdecl.append(f"{n}:{name}")
        elif n == "f":
            w = norm_f32(ws[0] & 0xFFFFFFFF)
            img[off:off + 8] = ((ws[1] << 32 | w) & M64).to_bytes(8, "little")
            locs.append(f"f:{name}")
            loads.append(f"fmov {name}, f:{off}(in)")
            ops.append(name)
            exp.append([(w, 4, False)])
            raw.append(None)
            pdecl.append(f"f:{name}")
        elif n == "d":
            w = norm_f64(ws[0])
            img[off:off + 8] = w.to_bytes(8, "little")
            locs.append(f"d:{name}")
            loads.append(f"dmov {name}, d:{off}(in)")
            ops.append(name)
            exp.append([(w, 8, False)])
            raw.append(None)
            pdecl.append(f"d:{name}")
        elif n == "ld":
            lo, hi = norm_ld(ws[0], ws[1] & 0xFFFF)
            img[off:off + 8] = lo.to_bytes(8, "little")
            img[off + 8:off + 16] = hi.to_bytes(8, "little")
            locs.append(f"ld:{name}")
            loads.append(f"ldmov {name}, ld:{off}(in)")
            ops.append(name)
            exp.append([(lo, 8, False), (hi, 2, False)])
            raw.append(None)
            pdecl.append(f"ld:{name}")
        elif n == "rblk":
            for k in range(5):
                img[off + 8 * k:off + 8 * k + 8] = ws[k].to_bytes(8, "little")
            locs.append(f"i64:{name}")
            loads.append(f"add {name}, in, {off}")
            ops.append(f"rblk:{sz}({name})")
            exp.append([(off, 8, True)])
            raw.append(None)
            pdecl.append(f"rblk:{sz}({name})")
        else:  # blk0..4
            for k in range(5):
                img[off + 8 * k:off + 8 * k + 8] = ws[k].to_bytes(8, "little")
            locs.append(f"i64:{name}")
            loads.append(f"add {name}, in, {off}")
            ops.append(f"{n}:{sz}({name})")
            q = (sz + 7) // 8
            exp.append([(ws[k], min(8, sz - 8 * k), False) for k in range(q)])
            raw.append(None)
            pdecl.append(f"{n}:{sz}({name})")
    rregs, stores = [], []
    for k, t in enumerate(c["res"]):
        name = f"r{k}"
        if t == "f":
            locs.append(f"f:{name}")
            stores.append(f"fmov f:{16 * k}(out), {name}")
        elif t == "d":
            locs.append(f"d:{name}")
            stores.append(f"dmov d:{16 * k}(out), {name}")
        elif t == "ld":
            locs.append(f"ld:{name}")
            stores.append(f"ldmov ld:{16 * k}(out), {name}")
        else:
            locs.append(f"i64:{name}")
            stores.append(f"mov i64:{16 * k}(out), {name}")
        rregs.append(name)
    plist = list(c["res"]) + pdecl[:nnamed] + (["..."] if c["va"] is not None else [])

    def func_text(fname, prname):
        """prototype item + function calling the probe through it"""
        lines = [f"{prname}: proto " + ", ".join(plist) if plist else f"{prname}: proto", f"export {fname}",
                 f"{fname}: func p:in, p:out"]
        if locs:
            lines.append("   local " + ", ".join(locs))
        lines += ["   " + x for x in loads]
        lines.append("   call " + ", ".join([prname, "probe"] + rregs + ops))
        lines += ["   " + x for x in stores]
        lines += ["   ret", "   endfunc"]
        return lines
    b.func_text = func_text
    b.text = "\n".join(["m: module", "import probe"] + func_text("f", "pr") + ["endmodule"]) + "\n"
    b.img = bytes(img)
    b.exp = exp
    b.raw = raw
    # results returned by the callee: registers carry garbage in the bits a C callee need not define
    b.ret = {"g0": rng.next(), "g1": rng.next(), "x0": rng.next(), "x1": rng.next()}
    b.ret["x0"] = norm_f64(b.ret["x0"]) & ~0xFFFFFFFF & M64 | norm_f32(b.ret["x0"] & 0xFFFFFFFF)
    b.ret["x1"] = norm_f64(b.ret["x1"]) & ~0xFFFFFFFF & M64 | norm_f32(b.ret["x1"] & 0xFFFFFFFF)
    b.ld = [norm_ld(rng.next(), rng.next() & 0xFFFF), norm_ld(rng.next(), rng.next() & 0xFFFF)]
    b.nld = min(2, sum(1 for t in c["res"] if t == "ld"))
    b.outn = 16 * max(1, len(c["res"]))
    return b


def stkw_of(ms):
    """stack words of the snapshot worth printing for prototypes with models ms"""
    need = max([max(m["SYSV"]["stk"], m["FF"]["stk"], m["GEN"]["stk"]) for m in ms if "err" not in m] + [0])
    return min(NSTK, max(96, need // 8 + 24))


def request(cid, c, b, engines, callee=None, stkw=96):
    r = [f"CASE {cid}", "ENG " + " ".join(engines), f"STKW {stkw}"]
    if callee:
        r.append(f"CALLEE {callee}")
    r.append("RET %x %x %x %x %x %x %x %x %x" % (b.ret["g0"], b.ret["g1"], b.ret["x0"], b.ret["x1"], b.nld,
                                                 b.ld[0][0], b.ld[0][1], b.ld[1][0], b.ld[1][1]))
    r.append("IN " + b.img.hex())
    r.append(f"OUTN {b.outn}")
    r.append("MIR")
    r.append(b.text.rstrip("\n"))
    r.append("ENDMIR")
    return "\n".join(r) + "\n"


def seq_request(cid, builds, engines, stkw=96):
    """one request running the prototypes of `builds` one after another in ONE context"""
    r = [f"CASE {cid}", "ENG " + " ".join(engines), f"STKW {stkw}"]
    mod = ["m: module", "import probe"]
    for k, b in enumerate(builds):
        r.append(f"STEP {k}")
        r.append("RET %x %x %x %x %x %x %x %x %x" % (b.ret["g0"], b.ret["g1"], b.ret["x0"], b.ret["x1"], b.nld,
                                                     b.ld[0][0], b.ld[0][1], b.ld[1][0], b.ld[1][1]))
        r.append("IN " + b.img.hex())
        r.append(f"OUTN {b.outn}")
        mod += b.func_text(f"f{k}", f"pr{k}")
    mod.append("endmodule")
    r += ["MIR"] + mod + ["ENDMIR"]
    return "\n".join(r) + "\n"


# ----------------------------------------------------------------------------- model (Lean driver)


class Model:
    def __init__(self, ck, flags):
        self.ck = ck
        self.flags = flags
        self.cache = {}
        self.xcache = {}

    def args(self):
        return [f"{k}={v}" for k, v in self.flags.items()]

    def place(self, lines):
        todo = [l for l in dict.fromkeys(lines) if l not in self.cache]
        if todo:
            rc, out, err = self.ck.drv("mirdrv_c05", self.args(), "\n".join(todo) + "\n")
            outl = out.split("\n")
            for l, o in zip(todo, outl):
                self.cache[l] = parse_model(o)
        return [self.cache[l] for l in lines]

    def passint(self, pairs):
        todo = [p for p in dict.fromkeys(pairs) if p not in self.xcache]
        if todo:
            rc, out, err = self.ck.drv("mirdrv_c05", [], "".join(f"x:{t} {v:x}\n" for t, v in todo))
            for p, o in zip(todo, out.split("\n")):
                self.xcache[p] = int(o, 16)
        return [self.xcache[p] for p in pairs]


def parse_model(o):
    """SYSV <locs> | stk=.. xmm=.. ; FF ... al=8 ; GEN ... al=.. ; RES sysv=.. ff=.. gen=.. ; WS=1"""
    if not o.startswith("SYSV"):
        return {"err": o}
    m = {}
    for part in o.split(" ; "):
        toks = part.split()
        tag = toks[0]
        if tag in ("SYSV", "FF", "GEN"):
            bar = toks.index("|")
            locs = [t.split(",") for t in toks[1:bar]]
            kv = dict(t.split("=") for t in toks[bar + 1:])
            m[tag] = {"locs": locs, "stk": int(kv["stk"]), "xmm": int(kv["xmm"]),
                      "al": None if kv.get("al", "-") == "-" else int(kv["al"])}
        elif tag == "RES":
            kv = dict(t.split("=") for t in toks[1:])
            m["RES"] = {k: (None if v == "err" else ([] if v == "-" else v.split(","))) for k, v in kv.items()}
        elif tag.startswith("WS="):
            m["WS"] = tag == "WS=1"
    return m


# ----------------------------------------------------------------------------- running the harness


def child_limits(cpu_s=600, fsize=512 << 20):
    """resource caps for every child process: no core files, bounded output files, bounded CPU"""
    def f():
        resource.setrlimit(resource.RLIMIT_CORE, (0, 0))
        resource.setrlimit(resource.RLIMIT_FSIZE, (fsize, fsize))
        resource.setrlimit(resource.RLIMIT_CPU, (cpu_s, cpu_s))
    return f


_OUT_SEQ = itertools.count()


def run_harness(exe, reqs, so=None, timeout=None):
    """reqs: list of (cid, engines, text).  Returns {(cid,eng): {"S":[...], "O":hex, "E":msg, "G":(...)}}, base, crashes"""
    res, crashes, base = {}, [], None
    pending = list(reqs)
    skip = {}  # cid -> engines already done or crashed
    guard = 0
    fixed_timeout = timeout
    while pending and guard < 5:
        guard += 1
        timeout = fixed_timeout or 8 + 0.02 * sum(len(e) for _, e, _ in pending)
        inp = ("SO " + so + "\n" if so else "") + "".join(
            t if cid not in skip else retarget(t, [e for e in engs if e not in skip[cid]])
            for cid, engs, t in pending)
        # stdout goes to a size-capped scratch file (RLIMIT_FSIZE), never to an unbounded pipe
        opath = os.path.join(so_dir(), f"out-{next(_OUT_SEQ)}.txt")
        try:
            with open(opath, "w") as of:
                p = subprocess.run([exe], input=inp, stdout=of, stderr=subprocess.PIPE, text=True,
                                   timeout=timeout, preexec_fn=child_limits(cpu_s=int(timeout) + 60),
                                   cwd=so_dir(),
                                   env=dict(os.environ, ASAN_OPTIONS="detect_leaks=0:abort_on_error=1:"
                                                                     "allocator_may_return_null=1:log_path=stderr"))
            rc, err = p.returncode, (p.stderr or "")[-2000:]
        except subprocess.TimeoutExpired as ex:
            rc, err = -99, "timeout"
        try:
            with open(opath, errors="replace") as of:
                out = of.read()
            os.remove(opath)
        except OSError:
            out = ""
        for line in out.split("\n"):
            toks = line.split(" ", 3)
            if toks[0] == "B":
                base = (int(toks[1], 16), int(toks[2], 16))
                # base changes per process: stored per result below
            elif toks[0] in ("S", "G", "O", "E") and len(toks) >= 3:
                d = res.setdefault((toks[1], toks[2]), {"base": base})
                d[toks[0]] = toks[3] if len(toks) > 3 else ""
        if rc == 0:
            break
        # find the first (case, engine) without a complete answer
        newp, found = [], False
        for cid, engs, t in pending:
            if found:
                newp.append((cid, engs, t))
                continue
            todo = [e for e in engs if e not in skip.get(cid, [])]
            nst = t.count("\nSTEP ")   # a sequence request answers under the ids <cid>.<step>
            last = cid if nst == 0 else f"{cid}.{nst - 1}"
            done = [e for e in todo if ("O" in res.get((last, e), {}) or "E" in res.get((last, e), {}))]
            rest = [e for e in todo if e not in done]
            if rest:
                found = True
                crashes.append((cid, rest[0], rc, err[-300:]))
                asan = [l for l in err.split("\n") if "AddressSanitizer" in l or l.startswith(("WRITE of", "READ of"))]
                res.setdefault((cid, rest[0]), {"base": base})["X"] = f"rc={rc} " + (" | ".join(asan[:3]) if asan else err[-200:])
                skip[cid] = skip.get(cid, []) + done + [rest[0]]
                if len(rest) > 1:
                    newp.append((cid, engs, t))
        if not found:
            break
        pending = newp
    if guard >= 5 and pending:
        # the engine keeps dying or hanging: do not grind through the rest one process at a time
        for cid, engs, t in pending:
            for e in engs:
                if e not in skip.get(cid, []) and (cid, e) not in res:
                    res[(cid, e)] = {"base": None, "X": "skipped after repeated crashes/hangs of the harness"}
    return res, crashes


def retarget(text, engines):
    out = []
    for l in text.split("\n"):
        if l.startswith("ENG "):
            l = "ENG " + " ".join(engines)
        out.append(l)
    return "\n".join(out)


def run_parallel(exe, reqs, so=None, jobs=14):
    if not reqs:
        return {}, []
    n = max(1, min(jobs, (len(reqs) + 19) // 20))
    chunks = [reqs[i::n] for i in range(n)]
    with ThreadPoolExecutor(max_workers=n) as ex:
        outs = list(ex.map(lambda ch: run_harness(exe, ch, so), chunks))
    res, crashes = {}, []
    for r, cr in outs:
        res.update(r)
        crashes += cr
    return res, crashes


# ----------------------------------------------------------------------------- judging one observation


def snap_words(s):
    w = [int(x, 16) for x in s.split()]
    return {"calls": w[0], "gpr": w[1:7], "rax": w[7], "rsp": w[8], "xmm": w[9:17], "stk": w[17:]}


def at(sn, loc):
    k, n = loc[0], int(loc[1:])
    if k == "g":
        return sn["gpr"][n] if n < 6 else None
    if k == "x":
        return sn["xmm"][n] if n < 8 else None
    if n % 8 or n // 8 >= len(sn["stk"]):
        return None
    return sn["stk"][n // 8]


def word_ok(sn, loc, val, nb):
    v = at(sn, loc)
    if v is None:
        return False
    mask = (1 << (8 * nb)) - 1
    return (v ^ val) & mask == 0


ALL_LOCS = [f"g{i}" for i in range(6)] + [f"x{i}" for i in range(8)] + [f"s{8 * i}" for i in range(NSTK)]


def observe(sn, expw, prefer):
    """observed placement of every argument word: the preferred (model) location if the sentinel is
    there, else the first location holding it, else '?'"""
    obs = []
    for ai, ws in enumerate(expw):
        cur = []
        for k, (val, nb) in enumerate(ws):
            pl = prefer[ai][k] if ai < len(prefer) and k < len(prefer[ai]) else None
            if pl is not None and word_ok(sn, pl, val, nb):
                cur.append(pl)
                continue
            hit = next((l for l in ALL_LOCS if word_ok(sn, l, val, nb)), "?")
            cur.append(hit)
        obs.append(cur)
    return obs


def expected_words(b, c, base, model_x):
    """argument words as the callee must see them"""
    args = all_args(c)
    out = []
    nnamed = len(c["args"])
    for j, t in enumerate(args):
        n, _ = tparse(t)
        ws = []
        for (val, nb, rel) in b.exp[j]:
            if rel:
                val = (base[0] + val) & M64
            ws.append((val, nb))
        if n in INT_T and j < nnamed:
            ws = [(model_x[(n, b.raw[j])], 8)]
        out.append(ws)
    return out


def expected_out(b, c, rlocs, model_x):
    """bytes MIR must store for every result, given the result locations"""
    exp = []
    for k, t in enumerate(c["res"]):
        loc = rlocs[k]
        if loc[0] == "g":
            v = model_x[(t, b.ret[loc])] if t in INT_T else b.ret[loc]
            exp.append((16 * k, v.to_bytes(8, "little")))
        elif loc[0] == "x":
            v = b.ret[loc]
            exp.append((16 * k, v.to_bytes(8, "little")[:4 if t == "f" else 8]))
        else:
            lo, hi = b.ld[int(loc[1:])]
            exp.append((16 * k, lo.to_bytes(8, "little") + hi.to_bytes(2, "little")))
    return exp


def judge(c, b, eng, r, m, model_x):
    """compare one (case, engine) observation with the code model (tie) and the psABI (property).
    Returns dict(tie=[...], prop=[...], obs=...) — lists of discrepancy records."""
    code = m["FF"] if eng == "i" else m["GEN"]
    spec = m["SYSV"]
    rkey = "ff" if eng == "i" else "gen"
    tie, prop = [], []
    variadic = c["va"] is not None
    res_model, res_spec = m["RES"][rkey], m["RES"]["sysv"]
    if "X" in r:
        rec = {"kind": "crash", "detail": r["X"]}
        return {"tie": [rec], "prop": [rec] if res_spec is not None else [], "obs": None}
    if "E" in r:
        rec = {"kind": "error", "detail": r["E"]}
        if res_model is not None:
            tie.append(rec)
        if res_spec is not None:
            prop.append(rec)
        return {"tie": tie, "prop": prop, "obs": None}
    if res_model is None:
        tie.append({"kind": "no-error", "detail": "model rejects the result combination, the code accepted it"})
        return {"tie": tie, "prop": prop, "obs": None}
    sn = snap_words(r["S"])
    if sn["calls"] != 1:
        rec = {"kind": "calls", "detail": sn["calls"]}
        return {"tie": [rec], "prop": [rec], "obs": None}
    expw = expected_words(b, c, r["base"], model_x)
    obs = observe(sn, expw, code["locs"])
    for which, pl, sink in (("code", code, tie), ("spec", spec, prop)):
        owner = {}
        for ai, ws in enumerate(expw):
            for k in range(len(ws)):
                owner[pl["locs"][ai][k]] = (ai, k)   # a later store to the same place wins (code model only)
        for ai, ws in enumerate(expw):
            for k, (val, nb) in enumerate(ws):
                loc = pl["locs"][ai][k]
                if which == "code" and owner[loc] != (ai, k):
                    continue
                if not word_ok(sn, loc, val, nb):
                    sink.append({"kind": "arg", "arg": ai, "type": all_args(c)[ai], "word": k, "expected_at": loc,
                                 "observed_at": obs[ai][k], "value": hex(val)})
    # the code deliberately put a word elsewhere (model location confirmed by the observation) and the
    # psABI location holds the value only as a leftover of the engine's own computation: still wrong
    already = {(p["arg"], p["word"]) for p in prop if p["kind"] == "arg"}
    for ai, ws in enumerate(expw):
        for k, (val, nb) in enumerate(ws):
            cl, sl = code["locs"][ai][k], spec["locs"][ai][k]
            if cl != sl and (ai, k) not in already and word_ok(sn, cl, val, nb):
                prop.append({"kind": "arg", "arg": ai, "type": all_args(c)[ai], "word": k, "expected_at": sl,
                             "observed_at": cl, "value": hex(val), "leftover_at_expected": True})
    prop.sort(key=lambda p: (p.get("arg", 99), p.get("word", 0)))
    # rsp: psABI: (rsp + 8) % 16 == 0 at callee entry
    if (sn["rsp"] + 8) % 16 != 0:
        rec = {"kind": "align", "detail": hex(sn["rsp"])}
        tie.append(rec)
        prop.append(rec)
    al = sn["rax"] & 0xFF
    if eng == "i":
        if al != code["al"]:
            tie.append({"kind": "al", "observed": al, "model": code["al"]})
    elif variadic and al != code["al"]:
        tie.append({"kind": "al", "observed": al, "model": code["al"]})
    if variadic and not (spec["xmm"] <= al <= 8):
        prop.append({"kind": "al", "observed": al, "needed_at_least": spec["xmm"]})
    # results
    out = bytes.fromhex(r.get("O", ""))
    for which, rl, sink in (("code", res_model, tie), ("spec", res_spec, prop)):
        if rl is None or res_spec is None:   # no convention for this result list: values are not judged
            continue
        for (off, bs) in expected_out(b, c, rl, model_x):
            if out[off:off + len(bs)] != bs:
                sink.append({"kind": "res", "res": off // 16, "type": c["res"][off // 16],
                             "expected": bs.hex(), "observed": out[off:off + len(bs)].hex()})
    return {"tie": tie, "prop": prop, "obs": obs, "al": al}


def passint_pairs(c, b):
    ps = []
    for j, t in enumerate(c["args"]):
        n, _ = tparse(t)
        if n in INT_T:
            ps.append((n, b.raw[j]))
    for t in c["res"]:
        if t in INT_T:
            ps += [(t, b.ret["g0"]), (t, b.ret["g1"])]
    return ps


# ----------------------------------------------------------------------------- gcc oracle

CT = {"i8": "int8_t", "u8": "uint8_t", "i16": "int16_t", "u16": "uint16_t", "i32": "int32_t", "u32": "uint32_t",
      "i64": "int64_t", "u64": "uint64_t", "p": "void *", "f": "float", "d": "double", "ld": "long double"}


def c_struct_body(n, sz):
    if n == "blk0":
        return f"char c[{sz}];" if sz > 16 else None
    if n == "blk1":
        return f"char c[{sz}];" if sz <= 16 else None
    if n == "blk2":
        return {4: "float a;", 8: "double a;", 12: "float a, b, c;", 16: "double a, b;"}.get(sz)
    if n == "blk3":
        return {16: "long a; double b;", 12: "long a; float b;"}.get(sz)
    if n == "blk4":
        return {16: "double a; long b;", 12: "double a; int b;"}.get(sz)
    return None


# member lists whose eightbytes MIX integer and float/double members (psABI merge rule: INTEGER wins), per
# (block kind, size); used by the c2mir-caller stage besides the plain bodies above
MIXED_BODIES = {
    ("blk1", 8): ["int a; float b;", "float a; int b;", "short a; char b; float c;"],
    ("blk1", 16): ["float a; int b; long c;", "long a; int b; float c;", "int a; float b; float c; int d;"],
    ("blk1", 12): ["int a; float b; int c;", "float a; int b; int c;"],
    ("blk3", 16): ["int a; float b; double c;", "float a; int b; double c;", "int a; float b; float c; float d;"],
    ("blk4", 16): ["double a; int b; float c;", "double a; float b; int c;", "float a; float b; int c; float d;"],
    ("blk3", 12): ["int a; float b; float c;", "float a; int b; float c;"],
    ("blk4", 12): ["float a; float b; int c;"],
}


def struct_body_variant(n, sz, sel, mixed):
    """plain body, or (c2mir stage) one of the mixed-eightbyte bodies of the same psABI class"""
    alts = [c_struct_body(n, sz)] + (MIXED_BODIES.get((n, sz), []) if mixed else [])
    return alts[sel % len(alts)]


def gcc_supported(c):
    if len(all_args(c)) > 62:        # the gcc callees report one bit per argument in a 64-bit mask
        return False
    for t in all_args(c):
        n, sz = tparse(t)
        if n.startswith("blk") and c_struct_body(n, sz) is None:
            return False
    if c["va"] is not None and not c["args"]:
        return False
    for t in c["va"] or []:
        if tparse(t)[0] in ("f",) + tuple(INT_T[:6]):
            return False
    r = c["res"]
    if len(r) <= 1:
        return True
    if len(r) == 2:
        wide = {"i64", "u64", "p", "d"}
        return (r[0] in wide and r[1] in wide) or r == ["ld", "ld"]
    return False


def c_callee(name, c, b, m, model_x, info=None):
    """C source of a callee for prototype c that checks its arguments.  With `info` (a dict) also emits
    `int c05_chk_<name> (RT r)` (1 = the value a caller got back is wrong) and fills info with what a C
    caller needs: struct declarations, return type, parameter types."""
    out = []
    args = all_args(c)
    nnamed = len(c["args"])
    params, checks = [], []
    for j, t in enumerate(args):
        n, sz = tparse(t)
        pname = f"a{j}"
        if n.startswith("blk"):
            sname = f"S_{name}_{j}"
            out.append(f"struct {sname} {{ {struct_body_variant(n, sz, (b.exp[j][0][0] >> 9) + j, info is not None)} }};")
            ctype = f"struct {sname}"
            bs = b"".join(v.to_bytes(8, "little") for (v, nb, rel) in b.exp[j])[:sz]
            arr = ",".join(str(x) for x in bs)
            out.append(f"static const unsigned char E_{name}_{j}[] = {{{arr}}};")
            chk = f"memcmp (&{pname}, E_{name}_{j}, {sz}) != 0"
        elif n == "rblk":
            ctype = "void *"
            chk = f"(uint64_t) (uintptr_t) {pname} != c05_gbase + {64 * j}ull"
        elif n in INT_T:
            ctype = CT[n]
            v = model_x[(n, b.raw[j])] if j < nnamed else b.raw[j]
            if j >= nnamed:
                ctype = "int64_t"
            chk = f"(uint64_t) (int64_t) {pname} != {v}ull" if n[0] == "i" or j >= nnamed else f"(uint64_t) {pname} != {v}ull"
        elif n == "p":
            ctype = "void *"
            chk = f"(uint64_t) (uintptr_t) {pname} != {b.raw[j]}ull"
        elif n == "f":
            ctype = "float"
            chk = f"bits32 ({pname}) != {b.exp[j][0][0]}u"
        elif n == "d":
            ctype = "double"
            chk = f"bits64 ({pname}) != {b.exp[j][0][0]}ull"
        else:
            ctype = "long double"
            bs = b.exp[j][0][0].to_bytes(8, "little") + b.exp[j][1][0].to_bytes(2, "little")
            out.append(f"static const unsigned char E_{name}_{j}[] = {{{','.join(str(x) for x in bs)}}};")
            chk = f"memcmp (&{pname}, E_{name}_{j}, 10) != 0"
        if j < nnamed:
            params.append(f"{ctype} {pname}")
            checks.append(f"  if ({chk}) mask |= 1ull << {j};")
        else:
            checks.append(f"  {{ {ctype} {pname} = va_arg (ap, {ctype}); if ({chk}) mask |= 1ull << {j}; }}")
    res = c["res"]
    rl = m["RES"]["sysv"]

    def rval(k):
        t, loc = res[k], rl[k]
        if loc[0] == "g":
            v = b.ret[loc]
            if t in INT_T:
                return f"({CT[t]}) {v}ull"
            return f"(void *) {v}ull" if t == "p" else f"{v}ull"
        if loc[0] == "x":
            v = b.ret[loc]
            return f"from32 ({v & 0xFFFFFFFF}u)" if t == "f" else f"from64 ({v}ull)"
        lo, hi = b.ld[int(loc[1:])]
        return f"fromld ({lo}ull, {hi}u)"
    mixres = None
    wide_int = ("i64", "u64", "p")
    if info is not None and (b.ret["g1"] >> 7) % 3 != 0:
        sel = (b.ret["g1"] >> 11) % 2
        if len(res) == 1 and res[0] in wide_int:
            mixres = (["int a; float b;", "float a; int b;"][sel], 8)
        elif len(res) == 2 and res[0] in wide_int and res[1] == "d":
            mixres = (["int a; float b; double c;", "float a; int b; double c;"][sel], 16)
        elif len(res) == 2 and res[0] == "d" and res[1] in wide_int:
            mixres = (["double a; int b; float c;", "double a; float b; int c;"][sel], 16)
        elif len(res) == 2 and res[0] in wide_int and res[1] in wide_int:
            mixres = (["int a; float b; float c; int d;", "float a; int b; long c;"][sel], 16)
    if mixres is not None:
        bits = [b.ret[rl[k]] for k in range(len(res))]      # raw images of rax/rdx/xmm0 the struct is made of
        out.append(f"struct RM_{name} {{ {mixres[0]} }};")
        rtype = f"struct RM_{name}"
        winit = ", ".join(f"{v}ull" for v in bits)
        rstmt = f"  struct RM_{name} r; uint64_t w[2] = {{{winit}}}; memcpy (&r, w, {mixres[1]}); return r;"
    elif len(res) == 0:
        rtype, rstmt = "void", ""
    elif len(res) == 1:
        rtype, rstmt = CT[res[0]], f"  return {rval(0)};"
    elif res == ["ld", "ld"]:
        rtype, rstmt = "_Complex long double", f"  return __builtin_complex ({rval(0)}, {rval(1)});"
    else:
        f0 = "double" if res[0] == "d" else "uint64_t"
        f1 = "double" if res[1] == "d" else "uint64_t"
        out.append(f"struct R_{name} {{ {f0} a; {f1} b; }};")
        rtype = f"struct R_{name}"
        v0 = rval(0).replace("(void *) ", "")
        v1 = rval(1).replace("(void *) ", "")
        rstmt = f"  struct R_{name} r; r.a = {v0}; r.b = {v1}; return r;"
    plist = ", ".join(params) if params else "void"
    if c["va"] is not None:
        plist += ", ..."
    out.append(f"{rtype} {name} ({plist}) {{")
    out.append("  uint64_t mask = 0;")
    if c["va"] is not None:
        out.append(f"  va_list ap; va_start (ap, a{nnamed - 1});")
    out += checks
    if c["va"] is not None:
        out.append("  va_end (ap);")
    out.append("  c05_gmask = mask; c05_gcalls++; c05_galign = (uint64_t) (uintptr_t) __builtin_frame_address (0) & 15;")
    if rstmt:
        out.append(rstmt)
    out.append("}")
    if info is not None:
        if mixres is not None:
            out.append(f"int c05_chk_{name} ({rtype} r) {{ uint64_t w[2] = {{{winit}}}; return memcmp (&r, w, {mixres[1]}) != 0; }}")
        elif len(res) == 0:
            out.append(f"int c05_chk_{name} (void) {{ return 0; }}")
        elif len(res) == 1:
            n = 10 if res[0] == "ld" else f"sizeof (e)"
            out.append(f"int c05_chk_{name} ({rtype} r) {{ {rtype} e = {rval(0)}; return memcmp (&r, &e, {n}) != 0; }}")
        else:
            out.append(f"int c05_chk_{name} ({rtype} r) {{ {rtype} e; e.a = {v0}; e.b = {v1}; "
                       f"return memcmp (&r.a, &e.a, 8) != 0 || memcmp (&r.b, &e.b, 8) != 0; }}")
        info["decls"] = [l for l in out if l.startswith("struct ") and l.rstrip().endswith("};")]
        info["rtype"] = rtype
        info["params"] = params
    return "\n".join(out) + "\n"


# ----------------------------------------------------------------------------- C compiled by c2mir calls gcc callees

C2M_T = {"int8_t": "signed char", "uint8_t": "unsigned char", "int16_t": "short", "uint16_t": "unsigned short",
         "int32_t": "int", "uint32_t": "unsigned", "int64_t": "long", "uint64_t": "unsigned long"}


def c2m_types(txt):
    import re
    return re.sub(r"\b(u?int(?:8|16|32|64)_t)\b", lambda mo: C2M_T[mo.group(1)], txt)


def c_caller(k, name, c, b, info):
    """C source (for c2mir) of a function calling callee `name` with the sentinel values of b"""
    lines, argv = [], []
    nnamed = len(c["args"])
    for j, t in enumerate(all_args(c)):
        n, sz = tparse(t)
        if n in INT_T:
            ct = C2M_T[CT[n]] if j < nnamed else "long"
            argv.append(f"({ct}) {b.raw[j]}ul")
        elif n in ("p", "rblk"):
            argv.append(f"(void *) {b.raw[j] if n == 'p' else 64 * j}ul")
        elif n == "f":
            lines.append(f"  union {{ unsigned u; float f; }} u{j} = {{{b.exp[j][0][0]}u}};")
            argv.append(f"u{j}.f")
        elif n == "d":
            lines.append(f"  union {{ unsigned long u; double f; }} u{j} = {{{b.exp[j][0][0]}ul}};")
            argv.append(f"u{j}.f")
        elif n == "ld":
            bs = b.exp[j][0][0].to_bytes(8, "little") + b.exp[j][1][0].to_bytes(2, "little") + bytes(6)
            lines.append(f"  union {{ unsigned char b[16]; long double f; }} u{j} = {{{{{','.join(str(x) for x in bs)}}}}};")
            argv.append(f"u{j}.f")
        else:
            bs = b"".join(v.to_bytes(8, "little") for (v, nb, rel) in b.exp[j])[:sz]
            lines.append(f"  union {{ unsigned char b[{sz}]; struct S_{name}_{j} s; }} u{j} = {{{{{','.join(str(x) for x in bs)}}}}};")
            argv.append(f"u{j}.s")
    rtype = c2m_types(info["rtype"])
    plist = ", ".join(c2m_types(x) for x in info["params"]) if info["params"] else "void"
    if c["va"] is not None:
        plist += ", ..."
    head = [c2m_types(d) for d in info["decls"]]
    head.append(f"extern {rtype} {name} ({plist});")
    head.append(f"extern int c05_chk_{name} ({'void' if rtype == 'void' else rtype + ' r'});")
    call = f"{name} ({', '.join(argv)})"
    body = [f"static void t_{k} (void) {{"] + lines
    if rtype == "void":
        body += [f"  {call};", f"  c05_note ({k});", f"  c05_resbad ({k}, c05_chk_{name} ());"]
    else:
        body += [f"  {rtype} r = {call};", f"  c05_note ({k});", f"  c05_resbad ({k}, c05_chk_{name} (r));"]
    body.append("}")
    return "\n".join(head + body) + "\n"


def c2m_shapes(rng, n_random):
    """C prototypes in which the register counters of c2mir's own classification matter: long doubles,
    doubles and integers in front of small structs of every class, then more integers"""
    out = []
    tails = [["blk1:16", "i64"], ["blk1:8", "i64", "i64"], ["blk3:16", "i64", "d"], ["blk4:16", "i32"], ["blk2:16", "d"],
             ["blk1:12", "blk1:16", "i64"]]
    for nld in range(0, 7):
        for nint in range(0, 7):
            tl = tails[(nld + nint) % len(tails)] if (nld, nint) != (5, 0) else tails[0]
            out.append({"res": ["i64"], "args": ["ld"] * nld + ["i64"] * nint + tl, "va": None})
    for nd in range(0, 9, 2):
        for nld in (0, 2, 5):
            out.append({"res": ["d"], "args": ["ld"] * nld + ["d"] * nd + ["blk2:16", "blk3:16", "d", "i64"], "va": None})
    for nld in (1, 3, 6):
        out.append({"res": [], "args": ["i32"] + ["ld"] * nld, "va": ["blk1:16", "i64", "d"]})
        out.append({"res": ["ld"], "args": ["ld"] * nld + ["blk0:24", "blk1:9", "p", "u8", "blk1:16", "i16"], "va": None})
    wts = [("i64", 3), ("i32", 2), ("u8", 1), ("i16", 1), ("p", 1), ("d", 3), ("f", 2), ("ld", 4), ("blk0", 2), ("blk1", 5),
           ("blk2", 3), ("blk3", 3), ("blk4", 3)]
    for _ in range(n_random):
        n = 2 + rng.below(13)
        args = [rand_type(rng, wts, GCC_SIZES) for _ in range(n)]
        va = None
        if rng.chance(1, 5) and len(args) > 1:
            cut = 1 + rng.below(len(args) - 1)
            tail = [t for t in args[cut:] if va_type_ok(t)]
            args, va = args[:cut], tail
        res = rng.choice([[], ["i64"], ["i32"], ["d"], ["ld"], ["u8"], ["f"], ["i64", "u64"], ["p", "d"], ["d", "i64"],
                          ["d", "d"]])
        out.append({"res": res, "args": args, "va": va})
    return [c for c in out if gcc_supported(c)]


C2M_SO_EXTRA = """#include <stdio.h>
#define NC %d
static uint64_t m_[NC], c_[NC], a_[NC], r_[NC];
void c05_note (int k) { m_[k] = c05_gmask; c_[k] = c05_gcalls; a_[k] = c05_galign; c05_gmask = ~0ull; c05_gcalls = 0; c05_galign = 99; }
void c05_resbad (int k, int bad) { r_[k] = (uint64_t) bad; }
void c05_report (void) {
  for (int k = 0; k < NC; k++)
    printf ("R %%d %%llu %%llx %%llu %%llu\\n", k, (unsigned long long) c_[k], (unsigned long long) m_[k],
            (unsigned long long) a_[k], (unsigned long long) r_[k]);
  fflush (stdout);
}
"""


def c2m_stage(ck, rn, c2m_exe, cases, engines=("-ei", "-eg")):
    """C compiled by c2mir (its own ABI classification, c2mir/x86_64/cx86_64-ABI-code.c) calls gcc-compiled
    callees generated from the same prototypes.  Returns list of (case, engine, discrepancies)."""
    builds = [build(c, rn.sentinel_seed(c)) for c in cases]
    ms = rn.model.place([case_line(c) for c in cases])
    pairs = []
    for c, b in zip(cases, builds):
        pairs += passint_pairs(c, b)
    model_x = dict(zip(pairs, rn.model.passint(pairs)))
    callee_src, caller_src = [], []
    for k, (c, b, m) in enumerate(zip(cases, builds, ms)):
        info = {}
        callee_src.append(c_callee(f"cal{k}", c, b, m, model_x, info=info))
        caller_src.append(c_caller(k, f"cal{k}", c, b, info))
    d = so_dir()
    tag = hashlib.sha256(("".join(callee_src)).encode()).hexdigest()[:12]
    so = os.path.join(d, f"libc05c_{tag}.so")
    cpath = os.path.join(d, f"c05c_{tag}_callee.c")
    with open(cpath, "w") as f:
        f.write(C_PRELUDE + (C2M_SO_EXTRA % len(cases)) + "".join(callee_src))
    p = subprocess.run(["gcc", "-O1", "-fno-omit-frame-pointer", "-fPIC", "-shared", "-w", cpath, "-o", so],
                       stdout=subprocess.PIPE, stderr=subprocess.STDOUT, text=True, timeout=600,
                       preexec_fn=child_limits(cpu_s=600, fsize=256 << 20))
    if p.returncode != 0:
        ck.broken_ties.append({"kind": "gcc-oracle-compile", "name": "c2m stage callees", "log": p.stdout[-1500:]})
        return []
    caller = os.path.join(d, f"c05c_{tag}_caller.c")
    with open(caller, "w") as f:
        f.write("extern void c05_note (int k);\nextern void c05_resbad (int k, int bad);\nextern void c05_report (void);\n" +
                "".join(caller_src) + "int main (void) {\n" + "".join(f"  t_{k} ();\n" for k in range(len(cases))) +
                "  c05_report ();\n  return 0;\n}\n")
    out = []
    for eng in engines:
        try:
            r = subprocess.run([c2m_exe, caller, f"-L{d}", f"-lc05c_{tag}", eng], stdout=subprocess.PIPE,
                               stderr=subprocess.PIPE, text=True, timeout=300, cwd=d,
                               preexec_fn=child_limits(cpu_s=300, fsize=64 << 20))
            rc, txt, err = r.returncode, r.stdout, r.stderr
        except subprocess.TimeoutExpired:
            rc, txt, err = -99, "", "timeout"
        rows = {}
        for line in txt.split("\n"):
            t = line.split()
            if len(t) == 6 and t[0] == "R":
                rows[int(t[1])] = (int(t[2]), int(t[3], 16), int(t[4]), int(t[5]))
        if rc != 0 or len(rows) != len(cases):
            out.append((None, eng, [{"kind": "crash", "detail": f"c2m rc={rc} {err[-400:]}", "rows": len(rows)}]))
            if not rows:
                continue
        for k, c in enumerate(cases):
            if k not in rows:
                continue
            calls, mask, align, rbad = rows[k]
            prop = []
            if calls != 1:
                prop.append({"kind": "calls", "detail": calls})
            else:
                for j, t in enumerate(all_args(c)):
                    if mask >> j & 1:
                        prop.append({"kind": "arg", "arg": j, "type": t, "oracle": "gcc callee, C caller compiled by c2mir"})
                if align != 0:
                    prop.append({"kind": "align", "detail": align})
                if rbad:
                    prop.append({"kind": "res", "type": ",".join(c["res"]), "oracle": "c2mir caller"})
            rn.n_eval += 1
            out.append((c, eng, prop))
    return out


C_PRELUDE = """#include <stdint.h>
#include <string.h>
#include <stdarg.h>
uint64_t c05_gmask, c05_gcalls, c05_galign, c05_gbase;
static inline uint32_t bits32 (float f) { uint32_t u; memcpy (&u, &f, 4); return u; }
static inline uint64_t bits64 (double f) { uint64_t u; memcpy (&u, &f, 8); return u; }
static inline float from32 (uint32_t u) { float f; memcpy (&f, &u, 4); return f; }
static inline double from64 (uint64_t u) { double f; memcpy (&f, &u, 8); return f; }
static inline long double fromld (uint64_t lo, unsigned hi) { long double f = 0; memcpy (&f, &lo, 8); memcpy ((char *) &f + 8, &hi, 2); return f; }
"""


_SO_DIR = None


def so_dir():
    """per-run scratch directory for the generated gcc callees (removed at exit)"""
    global _SO_DIR
    if _SO_DIR is None:
        import atexit
        _SO_DIR = os.path.join(VERIF, ".cache", "c05so", f"run-{os.getpid()}")
        os.makedirs(_SO_DIR, exist_ok=True)
        atexit.register(lambda: shutil.rmtree(_SO_DIR, ignore_errors=True))
    return _SO_DIR


def build_so(ck, srcs, tag):
    d = so_dir()
    src = C_PRELUDE + "".join(srcs)
    h = hashlib.sha256(src.encode()).hexdigest()[:16]
    cpath, so = os.path.join(d, f"{tag}-{h}.c"), os.path.join(d, f"{tag}-{h}.so")
    if not os.path.exists(so):
        with open(cpath, "w") as f:
            f.write(src)
        try:
            p = subprocess.run(["gcc", "-O1", "-fno-omit-frame-pointer", "-fPIC", "-shared", "-w", cpath, "-o", so + ".tmp"],
                               stdout=subprocess.PIPE, stderr=subprocess.STDOUT, text=True, timeout=600,
                               preexec_fn=child_limits(cpu_s=600, fsize=256 << 20))
        except subprocess.TimeoutExpired:
            ck.log("gcc oracle compile timed out")
            return None
        if p.returncode != 0:
            ck.log("gcc oracle compile failed:\n" + p.stdout[-2000:])
            return None
        os.replace(so + ".tmp", so)
    return so


def judge_gcc(c, b, eng, r, m, model_x):
    """the gcc-compiled callee's verdict: list of property discrepancies"""
    prop = []
    if "X" in r:
        return [{"kind": "crash", "detail": r["X"]}]
    if "E" in r:
        return [{"kind": "error", "detail": r["E"]}] if m["RES"]["sysv"] is not None else []
    calls, mask, align = r["G"].split()
    mask = int(mask, 16)
    if int(calls) != 1:
        return [{"kind": "calls", "detail": calls}]
    for j, t in enumerate(all_args(c)):
        if mask >> j & 1:
            prop.append({"kind": "arg", "arg": j, "type": t, "oracle": "gcc"})
    if int(align) != 0:
        prop.append({"kind": "align", "detail": align, "oracle": "gcc"})
    out = bytes.fromhex(r.get("O", ""))
    for (off, bs) in expected_out(b, c, m["RES"]["sysv"], model_x):
        if out[off:off + len(bs)] != bs:
            prop.append({"kind": "res", "res": off // 16, "type": c["res"][off // 16], "expected": bs.hex(),
                         "observed": out[off:off + len(bs)].hex(), "oracle": "gcc"})
    return prop


# ----------------------------------------------------------------------------- generator

BLK_SIZES = {"blk0": list(range(1, 41)), "blk1": list(range(1, 17)), "blk2": list(range(1, 17)),
             "blk3": list(range(9, 17)), "blk4": list(range(9, 17)), "rblk": list(range(1, 41))}
GCC_SIZES = {"blk0": [17, 24, 32, 40], "blk1": list(range(1, 17)), "blk2": [4, 8, 12, 16], "blk3": [12, 16],
             "blk4": [12, 16], "rblk": [24]}


def rand_type(rng, weights, sizes):
    n = weighted(rng, weights)
    if n in sizes:
        return f"{n}:{rng.choice(sizes[n])}"
    return n


def weighted(rng, ws):
    tot = sum(w for _, w in ws)
    x = rng.below(tot)
    for k, w in ws:
        if x < w:
            return k
        x -= w
    return ws[-1][0]


PROFILES = [
    # (name, weights)
    ("mixed", [(t, 2) for t in INT_T] + [("p", 2), ("f", 3), ("d", 4), ("ld", 3), ("blk0", 2), ("blk1", 3),
                                        ("blk2", 3), ("blk3", 2), ("blk4", 2), ("rblk", 1)]),
    ("intheavy", [(t, 4) for t in INT_T] + [("p", 3), ("d", 1), ("ld", 3), ("blk1", 4), ("blk0", 2), ("blk3", 1)]),
    ("fpheavy", [("f", 5), ("d", 6), ("ld", 3), ("blk2", 5), ("blk4", 2), ("blk3", 2), ("i64", 2), ("blk0", 1)]),
    ("blocks", [("blk0", 3), ("blk1", 4), ("blk2", 4), ("blk3", 3), ("blk4", 3), ("rblk", 2), ("i32", 2), ("d", 2),
                ("ld", 2)]),
]
VA_WEIGHTS = [("i64", 4), ("d", 5), ("ld", 2), ("blk0", 1), ("blk1", 2), ("blk2", 3), ("blk3", 1), ("blk4", 1)]
RES_VALID = None


def valid_res_lists():
    """all result lists of length <= 4 with at most two results of a class (others are rejected by both engines)"""
    global RES_VALID
    if RES_VALID is None:
        RES_VALID = True
    return RES_VALID


def rand_res(rng, allow_invalid):
    n = weighted(rng, [(0, 3), (1, 6), (2, 4), (3, 2), (4, 2)])
    for _ in range(50):
        r = [weighted(rng, [(t, 2) for t in INT_T] + [("p", 2), ("f", 3), ("d", 4), ("ld", 3)]) for _ in range(n)]
        ni = sum(1 for t in r if t in INT_T or t == "p")
        nx = sum(1 for t in r if t in ("f", "d"))
        nl = sum(1 for t in r if t == "ld")
        ok = ni <= 2 and nx <= 2 and nl <= 2
        # illegal lists are generated only in the form both engines reject (a third integer result);
        # a third f/d/ld result is *accepted* by machinize_call (it is read from rax/rdx as if it were
        # an integer: garbage or a crash) - outside the property's domain, see the assumptions
        if ok or (allow_invalid and nx <= 2 and nl <= 2):
            return r
    return []


def rand_case(rng, gcc_mode=False):
    prof = rng.choice(PROFILES)[1]
    sizes = GCC_SIZES if gcc_mode else BLK_SIZES
    nargs = weighted(rng, [(0, 1), (1, 2), (2, 2), (3, 2), (5, 3), (7, 3), (9, 4), (12, 4), (16, 4), (20, 3), (24, 2)])
    nargs = max(0, nargs - rng.below(2))
    variadic = rng.chance(1, 3)
    nva = rng.below(min(6, nargs + 1)) if variadic else 0
    args = [rand_type(rng, prof, sizes) for _ in range(nargs - nva)]
    va = [rand_type(rng, VA_WEIGHTS, sizes) for _ in range(nva)] if variadic else None
    if gcc_mode and variadic and not args:
        args = ["i32"]
    res = rand_res(rng, allow_invalid=(not gcc_mode and rng.chance(1, 25)))
    if gcc_mode and len(res) > 1:
        res = rng.choice([["i64", "u64"], ["p", "d"], ["d", "i64"], ["d", "d"], ["ld", "ld"], res[:1], res[:1]])
    return {"res": res, "args": args, "va": va}


LONG_LENGTHS = list(range(60, 71)) + [127, 128, 129, 130] + [190, 200, 210]


def long_cases(rng, per_length):
    """argument lists far beyond the register files and beyond the default sizes of the interpreter's
    per-call arrays (VARR default 64 elements): 60..70, 127..130, ~200 arguments"""
    out = []
    shapes = [
        lambda j: "i64", lambda j: "d", lambda j: ("i64", "d")[j % 2],
        lambda j: rng.choice(INT_T + ["p"]),
        lambda j: rng.choice(["i32", "d", "f", "u8", "blk1:8", "blk2:16", "blk0:12", "blk3:16", "blk4:12", "blk1:13"]),
        lambda j: rng.choice(["i64", "d", "ld", "blk0:24", "rblk:24", "i16"]),
    ]
    for n in LONG_LENGTHS:
        for k in range(per_length):
            sh = shapes[(k + n) % len(shapes)] if per_length < len(shapes) else shapes[k % len(shapes)]
            args = [sh(j) for j in range(n)]
            res = rng.choice([[], ["i64"], ["d", "i32"], ["ld"]])
            if rng.chance(1, 4):       # long variadic tail behind a few named parameters
                nn = 1 + rng.below(4)
                tail = [t if va_type_ok(t) else "i64" for t in args[nn:]]
                out.append({"res": res, "args": args[:nn], "va": tail})
            else:
                out.append({"res": res, "args": args, "va": None})
    return out


def res_legal(r):
    ni = sum(1 for t in r if t in INT_T or t == "p")
    nx = sum(1 for t in r if t in ("f", "d"))
    nl = sum(1 for t in r if t == "ld")
    return ni <= 2 and nx <= 2 and nl <= 2


VA_OK = ("i64", "d", "ld")


def va_type_ok(t):
    return t in VA_OK or t.startswith("blk")


def related(rng, c):
    """prototypes differing from c in exactly one position of the signature the interpreter's trampoline
    cache is keyed by: one result type, one argument type, one block size, the vararg flag, the split
    between named and variadic arguments, the argument count (equal prefix), the result count"""
    out = []
    res, args, va = c["res"], c["args"], c["va"]
    for k in range(len(res)):
        alts = [t for t in ["i64", "d", "ld", "i8", "u32", "f", "p", "u16"] if t != res[k]]
        for t in (alts[rng.below(len(alts))], alts[rng.below(len(alts))]):
            r2 = res[:k] + [t] + res[k + 1:]
            if res_legal(r2):
                out.append((f"res@{k}", {**c, "res": r2}))
    pos = list(range(len(args)))
    if len(pos) > 4:
        pos = sorted({rng.below(len(args)) for _ in range(4)} | {0, len(args) - 1})
    for j in pos:
        n, sz = tparse(args[j])
        alts = [t for t in ["i64", "i32", "d", "f", "ld", "p", "u8", "blk1:8", "blk2:8", "blk0:24", "rblk:24", "blk3:16"]
                if t != args[j]]
        out.append((f"arg@{j}", {**c, "args": args[:j] + [alts[rng.below(len(alts))]] + args[j + 1:]}))
        if n in BLK_SIZES:
            q = (sz + 7) // 8
            same = [x for x in BLK_SIZES[n] if x != sz and (x + 7) // 8 == q]
            diff = [x for x in BLK_SIZES[n] if (x + 7) // 8 != q]
            for pool in (same, diff):
                if pool:
                    out.append((f"blksize@{j}", {**c, "args": args[:j] + [f"{n}:{rng.choice(pool)}"] + args[j + 1:]}))
    if va is None:
        out.append(("vararg", {**c, "va": []}))
    elif not va:
        out.append(("vararg", {**c, "va": None}))
    if args and va_type_ok(args[-1]):
        out.append(("split", {**c, "args": args[:-1], "va": [args[-1]] + (va or [])}))
    if va:
        out.append(("split", {**c, "args": args + [va[0]], "va": va[1:]}))
    if args:
        out.append(("argcount", {**c, "args": args[:-1]}))
    out.append(("argcount", {**c, "args": args + [rng.choice(["i64", "d", "i32", "blk1:8"])]}))
    if res:
        out.append(("nres", {**c, "res": res[:-1]}))
    for t in ("i64", "d", "ld"):
        if len(res) < 4 and res_legal(res + [t]):
            out.append(("nres", {**c, "res": res + [t]}))
            break
    return out


def related_sequences(rng, n_bases):
    """sequences of related prototypes, both orders, plus revisits"""
    seqs = []
    for _ in range(n_bases):
        c = rand_case(rng)
        if len(all_args(c)) > 12:
            c = {**c, "args": c["args"][:8]}
        if not c["res"] and rng.chance(2, 3):
            c = {**c, "res": rng.choice([["i64", "i64"], ["i64", "d"], ["d", "i8"], ["ld", "i32", "d"], ["f"]])}
        rel = related(rng, c)
        for kind, v in rel:
            seqs.append((kind, [c, v]))
            seqs.append((kind, [v, c]))
        if len(rel) >= 2:
            a, b = rel[rng.below(len(rel))], rel[rng.below(len(rel))]
            seqs.append((a[0] + "+" + b[0], [c, a[1], b[1], c]))
            seqs.append((a[0] + "+" + b[0], [a[1], b[1], c, a[1]]))
    return seqs


RES_ALPHA = ["i64", "i8", "d", "f", "ld"]


def exhaustive_result_pairs(maxlen):
    """every ordered pair of legal result lists (length <= maxlen over RES_ALPHA) differing in exactly one
    position, in two argument contexts"""
    lists = [[]]
    allr = []
    for _ in range(maxlen):
        lists = [l + [t] for l in lists for t in RES_ALPHA]
        allr += [l for l in lists if res_legal(l)]
    seqs = []
    for ctxargs in ([], ["i32", "d"]):
        for r in allr:
            for k in range(len(r)):
                for t in RES_ALPHA:
                    r2 = r[:k] + [t] + r[k + 1:]
                    if t != r[k] and res_legal(r2):
                        seqs.append((f"res@{k}", [{"res": r, "args": ctxargs, "va": None},
                                                  {"res": r2, "args": ctxargs, "va": None}]))
    return seqs


EXH_ALPHA = ["i32", "i64", "f", "d", "ld", "blk0:24", "blk1:8", "blk1:16", "blk2:8", "blk2:16", "blk3:16",
             "blk4:16", "rblk:24"]
EXH_PREFIXES = [[], ["i64"] * 5, ["i64"] * 6, ["i64"] * 7, ["d"] * 7, ["d"] * 8, ["i64"] * 6 + ["d"] * 8,
                ["i64"] * 7 + ["d"] * 8, ["i64"] * 4 + ["d"] * 6]


def exhaustive_cases(maxlen, prefixes):
    out = []

    def rec(cur):
        yield cur
        if len(cur) < maxlen:
            for t in EXH_ALPHA:
                yield from rec(cur + [t])
    for pre in prefixes:
        for s in rec([]):
            out.append({"res": [], "args": pre + s, "va": None})
    return out


# ----------------------------------------------------------------------------- classification of a violation


def blk_kind(t):
    return tparse(t)[0] if t.startswith("blk") else None


def signature(c, eng, jd):
    """canonical key of a property violation on a (minimised) case.  A violation is attributed to a
    known defect only when the observation equals the *model of the pinned code* (tie holds) and the
    first discrepancy has the shape of that defect; everything else gets a fresh signature."""
    p = jd["prop"][0]
    eclass = "ff" if eng == "i" else "gen"
    tie_ok = not jd["tie"]
    args = all_args(c)
    if p["kind"] == "arg":
        n = tparse(p["type"])[0]
        if tie_ok and n == "ld":
            return "C05:ld-after-odd-stack-words"
        if tie_ok and eng == "i" and any(blk_kind(t) in ("blk1", "blk3", "blk4") for t in args):
            return "C05:ff-blk-xmm-skew"
        return f"C05:{eclass}-arg-{n}"
    if p["kind"] == "al":
        if tie_ok and eng != "i" and any(blk_kind(t) in ("blk2", "blk3", "blk4") for t in args):
            return "C05:gen-al-ignores-blk-xmm"
        return f"C05:{eclass}-al"
    if p["kind"] == "res":
        return f"C05:{eclass}-res-{p['type']}"
    return f"C05:{eclass}-{p['kind']}"


# ----------------------------------------------------------------------------- the check


class Runner:
    def __init__(self, ck, exe, model):
        self.ck, self.exe, self.model = ck, exe, model
        self.n_eval = 0
        self.n_skipped = 0

    def eval_cases(self, cases, engines, seeds=None, gcc=False, tag="b"):
        """run cases through the probe (or gcc callees); returns list of (case, engine, judgement)"""
        builds = []
        for i, c in enumerate(cases):
            sd = seeds[i] if seeds else self.sentinel_seed(c)
            builds.append(build(c, sd))
        lines = [case_line(c) for c in cases]
        ms = self.model.place(lines)
        pairs = []
        for c, b in zip(cases, builds):
            pairs += passint_pairs(c, b)
        xs = self.model.passint(pairs)
        model_x = dict(zip(pairs, xs))
        so = None
        reqs = []
        if gcc:
            srcs = [c_callee(f"cal{i}", c, b, m, model_x) for i, (c, b, m) in enumerate(zip(cases, builds, ms))]
            so = build_so(self.ck, srcs, tag)
            if so is None:
                self.ck.broken_ties.append({"kind": "gcc-oracle-compile", "name": tag})
                return []
        for i, (c, b) in enumerate(zip(cases, builds)):
            reqs.append((f"c{i}", engines, request(f"c{i}", c, b, engines, callee=(f"cal{i}" if gcc else None),
                                                   stkw=stkw_of([ms[i]]))))
        res, crashes = run_parallel(self.exe, reqs, so)
        # a timeout may be machine load, not a hang: re-run such an evaluation alone with a generous limit
        slow = [(cid, e) for (cid, e), r in res.items() if "timeout" in r.get("X", "")][:6]
        for cid, e in slow:
            rq = next(t for (c_, _, t) in reqs if c_ == cid)
            r2, _ = run_harness(self.exe, [(cid, [e], retarget(rq, [e]))], so, timeout=120)
            if (cid, e) in r2 and "X" not in r2[(cid, e)]:
                res[(cid, e)] = r2[(cid, e)]
            elif (cid, e) in r2:
                res[(cid, e)]["X"] = "hang (no answer within 120 s when run alone)"
        out = []
        for i, (c, b, m) in enumerate(zip(cases, builds, ms)):
            for e in engines:
                r = res.get((f"c{i}", e))
                if r is None:
                    r = {"X": "no output", "base": None}
                if r.get("X", "").startswith("skipped"):
                    self.n_skipped += 1
                    continue
                self.n_eval += 1
                if gcc:
                    jd = {"prop": judge_gcc(c, b, e, r, m, model_x), "tie": [], "obs": None}
                else:
                    jd = judge(c, b, e, r, m, model_x)
                out.append((c, e, jd, m))
        return out

    def eval_seqs(self, seqs, engines, seed_salt=0):
        """run call SEQUENCES (lists of prototypes) each in one context per engine, so that state kept
        between calls (the interpreter's ff-interface cache keyed by signature) is exercised.
        Returns list of (seq index, step, case, engine, judgement, model)."""
        flat = [c for sq in seqs for c in sq]
        ms_all = self.model.place([case_line(c) for c in flat])
        builds, pairs, k = [], [], 0
        for si, sq in enumerate(seqs):
            bs = []
            for st, c in enumerate(sq):
                b = build(c, (self.sentinel_seed(c) + 977 * st + seed_salt) & M64)
                bs.append(b)
                pairs += passint_pairs(c, b)
            builds.append(bs)
        model_x = dict(zip(pairs, self.model.passint(pairs)))
        reqs, k0 = [], 0
        for si, bs in enumerate(builds):
            reqs.append((f"q{si}", engines, seq_request(f"q{si}", bs, engines, stkw=stkw_of(ms_all[k0:k0 + len(bs)]))))
            k0 += len(bs)
        res, crashes = run_parallel(self.exe, reqs, None)
        out = []
        for si, sq in enumerate(seqs):
            for st, c in enumerate(sq):
                m = ms_all[k]
                k += 1
                for e in engines:
                    r = res.get((f"q{si}.{st}", e))
                    if r is None:
                        whole = res.get((f"q{si}", e))     # crash/hang is recorded for the whole request
                        r = {"X": (whole or {}).get("X", "no output"), "base": None}
                    if r.get("X", "").startswith("skipped"):
                        self.n_skipped += 1
                        continue
                    self.n_eval += 1
                    out.append((si, st, c, e, judge(c, builds[si][st], e, r, m, model_x), m))
        return out

    def sentinel_seed(self, c):
        return (self.ck.seed * 7919 + hash_case(c)) & M64

    def fails(self, c, eng, gcc=False, seed=None):
        r = self.eval_cases([c], [eng], seeds=[seed] if seed is not None else None, gcc=gcc, tag="s")
        if not r:
            return None
        return r[0][2] if r[0][2]["prop"] else None

    def shrink(self, c, eng, gcc=False, budget=60):
        """greedy minimisation of a failing prototype (same kind of first property discrepancy)"""
        sd = self.sentinel_seed(c)     # the same sentinel stream for every candidate
        jd = self.fails(c, eng, gcc, sd)
        if jd is None:
            return c, None
        kind = jd["prop"][0]["kind"]
        if kind in ("crash", "error"):
            budget = min(budget, 12)      # every probe of a hanging engine costs a timeout
        cur, curjd = c, jd
        changed = True
        while changed and budget > 0:
            changed = False
            cands = []
            for i in range(len(cur["args"]) - 1, -1, -1):
                cands.append({**cur, "args": cur["args"][:i] + cur["args"][i + 1:]})
            if cur["va"] is not None:
                for i in range(len(cur["va"]) - 1, -1, -1):
                    cands.append({**cur, "va": cur["va"][:i] + cur["va"][i + 1:]})
                if not cur["va"]:
                    cands.append({**cur, "va": None})
            for i in range(len(cur["res"]) - 1, -1, -1):
                cands.append({**cur, "res": cur["res"][:i] + cur["res"][i + 1:]})
            for i, t in enumerate(cur["args"]):
                if t not in ("i64", "d") and not t.startswith(("blk", "rblk", "ld")):
                    cands.append({**cur, "args": cur["args"][:i] + ["d" if t == "f" else "i64"] + cur["args"][i + 1:]})
            for cand in cands:
                if budget <= 0:
                    break
                if gcc and not gcc_supported(cand):
                    continue
                budget -= 1
                j2 = self.fails(cand, eng, gcc, sd)
                if j2 is not None and j2["prop"][0]["kind"] == kind:
                    cur, curjd, changed = cand, j2, True
                    break
        return cur, curjd


def hash_case(c):
    return int(hashlib.sha256(case_line(c).encode()).hexdigest()[:15], 16)


def nontrivial(c, m):
    """a case reaches the mechanism when something goes to the stack, a block is passed, a narrow
    integer is passed/returned, or the call is variadic"""
    a = all_args(c)
    return (m["SYSV"]["stk"] > 0 or any(t.startswith(("blk", "rblk")) for t in a) or c["va"] is not None
            or any(t in INT_T[:6] for t in a + c["res"]) or len(c["res"]) > 1)


WITNESSES = [
    # (flag, signature, case line, engine) — pinned replays of the known defects of the pinned tree
    ("ldff", "C05:ld-after-odd-stack-words", "r: a:i64,i64,i64,i64,i64,i64,i64,ld v:!", "i"),
    ("ldgen", "C05:ld-after-odd-stack-words", "r: a:i64,i64,i64,i64,i64,i64,i64,ld v:!", "0"),
    ("blkxmm", "C05:ff-blk-xmm-skew", "r: a:blk1:8,d,d,blk3:16 v:!", "i"),
    ("alblk", "C05:gen-al-ignores-blk-xmm", "r: a:i64 v:blk2:8", "0"),
]


def main():
    ck = Check(PID)
    ck.proof_gate(["MirVerif.Props.C05"],
                  support_modules=["MirVerif.Model.AbiX64", "MirVerif.Lemmas.AbiX64", "MirVerif.Lemmas.AbiX64Run", "MirVerif.Lemmas.AbiX64Spec",
                                   "MirVerif.Lemmas.AbiX64Cache"],
                  exes=["mirdrv_c05"])
    srcs = ["harness/c05_harness.c", "harness/c05_probe.S", os.path.join(REPO, "mir.c"), os.path.join(REPO, "mir-gen.c")]
    exes = ck.cc_par([("c05_harness", srcs, ["-O1", "-g", "-DNDEBUG", "-w"]),
                      ("c05_harness_asan", srcs, ["-O1", "-g", "-DNDEBUG", "-w", "-fsanitize=address",
                                                  "-fno-omit-frame-pointer"]),
                      ("c05_c2m", [os.path.join(REPO, "c2mir", "c2mir-driver.c"), os.path.join(REPO, "c2mir", "c2mir.c"),
                                   os.path.join(REPO, "mir.c"), os.path.join(REPO, "mir-gen.c")],
                       ["-O1", "-DNDEBUG", "-w"])])
    exe, exe_asan, exe_c2m = exes["c05_harness"], exes["c05_harness_asan"], exes["c05_c2m"]
    if exe_c2m is None:
        ck.broken_ties.append({"kind": "harness-compile", "name": "c05_c2m", "log": getattr(ck, "last_cc_log", "")[-1500:]})
    if exe_asan is None:
        ck.broken_ties.append({"kind": "harness-compile", "name": "c05_harness_asan", "log": getattr(ck, "last_cc_log", "")[-1500:]})
    if exe is None:
        ck.broken_ties.append({"kind": "harness-compile", "name": "c05_harness", "log": ck.last_cc_log[-1500:]})
        ck.finish()
    thorough = ck.tier == "thorough"

    # ---- stage 0: which variant of the code model does the tree implement?  (pinned witnesses)
    base_model = Model(ck, {"ldff": 0, "ldgen": 0, "blkxmm": 0, "alblk": 0})
    rn0 = Runner(ck, exe, base_model)
    flags = {}
    wit_results = []
    for flag, sig, line, eng in WITNESSES:
        c = case_from_line(line)
        (c_, e_, jd, m) = rn0.eval_cases([c], [eng])[0]
        repaired = not jd["prop"]
        flags[flag] = 1 if repaired else 0
        wit_results.append((flag, sig, line, eng, jd, m))
    model = Model(ck, flags)
    rn = Runner(ck, exe, model)
    ck.cov["model_variant"] = {"flags": flags,
                               "meaning": "1 = the known defect is repaired in the tree under test; the code model "
                                          "(ffPlace/genPlace cfg) used for the tie is the matching variant"}
    full = {"ff": flags["ldff"] and flags["blkxmm"], "gen": flags["ldgen"], "al": flags["alblk"]}
    ck.cov["model_variant"]["theorems_about_this_variant"] = {
        "ff": ["ff_meets_sysv_fixed (full)"] if full["ff"] else
              ["ff_meets_sysv_partial", "ff_meets_sysv_false_ld / ff_meets_sysv_false_blk (full statement refuted)"],
        "gen": ["gen_meets_sysv_fixed (full)"] if full["gen"] else ["gen_meets_sysv_partial", "gen_meets_sysv_false"],
        "ff_eq_gen": ["ff_eq_gen_fixed (full)"] if full["ff"] and full["gen"] else ["ff_eq_gen_partial", "ff_eq_gen_false"],
        "al": ["ff_al_ok", "gen_al_fixed (full)" if full["al"] else "gen_al_partial + gen_al_false"],
        "results": ["ffRes_meets_sysv", "genRes_meets_sysv", "ffRes_eq_genRes"],
        "narrowing": ["narrowing", "narrowing_idem"],
        "spec": ["sysv_wellformed", "sysv_stack_aligned", "ff_call_aligned", "gen_call_aligned"]}
    ck.stage("variant", flags=flags)
    ck.log("code-model variant detected:", flags)

    emitted = {}

    def report(c, eng, jd, m, how, gcc=False):
        """shrink, classify and report one property violation (once per signature and engine class)"""
        small, sjd = rn.shrink(c, eng, gcc)
        sseed = rn.sentinel_seed(c)
        if sjd is None:
            small, sjd = c, jd
        if gcc:
            # classify on the probe observation of the same prototype
            pj = rn.eval_cases([small], [eng])[0][2]
            sig = signature(small, eng, pj) if pj["prop"] else f"C05:gcc-only-{sjd['prop'][0]['kind']}"
        else:
            sig = signature(small, eng, sjd)
        line = case_line(small)
        ekey = (sig, "ff" if eng == "i" else "gen")
        if ekey in emitted:
            emitted[ekey]["count"] += 1
            return sig
        emitted[ekey] = {"count": 1, "minimal": line, "engine": eng}
        mm = model.place([line])[0]
        code = mm["FF"] if eng == "i" else mm["GEN"]
        ck.violation({"stage": "tie", "theorem_or_correspondence": "ff_meets_sysv/gen_meets_sysv vs probe callee",
                      "input": {"prototype": line, "engine": eng, "oracle": "gcc-callee" if gcc else "asm-probe",
                                "original": case_line(c), "sentinel_seed": sseed},
                      "model_output": {"sysv": mm["SYSV"], "code_model": code, "res": mm["RES"]},
                      "impl_output": {"observed": sjd.get("obs"), "al": sjd.get("al"),
                                      "discrepancies": sjd["prop"][:6], "tie_discrepancies": sjd["tie"][:6]},
                      "spec_verdict": "callee does not receive the prototype's values at the psABI locations",
                      "how_to_rerun": f"cd /verif && ./check C05 --replay <this file>   # {how}"},
                     what=f"{'interpreter FFI' if eng == 'i' else 'generated code -O' + eng}: {sjd['prop'][0]} on `{line}`",
                     signature=sig)
        return sig

    def report_sequence(sq, step, eng, jd, sig, how="call sequence"):
        """minimise a history-dependent failure to two calls and report it"""
        best, bjd, bstep = sq[:step + 1], jd, step
        for j in range(step):
            r = [x for x in rn.eval_seqs([[sq[j], sq[step]]], [eng]) if x[1] == 1]
            if r and r[0][4]["prop"]:
                best, bjd, bstep = [sq[j], sq[step]], r[0][4], 1
                break
        lines = [case_line(x) for x in best]
        mm = model.place([lines[bstep]])[0]
        ck.violation({"stage": "tie", "theorem_or_correspondence": "ff_cache_sound / cacheLookup_own vs probe callee",
                      "input": {"sequence": lines, "failing_step": bstep, "engine": eng, "oracle": "asm-probe"},
                      "model_output": {"sysv": mm["SYSV"], "res": mm["RES"],
                                       "note": "placement of a call depends on its own signature only"},
                      "impl_output": {"observed": bjd.get("obs"), "discrepancies": bjd["prop"][:6]},
                      "spec_verdict": "the call behaves correctly when it is the only call in the context, but not after "
                                      "the earlier call(s) of the sequence",
                      "how_to_rerun": f"cd /verif && ./check C05 --replay <this file>   # {how}"},
                     what=f"{'interpreter FFI' if eng == 'i' else 'generated code -O' + eng}: after `{lines[0]}` the call "
                          f"`{lines[bstep]}` fails: {bjd['prop'][0]}",
                     signature=sig)

    # ---- replay mode
    if ck.replay:
        rp = json.load(open(ck.replay))
        inp = rp.get("input", {})
        if isinstance(rp.get("seed"), int):
            ck.seed = rp["seed"]      # sentinels (and the struct member lists of the c2mir stage) derive from it
        if "c_prototype" in inp and exe_c2m is not None:
            c = case_from_line(inp["c_prototype"])
            eng = inp.get("engine", "c2m -ei").split()[-1]
            rr = c2m_stage(ck, rn, exe_c2m, [c], engines=(eng,))
            for (c2, e2, prop) in rr:
                ck.log(f"replay c2m {e2} `{case_line(c)}`: {prop[:4]}")
                if prop:
                    ck.violation({"stage": "tie", "input": inp, "impl_output": {"discrepancies": prop[:6]}},
                                 what=f"c2m {e2}: C call with parameter list `{case_line(c)}`: {prop[0]}",
                                 signature=rp.get("signature"))
            ck.cov["evaluations"] = rn.n_eval
            ck.finish()
        if "sequence" in inp:
            sq = [case_from_line(l) for l in inp["sequence"]]
            eng = inp.get("engine", "i")
            rr = rn.eval_seqs([sq], [eng])
            for (si, st, c, e, jd, m) in rr:
                ck.log(f"replay step {st} `{case_line(c)}` engine {e}: prop={jd['prop'][:3]} tie={jd['tie'][:3]}")
            badr = [x for x in rr if x[4]["prop"]]
            for (si, st, c, e, jd, m) in badr:
                al = rn.eval_cases([c], [e])[0][2]
                if not al["prop"]:
                    report_sequence(sq, st, e, jd, rp.get("signature") or "C05:call-history", how="replay")
                    break
            ck.cov["evaluations"] = rn.n_eval
            ck.finish()
        c = case_from_line(inp["prototype"])
        eng = inp.get("engine", "i")
        sds = [inp["sentinel_seed"]] if "sentinel_seed" in inp else None
        gcc_replay = inp.get("oracle") == "gcc-callee" and gcc_supported(c)
        (c_, e_, jd, m) = rn.eval_cases([c], [eng], seeds=sds)[0]
        if gcc_replay and not jd["prop"]:
            gj = rn.eval_cases([c], [eng], seeds=sds, gcc=True, tag="rp")
            if gj and gj[0][2]["prop"]:
                jd = dict(jd, prop=gj[0][2]["prop"])
        ck.log("replay", case_line(c), "engine", eng)
        ck.log(" sysv :", m["SYSV"])
        ck.log(" model:", m["FF"] if eng == "i" else m["GEN"])
        ck.log(" obs  :", jd.get("obs"), "al", jd.get("al"))
        ck.log(" tie  :", jd["tie"])
        ck.log(" prop :", jd["prop"])
        if jd["prop"]:
            report(c, eng, jd, m, "replay", gcc=gcc_replay and "oracle" in jd["prop"][0])
        elif jd["tie"]:
            ck.broken_ties.append({"kind": "correspondence", "name": "replay", "first_diff": jd["tie"][0]})
        ck.cov["evaluations"] = rn.n_eval
        ck.finish()

    # ---- stage 1: known findings (witness replays) and corpus
    seen_sigs = {}
    for flag, sig, line, eng, jd, m in wit_results:
        if jd["prop"]:
            # confirm on the second oracle that a real C callee receives garbage
            c = case_from_line(line)
            gj = rn.eval_cases([c], [eng], gcc=True, tag="w")
            gbad = bool(gj and gj[0][2]["prop"])
            s = report(c, eng, jd, m, "pinned witness")
            seen_sigs[s] = seen_sigs.get(s, 0) + 1
            ck.log(f"witness {flag}: defect present ({sig}); gcc-compiled callee sees it: {gbad}")
    corpus_dir = os.path.join(VERIF, "corpus", PID)
    corpus = []
    if os.path.isdir(corpus_dir):
        for fn in sorted(os.listdir(corpus_dir)):
            if fn.endswith(".json"):
                d = json.load(open(os.path.join(corpus_dir, fn)))
                for ent in d.get("cases", []):
                    corpus.append((case_from_line(ent["prototype"]), ent.get("engines", ENGINES_ALL)))
    ck.cov["corpus_replayed"] = len(corpus)

    # ---- stage 2: case generation
    n_rand = 40000 if thorough else 3000
    n_gcc = 12000 if thorough else 1200
    cases = [c for c, _ in corpus]
    rand_cases = [rand_case(ck.rng) for _ in range(n_rand)]
    exh = exhaustive_cases(3 if thorough else 2, EXH_PREFIXES)
    if thorough:
        exh += exhaustive_cases(4, [[]])
    gcc_cases = [c for c in (rand_case(ck.rng, gcc_mode=True) for _ in range(n_gcc * 2)) if gcc_supported(c)][:n_gcc]
    gcc_cases += [c for c, _ in corpus if gcc_supported(c)]
    # drop prototypes needing more outgoing stack than the probe records
    def fits(c):
        m = model.place([case_line(c)])[0]
        return "err" not in m and max(m["SYSV"]["stk"], m["FF"]["stk"], m["GEN"]["stk"]) <= 8 * NSTK - 64
    model.place([case_line(c) for c in cases + rand_cases + exh + gcc_cases])
    rand_cases = [c for c in rand_cases if fits(c)]
    gcc_cases = [c for c in gcc_cases if fits(c)]
    ck.stage("generate", corpus=len(cases), random=len(rand_cases), exhaustive=len(exh), gcc=len(gcc_cases))

    # ---- stage 3: run
    results = []
    t = time.time()
    results += [(x, False) for x in rn.eval_cases(cases + rand_cases, ENGINES_ALL, tag="r")]
    ck.log(f"probe: corpus+random {len(cases) + len(rand_cases)} prototypes x 5 engines: {time.time() - t:.1f}s")
    n_crash = sum(1 for (x, _) in results if any(p["kind"] == "crash" for p in x[2]["prop"]))
    if n_crash >= 3 or rn.n_skipped:
        ck.log(f"{n_crash} crashes/hangs of the engines, {rn.n_skipped} evaluations skipped: later stages shortened")
        exh, gcc_cases = exh[:200], gcc_cases[:100]
    t = time.time()
    results += [(x, False) for x in rn.eval_cases(exh, ["i", "0", "2"], tag="e")]
    ck.log(f"probe: exhaustive {len(exh)} prototypes x 3 engines: {time.time() - t:.1f}s")
    t = time.time()
    CH = 300
    geng = ENGINES_ALL if thorough else ["i", "0", "2"]
    with ThreadPoolExecutor(max_workers=8) as ex:
        futs = [ex.submit(rn.eval_cases, gcc_cases[k:k + CH], geng, None, True, f"g{k}") for k in range(0, len(gcc_cases), CH)]
        for f in futs:
            results += [(x, True) for x in f.result()]
    ck.log(f"gcc oracle: {len(gcc_cases)} prototypes: {time.time() - t:.1f}s")

    # ---- stage 3b: call SEQUENCES in one context (trampoline cache keyed by signature, generator state)
    t = time.time()
    seqs = exhaustive_result_pairs(3 if thorough else 2) + related_sequences(ck.rng, 1500 if thorough else 150)
    model.place([case_line(c) for _, sq in seqs for c in sq])      # one driver call for all of them
    # (an expected MIR error in one step abandons the context, so sequences use legal result lists only)
    seqs = [(k, sq) for (k, sq) in seqs if all(fits(c) and res_legal(c["res"]) for c in sq)]
    if n_crash >= 3 or rn.n_skipped:
        seqs = seqs[:300]
    seq_res = rn.eval_seqs([sq for _, sq in seqs], ["i", "0", "2"])
    # ---- stage 3c: very long argument lists on all engines; AddressSanitizer flavour of the library
    t2 = time.time()
    longs = long_cases(ck.rng, 6 if thorough else 3)
    model.place([case_line(c) for c in longs])
    longs = [c for c in longs if fits(c)]
    results += [(x, False) for x in rn.eval_cases(longs, ENGINES_ALL, tag="l")]
    n_asan = 0
    if exe_asan is not None:
        rn_a = Runner(ck, exe_asan, model)
        acases = cases + longs + rand_cases[:(4000 if thorough else 400)]
        results += [(x, False) for x in rn_a.eval_cases(acases, ["i", "0", "2"], tag="a")]
        seq_res += rn_a.eval_seqs([sq for _, sq in seqs[:(3000 if thorough else 300)]], ["i", "2"])
        n_asan = rn_a.n_eval
        rn.n_eval += rn_a.n_eval
        rn.n_skipped += rn_a.n_skipped
    ck.log(f"long lists: {len(longs)} prototypes with {LONG_LENGTHS[0]}..{LONG_LENGTHS[-1]} arguments x 5 engines; "
           f"ASan flavour: {n_asan} evaluations: {time.time() - t2:.1f}s")
    ck.cov["long_lists"] = {"lengths": LONG_LENGTHS, "prototypes": len(longs), "asan_evaluations": n_asan,
                            "rule": "all-i64, all-d, alternating, narrow ints, block mixes, ld/rblk mixes; a quarter with "
                                    "the list as a variadic tail; interpreter FFI and generated code -O0..-O3; also run on a "
                                    "-fsanitize=address build of mir.c/mir-gen.c"}
    ck.log(f"sequences: {len(seqs)} call sequences ({sum(len(sq) for _, sq in seqs)} calls) x 3 engines: {time.time() - t:.1f}s")
    seq_kinds = {}
    for k, sq in seqs:
        for kk in k.split("+"):
            kk = kk.split("@")[0]
            seq_kinds[kk] = seq_kinds.get(kk, 0) + 1
    # a failing step is a finding about the call history only if the same prototype passes when alone
    bad = [(si, st, c, e, jd, m) for (si, st, c, e, jd, m) in seq_res if jd["prop"] or jd["tie"]]
    alone = {}
    if bad:
        uniq = {}
        for (si, st, c, e, jd, m) in bad:
            uniq.setdefault(case_line(c), c)
        for (c2, e2, j2, m2) in rn.eval_cases(list(uniq.values()), ["i", "0", "2"], tag="sa"):
            alone[(case_line(c2), e2)] = (c2, e2, j2, m2)
    seq_viol, seq_tie = [], []
    for (si, st, c, e, jd, m) in bad:
        a = alone.get((case_line(c), e))
        if a is not None and (a[2]["prop"] or a[2]["tie"]):
            results.append((a, False))          # fails alone as well: the ordinary path classifies it
        elif jd["prop"]:
            seq_viol.append((si, st, c, e, jd, m))
        else:
            seq_tie.append((si, st, c, e, jd, m))
    results += [((c, e, jd, m), False) for (si, st, c, e, jd, m) in seq_res if not (jd["prop"] or jd["tie"])]
    seq_reported = set()
    for (si, st, c, e, jd, m) in seq_viol:
        p0 = jd["prop"][0]
        sig = f"C05:{'ff' if e == 'i' else 'gen'}-call-history-{p0['kind']}-{tparse(str(p0.get('type', '')))[0] if p0.get('type') else ''}"
        if sig in seq_reported or len(seq_reported) >= 6:
            continue
        seq_reported.add(sig)
        report_sequence(seqs[si][1], st, e, jd, sig)
    if seq_tie and not seq_viol:
        (si, st, c, e, jd, m) = seq_tie[0]
        ck.broken_ties.append({"kind": "correspondence", "name": "code model vs probe inside a call sequence",
                               "first_diff": {"sequence": [case_line(x) for x in seqs[si][1]], "step": st, "engine": e,
                                              "diff": jd["tie"][:4]}, "count": len(seq_tie)})
    ck.cov["sequences"] = {"sequences": len(seqs), "calls": sum(len(sq) for _, sq in seqs), "engines": ["i", "0", "2"],
                           "single_position_changes": seq_kinds, "history_dependent_failures": len(seq_viol),
                           "rule": "pairs (both orders), and 4-call revisits, of prototypes differing in exactly one "
                                   "position of the signature (one result type, one argument type, one block size, vararg "
                                   "flag, named/variadic split, argument count with equal prefix, result count), all calls "
                                   "of a sequence in ONE context; plus every ordered pair of legal result lists of length <= "
                                   f"{3 if thorough else 2} over {RES_ALPHA} differing in one position"}

    # ---- stage 3d: C compiled by c2mir (its own psABI classification) calls gcc-compiled callees
    if exe_c2m is not None:
        t2 = time.time()
        ccases = c2m_shapes(ck.rng, 1500 if thorough else 250)
        model.place([case_line(c) for c in ccases])
        ccases = [c for c in ccases if fits(c)]
        cres = []
        CH = 200
        with ThreadPoolExecutor(max_workers=8) as ex:
            for part in ex.map(lambda k: c2m_stage(ck, rn, exe_c2m, ccases[k:k + CH]), range(0, len(ccases), CH)):
                cres += part
        c2m_seen = set()
        n_c2m_fail = 0
        for (c, eng, prop) in cres:
            if not prop:
                continue
            n_c2m_fail += 1
            p0 = prop[0]
            sig = f"C05:c2mir-call-{p0['kind']}-{tparse(str(p0.get('type') or 'x').split(',')[0])[0]}"
            if sig in c2m_seen or len(c2m_seen) >= 5:
                continue
            c2m_seen.add(sig)
            small, sprop = c, prop
            if c is not None:                      # greedy minimisation: drop arguments while it still fails
                changed, budget = True, 40
                while changed and budget > 0:
                    changed = False
                    for i in range(len(small["args"]) - 1, -1, -1):
                        cand = {**small, "args": small["args"][:i] + small["args"][i + 1:]}
                        if not gcc_supported(cand):
                            continue
                        budget -= 1
                        rr = [x for x in c2m_stage(ck, rn, exe_c2m, [cand], engines=(eng,)) if x[2]]
                        if rr and rr[0][2][0]["kind"] == p0["kind"]:
                            small, sprop, changed = cand, rr[0][2], True
                            break
            line = case_line(small) if small is not None else "(whole batch)"
            ck.violation({"stage": "tie", "theorem_or_correspondence": "sysvPlace vs C caller compiled by c2mir calling a gcc callee",
                          "input": {"c_prototype": line, "engine": "c2m " + eng, "oracle": "gcc-callee"},
                          "model_output": {"sysv": model.place([line])[0]["SYSV"] if small is not None else None},
                          "impl_output": {"discrepancies": sprop[:6]},
                          "spec_verdict": "a gcc-compiled callee does not receive the values the C caller (compiled by c2mir) passed",
                          "how_to_rerun": "cd /verif && ./check C05 --replay <this file>"},
                         what=f"c2m {eng}: C call with parameter list `{line}`: {sprop[0]}", signature=sig)
        ck.log(f"c2mir callers: {len(ccases)} C prototypes x (-ei, -eg) against gcc callees, {n_c2m_fail} failing: {time.time() - t2:.1f}s")
        ck.cov["c2mir_callers"] = {"prototypes": len(ccases), "engines": ["-ei", "-eg"], "failing": n_c2m_fail,
                                   "rule": "0..6 long doubles x 0..6 integers (and doubles) in front of small structs of every "
                                           "register class followed by more scalars; variadic tails; random mixes of "
                                           "ld/int/fp/struct parameters; the C caller is compiled by c2mir from REPO, the callee "
                                           "by gcc from the same prototype"}

    # ---- stage 4: judge
    dist = {"engines": {}, "arg_types": {}, "nargs": {}, "stack_words": {}, "variadic": 0, "results": {},
            "model_branches": {"reg": 0, "stack": 0, "blk_in_regs": 0, "blk_on_stack": 0, "ld": 0},
            "errors_expected": 0}
    distinct = set()
    n_tie_fail, n_prop_fail = 0, 0
    reported = {}
    first_tie = None
    # probe judgements of the prototypes the gcc oracle complained about (one batch)
    gfail = {}
    for (c, eng, jd, m), gcc in results:
        if gcc and jd["prop"]:
            gfail.setdefault(case_line(c), c)
    gprobe = {}
    if gfail:
        for (c2, e2, j2, m2) in rn.eval_cases(list(gfail.values()), ENGINES_ALL, tag="gp"):
            gprobe[(case_line(c2), e2)] = j2
    for (c, eng, jd, m), gcc in results:
        line = case_line(c)
        dist["engines"][eng + ("/gcc" if gcc else "")] = dist["engines"].get(eng + ("/gcc" if gcc else ""), 0) + 1
        if (line, gcc) not in distinct:
            if nontrivial(c, m):
                distinct.add((line, gcc))
            a = all_args(c)
            dist["nargs"][len(a)] = dist["nargs"].get(len(a), 0) + 1
            for tt in a:
                k = tparse(tt)[0]
                dist["arg_types"][k] = dist["arg_types"].get(k, 0) + 1
            sw = m["SYSV"]["stk"] // 8
            dist["stack_words"][min(sw, 40) // 4 * 4] = dist["stack_words"].get(min(sw, 40) // 4 * 4, 0) + 1
            dist["variadic"] += c["va"] is not None
            dist["results"][len(c["res"])] = dist["results"].get(len(c["res"]), 0) + 1
            if m["RES"]["sysv"] is None:
                dist["errors_expected"] += 1
            for tt, ls in zip(a, m["SYSV"]["locs"]):
                onstk = ls[0][0] == "s"
                if tt.startswith("blk"):
                    dist["model_branches"]["blk_on_stack" if onstk else "blk_in_regs"] += 1
                elif tt == "ld":
                    dist["model_branches"]["ld"] += 1
                else:
                    dist["model_branches"]["stack" if onstk else "reg"] += 1
        if jd["prop"]:
            n_prop_fail += 1
            # cheap pre-classification so that thousands of instances of one known defect are shrunk once
            if gcc:
                pj = gprobe.get((line, eng)) or rn.eval_cases([c], [eng])[0][2]
                pre = signature(c, eng, pj) if pj["prop"] else "C05:gcc-only-" + jd["prop"][0]["kind"]
            else:
                pre = signature(c, eng, jd)
            key = (pre, "ff" if eng == "i" else "gen", gcc)
            if key in reported or len(reported) >= 16:
                reported.setdefault(key, {"signature": pre, "count": 0, "first": line, "engine": eng})["count"] += 1
                continue
            if ck.is_known(pre) and (pre, key[1]) in emitted:
                # an instance of a listed finding already re-observed (and minimised) on its pinned witness
                reported[key] = {"signature": pre, "count": 1, "first": line, "engine": eng}
                continue
            sig = report(c, eng, jd, m, f"seed {ck.seed}", gcc=gcc)
            reported[key] = {"signature": sig, "count": 1, "first": line, "engine": eng}
        elif jd["tie"]:
            n_tie_fail += 1
            if first_tie is None:
                first_tie = {"prototype": line, "engine": eng, "diff": jd["tie"][:4], "observed": jd.get("obs")}
    if first_tie is not None:
        ck.broken_ties.append({"kind": "correspondence", "name": "code model (ffPlace/genPlace) vs probe",
                               "first_diff": first_tie, "count": n_tie_fail})
    if rn.n_skipped:
        ck.broken_ties.append({"kind": "harness-unstable", "name": "c05_harness keeps crashing or hanging",
                               "skipped_evaluations": rn.n_skipped})
    ck.cov["evaluations"] = rn.n_eval
    ck.cov["skipped_evaluations"] = rn.n_skipped
    ck.cov["distinct_nontrivial"] = len(distinct)
    ck.cov["rule"] = ("prototype = results (0-4), named args (0-24 over i8..u64,p,f,d,ld,blk0-4:size,rblk:size), optional "
                      "variadic tail (i64,d,ld,blk*); profiles mixed/int-heavy/fp-heavy/blocks; plus every type string of "
                      f"length <= {3 if thorough else 2} over a 13-letter alphabet after each of {len(EXH_PREFIXES)} register-file prefixes"
                      + (" and every string of length <= 4 without prefix" if thorough else "") +
                      "; each evaluated on interpreter FFI and generated code; distinct = distinct prototype lines; "
                      "non-trivial = uses the stack, a block, a narrow integer, several results, or is variadic")
    ck.cov["distribution"] = dist
    ck.cov["exhaustive"] = True
    ck.cov["exhaustive_scope"] = f"{len(exh)} prototypes (all strings over {EXH_ALPHA})"
    ck.cov["property_failures_by_signature"] = {f"{k[0]}|{k[1]}|{'gcc' if k[2] else 'probe'}": v for k, v in reported.items()}
    ck.cov["tie_failures"] = n_tie_fail
    for c in (rand_cases[:3] + exh[200:202] + gcc_cases[:2]):
        ck.sample(case_line(c))
    ck.assumptions += [
        "block kinds blk1..blk4 are used only with sizes for which a C aggregate of that class exists "
        "(blk1/blk2: 1..16 bytes, blk3/blk4: 9..16 bytes); larger sizes trip an assert in both paths and are "
        "silently mis-passed by the shipped NDEBUG build",
        "by-value blocks have alignment <= 8 (MIR block types carry no alignment)",
        "the machine code emitted by the trampoline/generator is observed through the probe, not modelled",
        "the variadic tail is modelled with the types MIR derives from the operands (i64, d, ld, blocks)",
        "result lists are legal (at most two results per register class); for a third f/d/ld result "
        "machinize_call raises no error but reads rax/rdx into a floating-point register (garbage, sometimes "
        "SIGSEGV at -O0) while the interpreter rejects a third f/d and accepts any number of ld - recorded as "
        "an observation, not judged",
    ]
    ck.finish()


main()
