"""C10 — textual MIR written by MIR_output reads back as the same module.

Proof gate: MirVerif.Props.C10 (round trip of the Lean transcription of writer and scanner).
Tie gate (T2, both directions), every run against the current tree:
  * instruction table and libc float codec of the model vs the tree / the C library;
  * random modules built through the public API from a description: writer model == MIR_output
    byte-wise; MIR_scan_string of that text, re-written, must equal it (property), the scanner model
    must agree; executable modules are interpreted before and after;
  * every conjunct of WF is probed on the real code at the excluded point;
  * irregular ("free-form") spellings of the same modules, and mutated texts, through both scanners;
  * corpus produced at run time: mir-tests/*.mir and `c2m -S` over c-tests.
"""
import glob, json, os, re, subprocess, sys, tempfile, time
from concurrent.futures import ThreadPoolExecutor
from vf import Check, VERIF, REPO, sh, SplitMix
import c10_gen as G

ck = Check("C10")
QUICK = ck.tier == "quick"
ENV = dict(os.environ, ASAN_OPTIONS="detect_leaks=0:abort_on_error=0", UBSAN_OPTIONS="print_stacktrace=0")

SUPPORT = ["MirVerif.Model.TextIOInsns", "MirVerif.Model.TextIOSyntax", "MirVerif.Model.TextIOFloat",
           "MirVerif.Model.TextIOPrint", "MirVerif.Model.TextIOLex", "MirVerif.Model.TextIOParse",
           "MirVerif.Model.TextIOElab", "MirVerif.Model.TextIOWF"]
ck.proof_gate(["MirVerif.Props.C10"], support_modules=SUPPORT, exes=["mirdrv_c10"])

FLAGS = ["-O1", "-g", "-DNDEBUG", "-fsanitize=address,undefined", "-fno-sanitize=alignment,shift,signed-integer-overflow,float-cast-overflow",
         "-fno-sanitize-recover=all", "-w"]
HARNESS = ck.cc("c10_harness", ["harness/c10_harness.c"], flags=FLAGS)
if HARNESS is None:
    ck.broken_ties.append({"kind": "harness-compile", "name": "c10_harness", "log": ck.last_cc_log[-1500:]})
    ck.finish()
DRV = os.path.join(VERIF, "lean", ".lake", "build", "bin", "mirdrv_c10")
if not os.path.exists(DRV):          # the proof gate already recorded why the build failed
    ck.finish()

# conjuncts of WF -> how a failure of the real code at that point is classified
FINDINGS = {"uint-ge-2^63", "str-no-nul", "ref-shadowed-by-reg", "bss-ge-2^63"}
# fixed in /repo (ed61a8c4, fae404b2, d0e0dd68, 50bfb807, c54177e4) and followed by the model: expr-item-output,
# stale-insn-code, label-before-endfunc, data-type-p, blk-size-ge-2^32 — their probes are now ordinary WF cases
BY_DESIGN = {"label-numbering"}      # labels are symbolic in the text: renumbering is alpha-conversion
DOMAIN = {"item-name", "var-name", "reg-name", "ref-name", "mem-names", "float-literal", "str-not-bytes",
          "label-zero", "label-position", "ref-undeclared", "add-item", "insn-code", "insn-nops",
          "reserved-reg-name", "repeated-reg", "shared-hard-reg", "func-not-finished", "blk-result",
          "vararg-no-args", "data-type-blk", "expr-func", "label-defined-twice", "unclassified",
          # a block parameter of >= 2^63 bytes: `t.u.i < 0` in the scanner; no object can have that size
          "blk-size-ge-2^63"}

stats = {"gen_cases": 0, "gen_miss": 0, "wf_ok": 0, "wf_ok_roundtrip": 0, "print_equal": 0, "scan_agree": 0,
         "scan_unmodelled": 0, "runs": 0, "runs_equal": 0, "probe": {}, "excluded_but_ok": {},
         "freeform": 0, "freeform_agree": 0, "mutants_text": 0, "mutants_text_agree": 0,
         "mutants_text_semantic": 0, "mutants_text_impl_crash": 0, "corpus_files": 0, "corpus_fixpoint": 0,
         "corpus_model_agree": 0, "float_fmt": 0, "float_parse": 0, "opcodes_seen": {}, "item_kinds": {},
         "operand_kinds": {}, "error_kinds": {}, "corpus_nonfinite_float": 0, "temp_counter_checked": 0,
         "temp_counter_nonzero": 0, "temp_counter_agree": 0, "api_lc_clash": 0, "reread_loaded_linked": 0,
         "lc_named_cases": 0, "reg_name_collisions": {}, "concat": 0, "concat_agree": 0}
distinct = set()


DEBUG_DIR = os.environ.get("C10_DEBUG_DIR")
_orig_violation = ck.violation
_dbg_n = [0]


_per_sig = {}
MAX_PER_SIGNATURE = 3      # a systematic defect fails hundreds of cases: keep the first few replays of each kind


def _violation(replay, what, signature=None, found_input=True):
    key = re.sub(r"\d+", "#", str(signature or what))[:80]
    _per_sig[key] = _per_sig.get(key, 0) + 1
    if _per_sig[key] > MAX_PER_SIGNATURE and not ck.is_known(signature or ""):
        bump(stats.setdefault("violations_not_written", {}), key)
        return False
    if DEBUG_DIR:
        _dbg_n[0] += 1
        with open(os.path.join(DEBUG_DIR, "v%d.json" % _dbg_n[0]), "w") as f:
            json.dump(dict(replay, what=what, signature=signature), f, indent=1, default=str)
    return _orig_violation(replay, what, signature=signature, found_input=found_input)


ck.violation = _violation


def bump(d, k, n=1):
    d[k] = d.get(k, 0) + n


# ------------------------------------------------------------------ running harness / driver
import resource

OUT_CAP = 512 << 20          # bytes a child may write to its stdout/stderr files (RLIMIT_FSIZE)


def _limits(fsize=OUT_CAP, cpu=1500):
    def f():
        resource.setrlimit(resource.RLIMIT_FSIZE, (fsize, fsize))
        resource.setrlimit(resource.RLIMIT_CPU, (cpu, cpu + 5))
        resource.setrlimit(resource.RLIMIT_CORE, (0, 0))
    return f


def run_proc(cmd, data, timeout=900):
    """run a child with its output going to capped temporary files (never an unbounded pipe), a CPU limit and a
    wall-clock timeout; returns (rc, stdout, stderr)"""
    tmpdir = os.path.join(VERIF, ".cache")
    with tempfile.TemporaryFile(dir=tmpdir) as fo, tempfile.TemporaryFile(dir=tmpdir) as fe:
        try:
            p = subprocess.run(cmd, input=data, stdout=fo, stderr=fe, env=ENV, timeout=timeout, preexec_fn=_limits())
            rc = p.returncode
        except subprocess.TimeoutExpired:
            rc = -9
        fo.seek(0)
        fe.seek(0)
        return rc, fo.read(), fe.read(1 << 20)


def parse_framed(out):
    """output of harness/driver -> {case id: {field: value}}; blobs are length prefixed"""
    res, cur, i, n = {}, None, 0, len(out)
    while i < n:
        j = out.find(b"\n", i)
        if j < 0:
            j = n
        line = out[i:j]
        i = j + 1
        if line.startswith(b"case "):
            cur = {"lines": []}
            res[line[5:].decode()] = cur
            continue
        if cur is None:
            continue
        m = re.match(rb"^(text1|text2|text3|text|norm|ok) (\d+)$", line)
        if m:
            ln = int(m.group(2))
            cur[m.group(1).decode()] = out[i:i + ln]
            i += ln + 1
            continue
        s = line.decode("latin1")
        if s == "endcase" or s == "":
            continue
        cur["lines"].append(s)
        w = s.split(" ", 2)
        if w[0] in ("build", "scan1", "scan2", "wf", "err", "link", "crash", "baddesc", "lasttemp", "lasttemp3"):
            cur[w[0]] = s[len(w[0]) + 1:]
        elif w[0] == "run":
            cur.setdefault("runs", []).append(s[4:])
    return res


def batches(items, k):
    k = max(1, k)
    n = (len(items) + k - 1) // k
    return [items[i * n:(i + 1) * n] for i in range(k) if items[i * n:(i + 1) * n]]


def par(fn, chunks):
    with ThreadPoolExecutor(max_workers=16) as ex:
        out = {}
        for r in ex.map(fn, chunks):
            out.update(r)
        return out


def harness_build(cases):
    def one(chunk):
        data = "".join("case %s\n%s\nend\n" % (cid, "\n".join(lines)) for (cid, lines) in chunk).encode("latin1")
        rc, out, err = run_proc([HARNESS, "build"], data)
        return parse_framed(out)
    return par(one, batches(cases, 16))


def model_print(cases):
    def one(chunk):
        data = "".join("case %s\n%s\nend\n" % (cid, "\n".join(lines)) for (cid, lines) in chunk).encode("latin1")
        rc, out, err = run_proc([DRV, "print"], data)
        return parse_framed(out)
    return par(one, batches(cases, 16))


def frame_texts(chunk):
    return b"".join(b"case %s %d\n" % (cid.encode(), len(t)) + t + b"\n" for (cid, t) in chunk)


def harness_scan(texts):
    return par(lambda ch: parse_framed(run_proc([HARNESS, "scan"], frame_texts(ch))[1]), batches(texts, 16))


def model_scan(texts):
    return par(lambda ch: parse_framed(run_proc([DRV, "scan"], frame_texts(ch))[1]), batches(texts, 16))


# ------------------------------------------------------------------ 1. instruction table, float codec
def tie_table():
    rc, out, _ = run_proc([HARNESS, "table"], b"")
    rc2, out2, _ = run_proc([DRV, "table"], b"")
    impl = [" ".join(l.split()[:6]) if l[:1].isdigit() else l for l in out.decode().strip().split("\n")]
    model = out2.decode().strip().split("\n")
    if impl != model:
        diff = [(a, b) for a, b in zip(impl, model) if a != b][:5]
        ck.broken_ties.append({"kind": "correspondence", "name": "insn-table", "first_diff": diff,
                               "sizes": [len(impl), len(model)]})
    ck.stage("table", rows=len(impl), equal=impl == model)
    return G.Table(out.decode())


def tie_float(rng):
    n = 300 if QUICK else 4000
    g = G.Gen(rng, None)
    lines, meta = [], []
    for kind in ("f", "d", "ld"):
        for _ in range(n):
            b = g.finite_bits(kind)
            width = {"f": 8, "d": 16, "ld": 20}[kind]
            lines.append("fmt %s %0*x" % (kind, width, b))
            meta.append((kind, b))
    rc, out, _ = run_proc([HARNESS, "float"], "\n".join(lines).encode() + b"\n")
    rc2, out2, _ = run_proc([DRV, "float"], "\n".join(lines).encode() + b"\n")
    impl, model = out.decode().split("\n"), out2.decode().split("\n")
    bad = [(lines[i], impl[i], model[i]) for i in range(len(lines)) if impl[i] != model[i]]
    stats["float_fmt"] = len(lines)
    # parse: the printed forms and independent random decimal spellings
    plines, expect = [], []
    for i, (kind, b) in enumerate(meta):
        plines.append("parse %s %s" % (kind, impl[i]))
        expect.append((kind, b))
    for _ in range(n):
        kind = rng.choice(["f", "d", "ld"])
        digs = "".join(rng.choice("0123456789") for _ in range(1 + rng.below(25)))
        frac = "".join(rng.choice("0123456789") for _ in range(rng.below(25)))
        lim = {"f": 50, "d": 330, "ld": 4960}[kind]
        ex = rng.below(2 * lim) - lim
        s = ("-" if rng.chance(1, 3) else "") + digs + ("." + frac if frac or rng.chance(1, 2) else "") + \
            ("e%+d" % ex if rng.chance(3, 4) else "")
        plines.append("parse %s %s" % (kind, s))
        expect.append(None)
    rc, out, _ = run_proc([HARNESS, "float"], "\n".join(plines).encode() + b"\n")
    rc2, out2, _ = run_proc([DRV, "float"], "\n".join(plines).encode() + b"\n")
    impl, model = out.decode().split("\n"), out2.decode().split("\n")
    bad += [(plines[i], impl[i], model[i]) for i in range(len(plines)) if impl[i] != model[i]]
    # the libc assumption itself: strtoX (printf (b)) == b for finite b
    libc_bad = [(plines[i], impl[i]) for i in range(len(plines))
                if expect[i] is not None and int(impl[i], 16) != expect[i][1]]
    stats["float_parse"] = len(plines)
    if bad:
        ck.broken_ties.append({"kind": "correspondence", "name": "libc-float-codec-model", "first_diff": bad[:5],
                               "count": len(bad)})
    if libc_bad:
        ck.broken_ties.append({"kind": "assumption", "name": "strtod(printf %.*e) == id on finite values",
                               "first_diff": libc_bad[:5]})
    ck.stage("float", fmt=stats["float_fmt"], parse=stats["float_parse"], model_diffs=len(bad),
             libc_roundtrip_failures=len(libc_bad))


# ------------------------------------------------------------------ 2. generated modules
def has_kind(mods, kind):
    return any(it["kind"] == kind for m in mods for it in m["items"])


def census(mods):
    for m in mods:
        for it in m["items"]:
            k = it["kind"]
            if k == "data":
                k = "data:" + it["ty"]
            bump(stats["item_kinds"], k)
            if it["kind"] in ("proto", "func"):
                for (t, _, _) in it["args"]:
                    if t in G.BLK_TYPES:
                        bump(stats["operand_kinds"], "param:" + t)
                if it["vararg"]:
                    bump(stats["operand_kinds"], "vararg")
                if len(it["res"]) > 1:
                    bump(stats["operand_kinds"], "multi-result")
            if it["kind"] == "func":
                if it["globals"]:
                    bump(stats["operand_kinds"], "hard-reg-global", len(it["globals"]))
                for ins in it["body"]:
                    if ins[0] == "label":
                        continue
                    bump(stats["opcodes_seen"], ins[0])
                    for o in ins[1]:
                        k = o[0]
                        if k == "m":
                            k = "mem" + ("+base" if o[3] else "") + ("+index" if o[4] else "") + \
                                ("+alias" if o[6] else "") + ("+nonalias" if o[7] else "")
                        bump(stats["operand_kinds"], k)


def temp_item_num(name):
    """process_reserved_name: the number of a reserved temporary item name `.lc<digits>`"""
    m = re.fullmatch(rb"\.lc(\d*)", name)
    if not m:
        return None
    return min(int(m.group(1) or b"0"), 2 ** 64 - 1) % 2 ** 32


def temp_counter_defects(canon, lasttemp):
    """the requirement on module->last_temp_item_num, stated on the canonical text of the scanned modules: it is
    at least the number of every labelled `.lcN` item of its module, so that the `.lc<counter+1>` items the loader
    makes for string / floating immediates are new names.  Returns [(module index, item name, counter)]."""
    try:
        counters = [int(x) for x in lasttemp.split()]
    except ValueError:
        return [(-1, "?", lasttemp)]
    bad, mi, inside = [], -1, False
    for ln in canon.split(b"\n"):
        m = re.match(rb"^([^\s:#]+):", ln)
        rest = ln[m.end():].strip() if m else ln.strip()
        if not inside:
            if m and rest.startswith(b"module"):
                mi, inside = mi + 1, True
            continue
        if rest.startswith(b"endmodule"):
            inside = False
            continue
        if m:
            k = temp_item_num(m.group(1))
            if k is not None and (mi >= len(counters) or counters[mi] < k):
                bad.append((mi, m.group(1).decode("latin1"), counters[mi] if mi < len(counters) else None))
    return bad


def check_temp_counter(tag, replay, canon, h_last, m_last, text):
    """(1) requirement, (2) model of the scanner's bookkeeping vs the scanner"""
    if h_last is None:
        return
    stats["temp_counter_checked"] += 1
    if any(c != "0" for c in h_last.split()):
        stats["temp_counter_nonzero"] += 1
    bad = temp_counter_defects(canon, h_last)
    if bad:
        ck.violation(dict(replay, impl_output="last_temp_item_num per module: " + h_last,
                          model_output="last_temp_item_num per module: " + str(m_last),
                          spec_verdict="module %d has item %s but its counter is %s: the loader will name the item of the "
                                       "next string/floating immediate .lc%s" % (bad[0] + (int(bad[0][2] or 0) + 1,)),
                          text=text.decode("latin1")[:3000]),
                     what="after MIR_scan_string the module's temp-item counter is below a `.lcN` item of the module "
                          "(%s text): loading it can fail with `Repeated item declaration`" % tag,
                     signature="C10:temp-item-counter-too-small")
    elif m_last is not None and m_last != h_last:
        ck.broken_ties.append({"kind": "correspondence", "name": "last_temp_item_num model vs MIR_scan_string (%s)" % tag,
                               "impl": h_last, "model": m_last, "text": text.decode("latin1")[:3000]})
    elif m_last is not None:
        stats["temp_counter_agree"] += 1


def run_parts(r):
    return r.split(" ", 1)[1].split(" | ")


def api_lc_clash(impl, t1):
    """the context built through the API keeps last_temp_item_num = 0 whatever the item names are (only the readers
    bump it), so a module built with `.lcN` item names may clash with the loader's own names: a misuse of reserved
    names through the API, not a text round-trip matter.  The re-read contexts must still load."""
    link = impl.get("link", "")
    parts = link.split(" | ")
    return (len(parts) == 3 and parts[1] == "ok" and parts[2] == "ok" and
            parts[0].startswith("Repeated item declaration .lc") and
            re.search(rb"^\.lc\d*:", t1, re.M) is not None)


def evaluate_case(cid, lines, mods, impl, mod, mscan, probe):
    """classify one generated case.  Returns nothing; reports through ck / stats."""
    replay = {"input": {"kind": "description", "lines": lines}, "probe": probe,
              "how_to_rerun": "cd /verif && ./check C10 --replay <this file>"}
    stats["gen_cases"] += 1
    build = impl.get("build", "")
    if mod is None or "baddesc" in (mod or {}):
        ck.broken_ties.append({"kind": "correspondence", "name": "driver-rejects-description", "case": cid})
        return
    wf = mod.get("wf", "?")
    expr = has_kind(mods, "expr")
    if not build.startswith("ok"):
        if "crash" in impl and not build:
            ck.violation(dict(replay, impl_output=impl.get("lines")), what="library crashed while the module was built through the API",
                         signature="C10:api-build-crash")
            return
        stats["gen_miss"] += 1
        bump(stats["error_kinds"], "build:" + build[:60])
        return
    t1 = impl.get("text1")
    mt = mod.get("text")
    if t1 is None:
        sig = "C10:expr-item-output" if expr else "C10:writer-crash"
        ck.violation(dict(replay, impl_output=impl.get("lines"), model_output=mt.decode("latin1")),
                     what="MIR_output does not terminate normally on this module" +
                          (" (expr item: the writer falls through into the function printer, mir.c:3136-3156)" if expr else ""),
                     signature=sig)
        bump(stats["probe"], "expr-item-output" if expr else "writer-crash")
        return
    if t1 != mt:
        if expr:
            ck.violation(dict(replay, impl_output=t1.decode("latin1"), model_output=mt.decode("latin1")),
                         what="MIR_output of an expr item runs on into the function printer (mir.c:3136-3156)",
                         signature="C10:expr-item-output")
            bump(stats["probe"], "expr-item-output")
            return
        # the writer produced other bytes than its model.  Does the written text still denote the module?
        # Judge with the scanner model: read the real text, write it with the writer model, compare with the
        # model text of the original module.
        denotes = mscan is not None and "ok" in mscan and mscan["ok"] == mod.get("norm", mt)
        if not denotes and wf == "ok":      # (outside WF the scanner model cannot act as a judge)
            ck.violation(dict(replay, impl_output=t1.decode("latin1"), model_output=mt.decode("latin1"),
                              first_diff=first_diff(t1, mt),
                              reread=(mscan or {}).get("err", (mscan or {}).get("ok", b"").decode("latin1") if mscan else None),
                              spec_verdict="the text written by MIR_output does not read back as the module that was built"),
                         what="MIR_output writes a text that does not denote the module built through the API (differs from "
                              "the writer model at byte %d and reads back as another module)" % first_diff(t1, mt)["at"],
                         signature="C10:writer-changes-module")
            return
        ck.broken_ties.append({"kind": "correspondence", "name": "writer-model-vs-MIR_output", "case": cid,
                               "first_diff": first_diff(t1, mt), "description": lines[:60],
                               "note": "the text still reads back as the same module"})
        return
    stats["print_equal"] += 1
    distinct.add(hash(mt))
    scan1 = impl.get("scan1", "")
    t2, t3 = impl.get("text2"), impl.get("text3")
    runs = impl.get("runs", [])
    api_clash = api_lc_clash(impl, t1)
    if re.search(rb"^\.lc\d*:", t1, re.M):
        stats["lc_named_cases"] += 1
    if api_clash:
        stats["api_lc_clash"] += 1
    # results in the API-built context, the context read from text1 and the context read from text2
    run_diff = [r for r in runs if len(set(run_parts(r)[1 if api_clash else 0:])) != 1 or "nolink" in run_parts(r)[1:]]
    stats["runs"] += len(runs)
    stats["runs_equal"] += len(runs) - len(run_diff)
    if runs and scan1.startswith("ok") and impl.get("link", "ok | ok | ok").split(" | ")[1:] == ["ok", "ok"]:
        stats["reread_loaded_linked"] += 1
    crashed = "crash" in impl
    p_ok = scan1.startswith("ok") and t2 == t1 and not run_diff and not crashed and ("link" not in impl or api_clash)
    if scan1.startswith("ok") and t2 is not None:
        check_temp_counter("written", replay, t2, impl.get("lasttemp"), (mscan or {}).get("lasttemp"), t1)
        if t3 is not None and impl.get("lasttemp3") != impl.get("lasttemp"):
            ck.violation(dict(replay, impl_output="%s then %s" % (impl.get("lasttemp"), impl.get("lasttemp3")), text1=t1.decode("latin1")),
                         what="temp-item counters differ between the first and the second reading of the same text",
                         signature="C10:temp-item-counter-unstable")
    what_fails = ("scanner crashed: " + impl.get("crash", "") if crashed and not scan1 else
                  "scan of the written text is rejected: " + scan1 if not scan1.startswith("ok") else
                  "re-written text differs from the written text" if t2 != t1 else
                  "execution differs after the round trip: " + "; ".join(run_diff) if run_diff else
                  "link/interp setup failed: " + impl.get("link", "") + impl.get("crash", ""))
    # --- scanner model vs real scanner on the written text
    if mscan is not None:
        if "err" in mscan and mscan["err"].startswith("unmodelled"):
            stats["scan_unmodelled"] += 1
        else:
            m_ok = "ok" in mscan
            i_ok = scan1.startswith("ok")
            agree = (m_ok == i_ok) and (not m_ok or mscan["ok"] == t2)
            if not agree and not (m_ok and not i_ok and scan1.startswith("err api")):
                ck.broken_ties.append({"kind": "correspondence", "name": "scanner-model-vs-MIR_scan_string",
                                       "case": cid, "impl": scan1, "model": mscan.get("err", "ok"),
                                       "first_diff": first_diff(t2 or b"", mscan.get("ok", b"")),
                                       "text": t1.decode("latin1")[:3000]})
            else:
                stats["scan_agree"] += 1
            if not i_ok:
                bump(stats["error_kinds"], scan1[:70])
    # --- the property
    if wf == "ok":
        stats["wf_ok"] += 1
        if p_ok:
            stats["wf_ok_roundtrip"] += 1
            if t3 is not None and t3 != t2:
                ck.violation(dict(replay, impl_output=t3.decode("latin1")), what="third generation text differs",
                             signature="C10:unstable-fixpoint")
        else:
            ck.violation(dict(replay, text1=t1.decode("latin1"), text2=(t2 or b"").decode("latin1"),
                              impl_output=impl.get("lines"), spec_verdict="WF holds: round trip required"),
                         what="well-formed module does not survive the text round trip: " + what_fails,
                         signature="C10:unexpected:" + re.sub(r"[^a-z]+", "-", what_fails[:40].lower()))
        return
    bump(stats["probe"], wf)
    if wf in BY_DESIGN:
        if not (scan1.startswith("ok") and t3 == t2 and not run_diff):
            ck.violation(dict(replay, text1=t1.decode("latin1"), impl_output=impl.get("lines")),
                         what="labels not numbered in textual order: re-read module is not a fixpoint / behaves differently: " + what_fails,
                         signature="C10:label-renumbering-unstable")
        return
    if wf in FINDINGS:
        if p_ok:
            bump(stats["excluded_but_ok"], wf)
        else:
            ck.violation(dict(replay, text1=t1.decode("latin1"), text2=(t2 or b"").decode("latin1"),
                              impl_output=impl.get("lines"), spec_verdict="excluded by WF conjunct " + wf),
                         what=FINDING_TEXT.get(wf, wf) + " — " + what_fails, signature="C10:" + wf)
        return
    # outside the property's domain (identifiers that are not names, non-finite floats, …): only the tie counts
    if p_ok:
        bump(stats["excluded_but_ok"], wf)


FINDING_TEXT = {
    "uint-ge-2^63": "uint immediate >= 2^63 is re-read as int and printed negative (mir.c:2952, 6168)",
    "str-no-nul": "string operand not ending in NUL gains \\000 when re-read (mir.c:6087-6088)",
    "blk-size-ge-2^32": "block parameter size >= 2^32 is written but rejected by the scanner (mir.c:6479-6481)",
    "data-type-p": "data item of element type p is written but not scannable (mir.c:6776-6777)",
    "label-before-endfunc": "function whose last instruction is a label is written but `endfunc should have no labels` (mir.c:6347-6350)",
    "stale-insn-code": "ref/expr line after a function ending in a branch: the scanner's stale insn_code takes the name for a label (mir.c:6432-6439)",
    "ref-shadowed-by-reg": "item reference with the name of a register of the function is re-read as the register (mir.c:6440-6444)",
    "bss-ge-2^63": "bss length >= 2^63 is written but rejected by the scanner (mir.c:6606)",
    "expr-item-output": "MIR_output_item on an expr item falls through into the function printer (mir.c:3136-3156)",
}


def first_diff(a, b):
    n = min(len(a), len(b))
    i = next((k for k in range(n) if a[k] != b[k]), n)
    return {"at": i, "impl": a[max(0, i - 40):i + 60].decode("latin1"), "model": b[max(0, i - 40):i + 60].decode("latin1")}


PROBES = ["uint-ge-2^63", "str-no-nul", "blk-size-ge-2^32", "data-type-p", "label-before-endfunc",
          "stale-insn-code", "ref-shadowed-by-reg", "bss-ge-2^63", "expr-item", "float-literal",
          "label-numbering", "bad-name", "strdata-no-nul", "label-position", "ref-undeclared", "blk-size-ge-2^63"]


def gen_cases(rng, table):
    """-> list of (cid, lines, mods, probe)"""
    cases = []
    n_plain = 260 if QUICK else 6000
    n_exec = 60 if QUICK else 1200
    n_probe = 6 if QUICK else 60
    def add(mods, probe, runs=(), scramble=False):
        nl = G.renumber(mods, rng, scramble)
        if probe is None:
            # registers spelled like the labels / items / prototypes / types / instructions / keywords of the text
            for (fam, k) in G.collide(mods, rng).items():
                bump(stats["reg_name_collisions"], fam, k)
        lines = G.describe(mods, nl, runs)
        cases.append(("g%d" % len(cases), lines, mods, probe))
    for i in range(n_plain):
        g = G.Gen(rng, table)
        mods = [g.module() for _ in range(1 if rng.chance(4, 5) else 2)]
        add(mods, None)
    for i in range(n_exec):
        g = G.Gen(rng, table)
        m = g.exec_module()
        add([m], None, runs=m["runs"])
    for p in PROBES:
        for i in range(n_probe):
            if p == "ref-shadowed-by-reg":
                g = G.Gen(rng, table, probe=p)
                m = g.exec_module()
                add([m], p, runs=m["runs"])
            elif p == "label-numbering":
                g = G.Gen(rng, table)
                mods = [g.module(nitems=6)]
                add(mods, p, scramble=True)
            elif p == "bad-name":
                g = G.Gen(rng, table)
                mods = [g.module(nitems=4)]
                bad = rng.choice(["a-b", "1x", "a b", "x@", "", "a:b", "\xe9t\xe9", "a\"b", "a,b"])
                tgt = rng.below(6)
                if tgt == 0:
                    mods[0]["name"] = bad
                elif tgt == 1:
                    mods[0]["items"].append(dict(kind="bss", name=bad, len=4))
                elif tgt == 2:
                    mods[0]["items"].append(dict(kind="import", name=bad))
                else:
                    # a register, a parameter or an alias with a spelling that is not a name
                    if bad == "":
                        bad = "a b"
                    f = dict(kind="func", name=g.name(False), res=["i64"], args=[("i64", "a", 0)], vararg=False,
                             locals=[("i64", "x")], globals=[], body=[], labels=[], regs=[])
                    if tgt == 3:
                        f["locals"] = [("i64", bad)]
                        f["body"] = [("mov", [("r", bad), ("i", 1)]), ("ret", [("r", bad)])]
                    elif tgt == 4:
                        f["args"] = [("i64", bad, 0)]
                        f["body"] = [("ret", [("r", bad)])]
                    else:
                        f["body"] = [("mov", [("r", "x"), ("m", "i32", 0, "a", None, 1, bad, None)]), ("ret", [("r", "x")])]
                    mods[0]["items"].append(f)
                add(mods, p)
            elif p == "label-position":
                g = G.Gen(rng, table, probe=p)
                mods = [g.module(nitems=2)]
                g.probe_label_position(mods[0])
                add(mods, p)
            elif p == "ref-undeclared":
                g = G.Gen(rng, table, probe=p)
                mods = [g.module(nitems=2)]
                g.probe_ref_undeclared(mods[0])
                add(mods, p)
            else:
                for attempt in range(30):
                    g = G.Gen(rng, table, probe=p)
                    mods = [g.module()]
                    if g.probe_done or p == "stale-insn-code":
                        break
                add(mods, p)
    return cases


def run_assert_flavour(cases, impl):
    """thorough only: the same descriptions through a harness built with assertions enabled (the CMake build
    ships NDEBUG): texts and verdicts must not depend on the flavour, and no mir_assert may fire on writer
    output of well-formed modules"""
    dbg_flags = [f for f in FLAGS if f != "-DNDEBUG"]
    exe = ck.cc("c10_harness_dbg", ["harness/c10_harness.c"], flags=dbg_flags)
    if exe is None:
        ck.broken_ties.append({"kind": "harness-compile", "name": "c10_harness_dbg", "log": ck.last_cc_log[-1500:]})
        return
    desc = [(cid, lines) for (cid, lines, mods, probe) in cases if probe is None and not has_kind(mods, "expr")]
    def one(chunk):
        data = "".join("case %s\n%s\nend\n" % (cid, "\n".join(lines)) for (cid, lines) in chunk).encode("latin1")
        rc, out, err = run_proc([exe, "build"], data)
        return parse_framed(out)
    dbg = par(one, batches(desc, 16))
    diff = 0
    for (cid, lines) in desc:
        a, b = impl.get(cid, {}), dbg.get(cid, {})
        if (a.get("text1"), a.get("scan1"), a.get("text2")) != (b.get("text1"), b.get("scan1"), b.get("text2")):
            diff += 1
            if diff <= 3:
                ck.violation({"input": {"kind": "description", "lines": lines}, "impl_output": b.get("lines"),
                              "model_output": a.get("lines")},
                             what="assert-enabled build of the library behaves differently from the NDEBUG build on a "
                                  "well-formed module: " + str(b.get("crash", b.get("scan1"))),
                             signature="C10:assert-flavour")
    ck.stage("assert-flavour", cases=len(desc), differ=diff)


def run_generated(rng, table):
    cases = gen_cases(rng, table)
    for (_, _, mods, _) in cases:
        census(mods)
    desc = [(cid, lines) for (cid, lines, _, _) in cases]
    impl = harness_build(desc)
    mod = model_print(desc)
    texts = [(cid, impl[cid]["text1"]) for (cid, _) in desc
             if cid in impl and "text1" in impl[cid] and b"\0" not in impl[cid]["text1"]]
    mscan = model_scan(texts)
    for (cid, lines, mods, probe) in cases:
        evaluate_case(cid, lines, mods, impl.get(cid, {}), mod.get(cid), mscan.get(cid), probe)
    for (cid, lines, mods, probe) in cases[:3] + cases[-2:]:
        ck.sample({"description": lines[:25], "wf": (mod.get(cid) or {}).get("wf"),
                   "text1": (impl.get(cid, {}).get("text1") or b"").decode("latin1")[:600]})
    ck.stage("generated", cases=len(cases), wf_ok=stats["wf_ok"], roundtrip=stats["wf_ok_roundtrip"],
             gen_miss=stats["gen_miss"], probes=stats["probe"], lc_named_cases=stats["lc_named_cases"],
             reread_loaded_linked_run=stats["reread_loaded_linked"], api_lc_clash=stats["api_lc_clash"],
             temp_counter_nonzero=stats["temp_counter_nonzero"], reg_name_collisions=stats["reg_name_collisions"])
    return cases, impl


# ------------------------------------------------------------------ 3. free-form spellings and mutated texts
def compare_scans(tag, texts, count_key, agree_key):
    hs = harness_scan(texts)
    ms = model_scan(texts)
    for (cid, t) in texts:
        stats[count_key] += 1
        h, m = hs.get(cid, {}), ms.get(cid, {})
        if "crash" in h:
            if tag == "mutant":
                stats["mutants_text_impl_crash"] += 1
                bump(stats["error_kinds"], "impl crash on invalid text, model: " + m.get("err", "ok")[:50])
                continue
            ck.violation({"input": {"kind": "text", "text": t.decode("latin1")}, "impl_output": h.get("lines"),
                          "model_output": m.get("err", "ok")}, what="MIR_scan_string crashes on a %s text" % tag,
                         signature="C10:scanner-crash")
            continue
        if m.get("err", "").startswith("unmodelled"):
            stats["scan_unmodelled"] += 1
            continue
        h_ok, m_ok = "ok" in h, "ok" in m
        if h_ok and m_ok and h["ok"] == m["ok"]:
            stats[agree_key] += 1
            check_temp_counter(tag, {"input": {"kind": "text", "text": t.decode("latin1")}}, h["ok"], h.get("lasttemp"),
                               m.get("lasttemp"), t)
        elif (not h_ok) and (not m_ok):
            stats[agree_key] += 1
            bump(stats["error_kinds"], h.get("err", "")[:60])
        elif m_ok and not h_ok and h.get("err", "").startswith("api"):
            stats["mutants_text_semantic"] += 1       # API-level validation: outside the model by design
        else:
            ck.broken_ties.append({"kind": "correspondence", "name": "scanner-model-vs-MIR_scan_string (%s)" % tag,
                                   "impl": h.get("err", "ok"), "model": m.get("err", "ok"),
                                   "first_diff": first_diff(h.get("ok", b""), m.get("ok", b"")),
                                   "text": t.decode("latin1")[:3000]})
    return hs, ms


def run_freeform(rng, cases, impl):
    texts, want = [], {}
    for (cid, lines, mods, probe) in cases:
        if probe is not None or has_kind(mods, "expr"):
            continue
        im = impl.get(cid, {})
        if "text1" not in im or not im.get("scan1", "").startswith("ok"):
            continue
        for v in range(2 if QUICK else 4):
            t = G.FreeForm(rng).render(mods).encode("latin1")
            texts.append(("%s.%d" % (cid, v), t))
            want["%s.%d" % (cid, v)] = im["text2"]
    hs, ms = compare_scans("free-form", texts, "freeform", "freeform_agree")
    # a free-form spelling of a module must read back as the module: same canonical text as the writer's
    differ = 0
    for (cid, t) in texts:
        h = hs.get(cid, {})
        if "ok" in h and h["ok"] != want[cid]:
            differ += 1
            if differ <= 3:
                ck.broken_ties.append({"kind": "generator", "name": "free-form spelling reads back differently",
                                       "first_diff": first_diff(h["ok"], want[cid]), "text": t.decode("latin1")[:2000]})
        elif "ok" not in h:
            differ += 1
            if differ <= 3:
                ck.broken_ties.append({"kind": "generator", "name": "free-form spelling rejected", "impl": h.get("err"),
                                       "text": t.decode("latin1")[:2000]})
    ck.stage("freeform", texts=len(texts), agree=stats["freeform_agree"], differ=differ)
    if texts:
        ck.sample({"free_form_text": texts[0][1].decode("latin1")[:700]})


def run_concat(rng, cases, impl):
    """several written texts in ONE MIR_scan_string call: the texts of separate contexts put one after the other (each
    numbers its labels from L1, and generated names repeat too).  Labels, registers and items are scoped by
    function / module, so the whole must be read exactly when every part is, as the same modules in the same order."""
    pool = []
    for (cid, lines, mods, probe) in cases:
        im = impl.get(cid, {})
        if probe is None and not has_kind(mods, "expr") and im.get("scan1", "").startswith("ok") and \
                im.get("text1") is not None and im.get("text2") == im["text1"]:
            pool.append((cid, im["text1"], re.search(rb"^L\d+:", im["text1"], re.M) is not None))
    labelled = [p for p in pool if p[2]]
    texts, parts = [], {}
    if pool:
        for i in range(60 if QUICK else 1500):
            k = 2 + (1 if rng.chance(1, 4) else 0)
            pick = [rng.choice(labelled if labelled and (j < 2 and rng.chance(3, 4)) else pool) for j in range(k)]
            if rng.chance(1, 6):
                pick[1] = pick[0]                    # the same text twice
            cid = "cat%d" % i
            texts.append((cid, b"".join(p[1] for p in pick)))
            parts[cid] = [p[0] for p in pick]
    hs, ms = compare_scans("concatenation", texts, "concat", "concat_agree")
    shared = 0
    for (cid, t) in texts:
        h, m = hs.get(cid, {}), ms.get(cid, {})
        defs = re.findall(rb"^(L\d+):", t, re.M)
        if len(defs) != len(set(defs)):
            shared += 1
        if "ok" not in h and "ok" in m and "crash" not in h:
            ck.violation({"input": {"kind": "text", "text": t.decode("latin1")}, "impl_output": h.get("err"),
                          "model_output": "accepted", "parts": parts[cid],
                          "spec_verdict": "each part is a text written by MIR_output that MIR_scan_string reads on its own; "
                                          "names are scoped by module, so the parts one after the other must be read too"},
                         what="texts that are read one by one are rejected when given in one MIR_scan_string call: " +
                              h.get("err", "?")[:120], signature="C10:concatenated-texts-rejected")
    stats["concat_shared_label_names"] = shared
    ck.stage("concatenation", texts=len(texts), agree=stats["concat_agree"], with_equal_label_names_in_two_modules=shared)


def mutate(rng, t):
    b = bytearray(t)
    for _ in range(1 + rng.below(3)):
        if not b:
            break
        k = rng.below(7)
        i = rng.below(len(b))
        if k == 0:
            del b[i]
        elif k == 1:
            b.insert(i, b[i])
        elif k == 2:
            b[i] = rng.choice(list(b",:;()\"#\n\t 0x9aL._-+"))
        elif k == 3:
            b.insert(i, rng.choice(list(b",:;()\"#\n 1eEfl.\\")))
        elif k == 4:
            ls = bytes(b).split(b"\n")
            if len(ls) > 2:
                x, y = rng.below(len(ls) - 1), rng.below(len(ls) - 1)
                ls[x], ls[y] = ls[y], ls[x]
                b = bytearray(b"\n".join(ls))
        elif k == 5:
            ls = bytes(b).split(b"\n")
            if len(ls) > 2:
                del ls[rng.below(len(ls) - 1)]
                b = bytearray(b"\n".join(ls))
        else:
            j = rng.below(len(b))
            del b[min(i, j):max(i, j)]
    return bytes(b).replace(b"\0", b"0")


def run_text_mutants(rng, cases, impl):
    texts = []
    per = 2 if QUICK else 6
    for (cid, lines, mods, probe) in cases:
        im = impl.get(cid, {})
        if probe is None and "text1" in im and not has_kind(mods, "expr"):
            for v in range(per):
                texts.append(("%s.m%d" % (cid, v), mutate(rng, im["text1"])))
    compare_scans("mutant", texts, "mutants_text", "mutants_text_agree")
    ck.stage("text-mutants", texts=len(texts), agree=stats["mutants_text_agree"],
             semantic_only=stats["mutants_text_semantic"], impl_crash=stats["mutants_text_impl_crash"])


# ------------------------------------------------------------------ 4. corpus: mir-tests and c2m -S
def build_c2m():
    srcs = [os.path.join(REPO, p) for p in ("c2mir/c2mir-driver.c", "c2mir/c2mir.c", "mir.c", "mir-gen.c")]
    return ck.cc("c10_c2m", srcs, flags=["-O1", "-DNDEBUG", "-w"])


def corpus_texts(rng):
    texts = []
    for f in sorted(glob.glob(os.path.join(REPO, "mir-tests", "*.mir"))):
        texts.append(("mir-tests/" + os.path.basename(f), open(f, "rb").read()))
    c2m = build_c2m()
    if c2m is None:
        ck.broken_ties.append({"kind": "harness-compile", "name": "c2m", "log": ck.last_cc_log[-1500:]})
        return texts
    cfiles = []
    for d in ("new", "lacc", "andrewchambers_c", "gcc", "mir", "havoc"):
        cfiles += sorted(glob.glob(os.path.join(REPO, "c-tests", d, "*.c")))
    if QUICK:
        # always the files known to exercise rare vocabulary, plus a seeded sample
        must = [f for f in cfiles if os.path.basename(f) in ("issue355.c", "jcall.c", "propcond1.c", "setjmp.c")
                or "propcond" in f or "blk" in f]
        rest = [f for f in cfiles if f not in must]
        pick = set(rng.below(len(rest)) for _ in range(70))
        cfiles = must[:12] + [rest[i] for i in sorted(pick)]
    tmp = tempfile.mkdtemp(prefix="c10_", dir=os.path.join(VERIF, ".cache"))
    def one(f):
        out = os.path.join(tmp, "%x.mir" % (hash(f) & 0xFFFFFFFF))
        try:
            p = subprocess.run([c2m, "-S", os.path.basename(f), "-o", out], cwd=os.path.dirname(f),
                               stdout=subprocess.DEVNULL, stderr=subprocess.DEVNULL, timeout=60,
                               preexec_fn=_limits(fsize=64 << 20, cpu=60))
            if p.returncode == 0 and os.path.exists(out):
                d = open(out, "rb").read()
                os.remove(out)
                return (os.path.relpath(f, REPO), d)
        except subprocess.TimeoutExpired:
            pass
        return None
    with ThreadPoolExecutor(max_workers=16) as ex:
        for r in ex.map(one, cfiles):
            if r is not None and b"\0" not in r[1]:
                texts.append(r)
    import shutil
    shutil.rmtree(tmp, ignore_errors=True)
    return texts


def run_corpus(rng):
    texts = corpus_texts(rng)
    h1 = harness_scan(texts)
    second = [(cid, h1[cid]["ok"]) for (cid, _) in texts if cid in h1 and "ok" in h1[cid]]
    h2 = harness_scan(second)
    m1 = model_scan(texts)
    rejected = {}
    for (cid, t) in texts:
        stats["corpus_files"] += 1
        a = h1.get(cid, {})
        if "ok" not in a:
            err = a.get("err", a.get("crash", "?"))
            bump(rejected, err[:80])
            parts = [x for x in err.split("|") if x.strip()]
            if parts and all(re.match(r"^(err )?(syntax )?ln \d+: (undeclared name -?(nan|inf)[fL]?|no number after a sign -)$", x.strip())
                             for x in parts):
                # c2m wrote a non-finite floating constant (`inff`, `nanL`, …): outside the property (finite values)
                bump(stats, "corpus_nonfinite_float")
                continue
            if "crash" in a:
                # accepted by the scanner (no error line) but the library died while re-writing the module
                is_expr = re.search(rb"(^|[\s:;])expr[ \t]", t) is not None
                ck.violation({"input": {"kind": "text-file", "file": cid}, "impl_output": a.get("lines")},
                             what=("MIR_output crashes on the module read from %s" % cid) +
                                  (" (it has an expr item: the writer falls through into the function printer)" if is_expr else ""),
                             signature="C10:expr-item-output" if is_expr else "C10:corpus-crash")
            elif not cid.startswith("mir-tests/"):
                # text written by MIR_output inside c2m from an API-built module: it must be readable
                sig = ("C10:blk-size-ge-2^32" if "invalid block arg size" in err else
                       "C10:label-before-endfunc" if "endfunc should have no labels" in err else
                       "C10:stale-insn-code" if ("wrong ref operand" in err or "wrong expr operand" in err) else
                       "C10:data-type-p" if "wrong data clause" in err else
                       "C10:corpus-rejected:" + re.sub(r"[^a-z]+", "-", err[:40].lower()))
                ck.violation({"input": {"kind": "text-file", "file": cid, "how": "c2m -S"}, "impl_output": err,
                              "text": t.decode("latin1")[:3000]},
                             what="MIR text written by c2m -S for %s is rejected by MIR_scan_string: %s" % (cid, err),
                             signature=sig)
            continue
        b = h2.get(cid, {})
        rep = {"input": {"kind": "text-file", "file": cid}, "how_to_rerun": "cd /verif && ./check C10 --replay <this file>"}
        if "ok" in b and b["ok"] == a["ok"]:
            stats["corpus_fixpoint"] += 1
        else:
            err = b.get("err", b.get("crash", "text differs"))
            sig = ("C10:blk-size-ge-2^32" if "invalid block arg size" in err else
                   "C10:label-before-endfunc" if "endfunc should have no labels" in err else
                   "C10:stale-insn-code" if ("wrong ref operand" in err or "wrong expr operand" in err) else
                   "C10:corpus:" + re.sub(r"[^a-z]+", "-", err[:40].lower()))
            ck.violation(dict(rep, impl_output=err, text2=a["ok"].decode("latin1")[:4000]),
                         what="text written by MIR_output after reading %s is not read back to the same text: %s" % (cid, err),
                         signature=sig)
        m = m1.get(cid, {})
        if m.get("err", "").startswith("unmodelled"):
            stats["scan_unmodelled"] += 1
        elif "ok" in m and m["ok"] == a["ok"]:
            stats["corpus_model_agree"] += 1
            distinct.add(hash(a["ok"]))
            check_temp_counter("corpus", rep, a["ok"], a.get("lasttemp"), m.get("lasttemp"), t)
        else:
            ck.broken_ties.append({"kind": "correspondence", "name": "scanner-model-vs-MIR_scan_string (corpus)",
                                   "file": cid, "model": m.get("err", "ok"),
                                   "first_diff": first_diff(a["ok"], m.get("ok", b""))})
    ck.stage("corpus", files=len(texts), accepted=len(second), fixpoint=stats["corpus_fixpoint"],
             model_agree=stats["corpus_model_agree"], rejected=rejected)
    ck.cov["corpus_replayed"] = len(texts)


# ------------------------------------------------------------------ replay of one saved case / the corpus directory
def replay_one(path, table):
    d = json.load(open(path))
    inp = d.get("input", {})
    if inp.get("kind") == "description":
        lines = inp["lines"]
        impl = harness_build([("r", lines)]).get("r", {})
        mod = model_print([("r", lines)]).get("r")
        ms = None
        if "text1" in impl and b"\0" not in impl["text1"]:
            ms = model_scan([("r", impl["text1"])]).get("r")
        mods = [{"items": [{"kind": "expr"}] if any(l.startswith("expr ") for l in lines) else []}]
        evaluate_case("r", lines, mods, impl, mod, ms, d.get("probe"))
        if ck.replay:
            print(json.dumps({"impl": impl.get("lines"), "wf": (mod or {}).get("wf")}, indent=1)[:3000])
    elif inp.get("kind") in ("text", "text-file"):
        t = (open(os.path.join(REPO, inp["file"]), "rb").read() if inp.get("kind") == "text-file" and os.path.exists(os.path.join(REPO, inp.get("file", "")))
             else inp.get("text", "").encode("latin1"))
        (_, rm) = compare_scans("replay", [("r", t)], "freeform", "freeform_agree")
        a = harness_scan([("r", t)]).get("r", {})
        if "ok" not in a and "ok" in rm.get("r", {}) and d.get("signature") == "C10:concatenated-texts-rejected":
            ck.violation({"input": inp, "impl_output": a.get("err", a.get("crash")), "model_output": "accepted"},
                         what="replayed text (texts written by MIR_output, one after the other) is rejected",
                         signature=d.get("signature"))
        if "ok" in a:
            b = harness_scan([("r", a["ok"])]).get("r", {})
            if not ("ok" in b and b["ok"] == a["ok"]):
                ck.violation({"input": inp, "impl_output": b.get("err", "text differs")},
                             what="replayed text is not a fixpoint after one round trip",
                             signature=d.get("signature"))


def replay_corpus_dir(table):
    n = 0
    for f in sorted(glob.glob(os.path.join(VERIF, "corpus", "C10", "*.json"))):
        replay_one(f, table)
        n += 1
    ck.stage("corpus-dir", replayed=n)


# ------------------------------------------------------------------ main
table = tie_table()
if ck.replay:
    replay_one(ck.replay, table)
    ck.finish()
replay_corpus_dir(table)
tie_float(ck.rng)
cases, impl = run_generated(ck.rng, table)
if not QUICK:
    run_assert_flavour(cases, impl)
run_freeform(ck.rng, cases, impl)
run_concat(ck.rng, cases, impl)
run_text_mutants(ck.rng, cases, impl)
run_corpus(ck.rng)

ck.cov["evaluations"] = (stats["gen_cases"] + stats["freeform"] + stats["concat"] + stats["mutants_text"] + stats["corpus_files"]
                         + stats["float_fmt"] + stats["float_parse"])
ck.cov["distinct_nontrivial"] = len(distinct)
ck.cov["rule"] = ("modules generated from the instruction table of the tree (every item kind, operand form, block "
                  "parameters, hard-register globals, vararg, multi-result), labels numbered by first occurrence; "
                  "a case is non-trivial and distinct when MIR_output and the writer model agree on a text not seen "
                  "before (generated) or the real scanner accepts a corpus text and model and scanner re-write it "
                  "identically")
ck.cov["distribution"] = stats
ck.cov["exhaustive"] = False
ck.assumptions += [
    "glibc printf(\"%.*e\") and strtof/strtod/strtold are correctly rounded and inverse to each other on finite "
    "values (modelled in Model/TextIOFloat.lean, compared with the C library on every run; the theorems use the "
    "per-literal decidable condition floatRT instead of this fact)",
    "API-level validation reached from the scanner (MIR_finish_func operand modes, MIR_new_insn_arr prototype "
    "conformance, hard register names) depends only on the rebuilt structure, so it accepts the re-read module "
    "whenever it accepted the original one; it is not part of the model (errors of type != MIR_syntax_error are "
    "counted as 'semantic_only')",
    "x86-64 Linux: long double is the 80-bit x87 format, plain char is signed (0xFF reads as EOF)",
    "harness built with -DNDEBUG as the CMake build ships the library (asserts of scan_number/strtoul on malformed "
    "numbers are off)",
]
ck.finish()
