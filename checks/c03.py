"""C03 — behaviour is independent of the execution interface chosen at link time.

proof gate : Props/C03.lean — thunk codec (`redirect_target` for all a,to : BitVec 64, both encodings,
             `short_boundary`, `get_after_redirect`), public-address stability for every history of
             load/link/set-interface/first-call/generation events (`addr_stable`, `addr_is_first_thunk`),
             `thunk_decodes`, `target_progress`, `lazy_first_call_progress`, `bb_first_call_progress`,
             `machine_code_once`, `code_target_is_machine_code` (model: Model/Thunk.lean).
ties       : (A) codec   — the real _MIR_get_thunk/_MIR_redirect_thunk/_MIR_get_thunk_addr on thunks placed at
                 chosen addresses, targets at boundary and random displacements: bytes and read-back address
                 must equal mirdrv_c03's; the thunk is EXECUTED with a landing pad mapped at the target.
             (B) history — random admissible API histories (load, reload, link under 4 interfaces, direct
                 interface switches, MIR_gen, calls) on the real library; after every event the thunk bytes,
                 the kind of code found at its destination, machine_code and the public address must equal
                 the state of the Lean state machine fed with the same events; return values checked.
             (C) regs    — register contract of the lazy function wrapper and the bb wrapper with a hook
                 that clobbers every caller-saved register.
             (D) programs — multi-module programs (checks/c03_gen.py: recursion, mutual recursion across
                 modules, indirect calls through `ref` data, function addresses passed to C callbacks that
                 re-enter MIR, 17-argument functions, permuted first-call orders) under interp, the
                 by-value block parameters of every class (blk, blk1..blk4, rblk) at every position 0..7 ints x 0..9 doubles
                 before the block, passed from MIR and from a C caller that does the psABI placement itself;
                 one buffer passed by value as blk:<s1> and blk:<s2> (24..72 bytes, both orders) to native callees through
                 prototypes differing only in the block size, checked against a reference the harness computes in C;
                 multi-result functions over every 1-/2-/3-tuple of result types (i64, narrow ints, f, d, ld), called by a
                 multi-result MIR call and from a C caller that reads rax:rdx, xmm0:xmm1, st0:st1 itself;
                 interpreter's C interface, eager / lazy / lazy-bb generation at every level and under mixed links
                 (set_interface callback choosing a different interface per module), with an
                 allocator that clobbers caller-saved registers; results, buffers, call logs must coincide
                 between interfaces and between call orders; item->addr sampled throughout.
             (E) real programs — the repository's C tests (c-tests/new, lacc, andrewchambers_c; not the property-insn
                 tests) compiled by a c2m built from the current tree and run with -ei/-eg/-el/-eb: exit code and
                 output must coincide.
             Failures that reproduce with eager generation alone against the interpreter are C01's
             (counted in the evidence, not reported here)."""
import os, re, sys, json, glob, shutil, subprocess, resource, struct
from concurrent.futures import ThreadPoolExecutor
from vf import Check, VERIF, REPO
import mirgen, progtie, c03_gen

ENG5 = ["interp", "interpc", "gen1", "lazy1", "bb1"]
LEVELS = [["interp", "gen0", "lazy0", "bb0"], ["interp", "gen2", "lazy2", "bb2"], ["interp", "gen3", "lazy3", "bb3"]]
MIXES = [["interp", "mixil1", "mixli1", "mixgb1", "mixbg1"], ["interp", "mixib2", "mixbi0", "mixlg3", "mixbl2"],
         ["interp", "mixgi0", "mixig3", "mixlb1", "mixgl2"]]
GEN_ONLY = ["interp", "gen0", "gen1", "gen2", "gen3"]
M64 = (1 << 64) - 1

ck = Check("C03")
quick = ck.tier == "quick"
WORK = os.path.join(VERIF, ".cache", f"c03_{os.getpid()}")
os.makedirs(WORK, exist_ok=True)
_seq = [0]


def _limits():
    resource.setrlimit(resource.RLIMIT_FSIZE, (64 << 20, 64 << 20))
    resource.setrlimit(resource.RLIMIT_CPU, (300, 300))
    resource.setrlimit(resource.RLIMIT_CORE, (0, 0))


def run_capped(cmd, inp="", timeout=120, env=None):
    """run a child with its output in size-limited files (never in unbounded pipes); -> (rc, stdout, stderr)"""
    _seq[0] += 1
    base = os.path.join(WORK, f"run{_seq[0]}_{os.getpid()}")
    e = dict(os.environ)
    e.update(env or {})
    with open(base + ".in", "w") as fi:
        fi.write(inp)
    with open(base + ".in") as fi, open(base + ".out", "w") as fo, open(base + ".err", "w") as fe:
        try:
            rc = subprocess.run(cmd, stdin=fi, stdout=fo, stderr=fe, timeout=timeout, env=e, preexec_fn=_limits).returncode
        except subprocess.TimeoutExpired:
            rc = -99
    out = open(base + ".out", errors="replace").read(32 << 20)
    err = open(base + ".err", errors="replace").read(1 << 20)
    for s in (".in", ".out", ".err"):
        try:
            os.remove(base + s)
        except OSError:
            pass
    return rc, out, err


def drv(inp):
    p = os.path.join(VERIF, "lean", ".lake", "build", "bin", "mirdrv_c03")
    return run_capped([p], inp, timeout=300)


# ====================================================================== (A) codec
BOUND = [0, 1, 8, 13, 0x64, 0x7ffffffe, 0x7fffffff, 0x80000000, 0x80000001, 0xffffffff, 0x100000000,
         (-1) & M64, (-5) & M64, (-13) & M64, (-0x7fffffff) & M64, (-0x80000000) & M64, (-0x80000001) & M64,
         (-0x80000002) & M64, (-0x100000000) & M64, 1 << 40, (-(1 << 40)) & M64, 1 << 62, 1 << 63, (1 << 63) - 1]


def stage_codec():
    rng = ck.rng
    lines = []
    bases = [0x300000000, 0x6f0000000000, 0] + ([0x7ffe00000000, 0x10000000] if not quick else [])
    nrand = 150 if quick else 3000
    for b in bases:
        lines.append(f"ctx {b:x}")
        for j, d in enumerate(BOUND):
            lines.append(f"{'x' if b else 'r'} {j % 8} rel {d:x}")
        for _ in range(nrand):
            k = rng.below(6)
            th = rng.below(8)
            if k == 0:
                d = (rng.next() >> rng.below(64)) & M64
            elif k == 1:
                d = (-(rng.next() >> rng.below(64))) & M64
            elif k == 2:
                d = (rng.choice([0x7fffffff, 0x80000000, -0x80000000 & M64, -0x80000001 & M64]) + rng.below(33) - 16) & M64
            elif k == 3:
                d = rng.below(1 << 31)
            elif k == 4:
                d = (-rng.below(1 << 31)) & M64
            else:
                lines.append(f"r {th} abs {rng.next() >> rng.below(40):x}")
                continue
            cmd = "x" if (b and rng.chance(1, 2)) else "r"
            lines.append(f"{cmd} {th} rel {d:x}")
    plan = "\n".join(lines) + "\n"
    rc, out, err = run_capped([THUNK, "codec"], plan, timeout=120)
    res = [l for l in out.split("\n") if l.startswith(("redir ", "exec "))]
    if rc != 0 or len(res) != len([l for l in lines if not l.startswith("ctx")]):
        first = [l for l in out.split("\n") if l.startswith("E ")][:2]
        ck.violation({"stage": "codec", "plan": plan, "rc": rc, "stdout_tail": out[-600:], "stderr_tail": err[-400:],
                      "how_to_rerun": "harness c03_thunk codec < plan"},
                     what=f"thunk codec harness failed (rc={rc}) while redirecting/executing thunks: {first or err[-150:]}",
                     signature=None)
        return
    rc2, mout, _ = drv("".join(f"redir {l.split()[1]} {l.split()[2]}\n" for l in res))
    mres = [l for l in mout.split("\n") if l.startswith("redir ")]
    st = {"cases": len(res), "short": 0, "long": 0, "executed_ok": 0, "exec_skipped": 0, "boundary_cases": len(BOUND) * len(bases)}
    nrep = 0
    for l, m in zip(res, mres):
        t = l.split()
        mm = m.split()
        a, to, bts, got = t[1], t[2], t[3], t[4]
        st["short" if mm[4] == "S" else "long"] += 1
        bad = None
        if bts != mm[1]:
            bad = f"bytes written by _MIR_redirect_thunk differ from the model ({bts} vs {mm[1]})"
        elif got != mm[3]:
            bad = f"_MIR_get_thunk_addr returned {got}, last redirect target was {to}"
        elif t[0] == "exec":
            if t[5] == "ok":
                st["executed_ok"] += 1
            elif t[5] == "skip":
                st["exec_skipped"] += 1
            else:
                bad = f"executing the thunk did not arrive at the target: {t[5]}"
        if bad and nrep < 3:
            nrep += 1
            d = (int(to, 16) - int(a, 16) - 5) & M64
            ck.violation({"stage": "codec", "input": {"thunk": a, "to": to, "disp": f"{d:x}"}, "impl": l, "model": m,
                          "plan": f"ctx 300000000\nx 0 rel {d:x}\n", "how_to_rerun": "./check C03 --replay <this file>"},
                         what=f"thunk at {a} redirected to {to} (disp {d:#x}): {bad}", signature=None)
    if rc2 != 0 or len(mres) != len(res):
        ck.broken_ties.append({"kind": "correspondence", "name": "mirdrv_c03 redir", "first_diff": mout[-300:]})
    ck.cov.setdefault("distribution", {})["codec"] = st
    ck.sample({"codec": res[:2]})
    return st


def replay_codec(rep):
    rc, out, err = run_capped([THUNK, "codec"], rep["plan"], timeout=60)
    res = [l for l in out.split("\n") if l.startswith(("redir ", "exec "))]
    rc2, mout, _ = drv("".join(f"redir {l.split()[1]} {l.split()[2]}\n" for l in res))
    mres = [l for l in mout.split("\n") if l.startswith("redir ")]
    bad = [l for l, m in zip(res, mres) if l.split()[3] != m.split()[1] or l.split()[4] != m.split()[3]
           or (l.startswith("exec") and l.split()[5] not in ("ok", "skip"))]
    return rc != 0 or bool(bad) or not res, (bad or [out[-300:]])[:3]


# ====================================================================== (B) histories
def gen_hist_case(rng, cid):
    """-> (mir text, plan text, expected returns {line index: value}, stats)"""
    RELINK_BB = "relink_bb_after_gen" in ENABLED   # bb link of a function that has machine code (finding C03:relink-bb-after-gen)
    nmod = 1 + rng.below(3)
    nf = 2 + rng.below(5)
    redef = rng.chance(1, 2)
    funcs = []          # dict(mod, kind, c1, c2, callee)
    for i in range(nf):
        m = rng.below(nmod)
        kind = rng.below(3) if (redef and i > 0) else rng.below(2)
        funcs.append({"mod": m, "kind": kind, "c1": 1 + rng.below(9), "c2": rng.below(1000), "callee": rng.below(i) if kind == 2 else None})

    def ev(i, x):
        f = funcs[i]
        if f["kind"] == 0:
            return (x * f["c1"] + f["c2"]) & M64
        if f["kind"] == 1:
            return sum((k * f["c1"] + f["c2"]) for k in range(x & 7)) & M64
        return (ev(f["callee"], (x + 1) & M64) * 3 + f["c2"]) & M64

    def closure(i):
        out = []
        while funcs[i]["kind"] == 2:
            i = funcs[i]["callee"]
            out.append(i)
        return out
    text = []
    for m in range(nmod):
        mine = [i for i in range(nf) if funcs[i]["mod"] == m]
        text.append(f"hm{m}: module")
        text.append("hp: proto i64, i64:x")
        imps = sorted({funcs[i]["callee"] for i in mine if funcs[i]["kind"] == 2 and funcs[funcs[i]["callee"]]["mod"] != m})
        text += [f"import f{j}" for j in imps]
        exported = sorted({j for i in range(nf) if funcs[i]["kind"] == 2 for j in [funcs[i]["callee"]] if funcs[j]["mod"] == m and funcs[i]["mod"] != m})
        if exported:
            text.append("export " + ", ".join(f"f{j}" for j in exported))
        for i in mine:
            f = funcs[i]
            text.append(f"f{i}: func i64, i64:x")
            text.append("  local i64:r, i64:t, i64:i, i64:n")
            if f["kind"] == 0:
                text += [f"  mul r, x, {f['c1']}", f"  add r, r, {f['c2']}", "  ret r"]
            elif f["kind"] == 1:
                text += ["  mov r, 0", "  mov i, 0", "  and n, x, 7", f"f{i}_l:", f"  bge f{i}_e, i, n", f"  mul t, i, {f['c1']}",
                         f"  add t, t, {f['c2']}", "  add r, r, t", "  add i, i, 1", f"  jmp f{i}_l", f"f{i}_e:", "  ret r"]
            else:
                # through a function address held in a register: such calls are neither inlined at link time
                # (mir.c: calls of functions of <= 50 insns are) nor rewritten into direct calls: always via the thunk
                text += ["  add t, x, 1", f"  mov i, f{f['callee']}", "  call hp, i, r, t", "  mul r, r, 3", f"  add r, r, {f['c2']}", "  ret r"]
            text.append("  endfunc")
        text.append("  endmodule")
    # python mirror of the admissibility rules
    st = [dict(loaded=False, linked=False, pending=False, kind="none", mc=False, bb=False, interp=False) for _ in range(nf)]
    modloaded = [False] * nmod
    plan = [f"redef {1 if redef else 0}", f"opt {rng.below(4)}"]
    expect = []
    stats = {}
    for m in range(nmod):
        plan.append(f"load {m}")
        modloaded[m] = True
        for i in range(nf):
            if funcs[i]["mod"] == m:
                st[i].update(loaded=True, pending=True, kind="undefined")
    nev = 6 + rng.below(18)
    ifaces = ["interp", "gen", "lazy", "bb"]
    exported_mod = [any(funcs[i]["kind"] == 2 and funcs[funcs[i]["callee"]]["mod"] == m and funcs[i]["mod"] != m for i in range(nf)) for m in range(nmod)]

    def apply_set(i, ifc):
        s = st[i]
        if ifc == "interp":
            s["kind"] = "shim"
        elif ifc == "gen":
            s["kind"] = "code"; s["mc"] = True
        elif ifc == "lazy":
            s["kind"] = "lazywrap"
        else:
            s["kind"] = "bbwrap"

    def callable_(i):
        for g in [i] + closure(i):
            s = st[g]
            if not s["linked"] or s["pending"] or s["kind"] == "undefined":
                return False
            if s["kind"] == "bbwrap" and ((s["mc"] and not RELINK_BB) or s["bb"] or s["interp"]):
                return False
            if s["kind"] == "lazywrap" and (s["bb"] or s["interp"]):
                return False
        return True
    for _ in range(nev):
        k = rng.below(10)
        if k <= 1 or not any(s["linked"] for s in st):
            if any(s["pending"] for s in st):
                pend = [i for i in range(nf) if st[i]["pending"]]
                ifc = rng.choice([x for x in ifaces if not (x == "gen" and any(st[i]["bb"] for i in pend))])
                plan.append(f"link {ifc}")
                for i in pend:
                    st[i]["interp"] = False   # finish_func_interpretation
                    apply_set(i, ifc); st[i]["pending"] = False; st[i]["linked"] = True
                stats["link_" + ifc] = stats.get("link_" + ifc, 0) + 1
                continue
        if k == 2:
            m = rng.below(nmod)
            mine = [i for i in range(nf) if funcs[i]["mod"] == m]
            if mine and not any(st[i]["bb"] or st[i]["interp"] for i in mine) and (redef or not exported_mod[m]) and not any(s["pending"] for s in st):
                plan.append(f"reload {m}")
                for i in mine:
                    st[i].update(pending=True, kind="undefined")
                stats["reload"] = stats.get("reload", 0) + 1
                continue
        i = rng.below(nf)
        s = st[i]
        if not s["linked"] or s["pending"]:
            continue
        if k in (3, 4):
            ifc = rng.choice(ifaces)
            if s["bb"] or (ifc == "bb" and s["mc"] and not RELINK_BB) or (ifc == "gen" and s["interp"]):
                continue
            plan.append(f"set {ifc} {i}")
            apply_set(i, ifc)
            stats["set_" + ifc] = stats.get("set_" + ifc, 0) + 1
        elif k == 5:
            if s["bb"] or s["interp"]:
                continue
            plan.append(f"gen {i}")
            s["kind"] = "code"; s["mc"] = True
            stats["gen"] = stats.get("gen", 0) + 1
        else:
            if not callable_(i):
                continue
            x = rng.choice([0, 1, 5, 7, 12345, (1 << 63) - 1, 3])
            cl = closure(i)
            plan.append(f"call {i} {x}" + "".join(f" {g}" for g in cl))
            expect.append((i, x, ev(i, x)))
            for g in [i] + cl:
                t = st[g]
                if t["kind"] == "lazywrap":
                    t["kind"] = "code"; t["mc"] = True
                    stats["first_call_lazy"] = stats.get("first_call_lazy", 0) + 1
                elif t["kind"] == "bbwrap" and t["mc"]:
                    t["kind"] = "code"    # whole-function code exists: the first call leads to it
                    stats["first_call_bb_with_code"] = stats.get("first_call_bb_with_code", 0) + 1
                elif t["kind"] == "bbwrap":
                    t["kind"] = "bbthunk"; t["bb"] = True
                    stats["first_call_bb"] = stats.get("first_call_bb", 0) + 1
                elif t["kind"] == "shim":
                    t["interp"] = True
                    stats["call_interpreted"] = stats.get("call_interpreted", 0) + 1
            stats["call"] = stats.get("call", 0) + 1
    return "\n".join(text) + "\n", "\n".join(plan) + "\n", expect, stats


def run_hist_case(text, plan, expect, tag):
    """-> (None | (what, detail)), n_events"""
    path = os.path.join(WORK, f"hist_{tag}.mir")
    with open(path, "w") as f:
        f.write(text)
    rc, out, err = run_capped([THUNK, "hist", path], plan, timeout=15)
    os.remove(path)
    lines = out.split("\n")
    if rc != 0 or any(l.startswith("E ") for l in lines):
        return ("the library failed on an admissible API history: rc=%d %s" % (rc, ([l for l in lines if l.startswith("E ")] + [err.strip()[-200:]])[0]),
                {"impl_tail": lines[-6:]}), 0
    evs = [l for l in lines if l.startswith(("u ", "ev ", "show"))]
    rc2, mout, _ = drv("\n".join(evs) + "\n")
    impl = [l for l in lines if l.startswith(("st ", "end"))]
    model = [l for l in mout.split("\n") if l.startswith(("st ", "end"))]
    if any(l.endswith("adm=0") for l in model):
        return ("INADMISSIBLE", {"model": [l for l in model if l.endswith("adm=0")][:2]}), len(evs)
    if not any("undefined-interface-reported" in l for l in lines if l.startswith("u ")):
        return ("calling a loaded but unlinked function did not report 'undefined call interface'", {"impl": [l for l in lines if l.startswith("u ")]}), len(evs)
    for l in impl:
        if "ADDR-CHANGED" in l:
            return ("item->addr of a function changed: " + l[:160], {"impl": l}), len(evs)
    rets = [l.split() for l in lines if l.startswith("ret ")]
    if len(rets) != len(expect):
        return ("number of executed calls differs from the plan", {"rets": rets[:5]}), len(evs)
    for r, (i, x, v) in zip(rets, expect):
        sv = v - (1 << 64) if v >= (1 << 63) else v
        if r[3] != str(sv):
            return (f"f{i}({x}) called through its public address returned {r[3]}, expected {sv}", {"ret": r}), len(evs)
    if impl != model:
        for a, b in zip(impl + ["<eof>"], model + ["<eof>"]):
            if a != b:
                return ("state of the real library differs from the thunk state machine", {"impl": a, "model": b}), len(evs)
    return None, len(evs)


def stage_hist():
    n = 250 if quick else 4000
    cases = [gen_hist_case(ck.rng, c) for c in range(n)]
    nevents = 0
    stats = {}
    nontriv = 0
    fails = []
    with ThreadPoolExecutor(max_workers=12) as ex:
        futs = [ex.submit(run_hist_case, c[0], c[1], c[2], f"{i}") for i, c in enumerate(cases)]
        for c, f in zip(cases, futs):
            bad, ne = f.result()
            nevents += ne
            for k, v in c[3].items():
                stats[k] = stats.get(k, 0) + v
            if c[3].get("first_call_lazy") or c[3].get("first_call_bb") or c[3].get("reload"):
                nontriv += 1
            if bad:
                fails.append((c, bad))
    inadm = [x for x in fails if x[1][0] == "INADMISSIBLE"]
    if inadm:
        ck.broken_ties.append({"kind": "correspondence", "name": "history generator produced an event the model does not admit",
                               "first_diff": inadm[0][1][1], "plan": inadm[0][0][1]})
    fails = [x for x in fails if x[1][0] != "INADMISSIBLE"]
    for c, bad in fails[:3]:
        text, plan = c[0], shrink_hist(tuple(c) + (bad[0],))
        ck.violation({"stage": "history", "mir": text, "plan": plan, "plan_before_shrinking": c[1], "detail": bad[1], "how_to_rerun": "./check C03 --replay <this file>"},
                     what="API history on the real library: " + bad[0], signature=None)
    ck.cov.setdefault("distribution", {})["history"] = dict(stats, cases=n, events=nevents, cases_with_first_call_or_reload=nontriv, failing_cases=len(fails))
    ck.sample({"history_plan": cases[0][1].split("\n")[:12]})
    return n, nevents, nontriv


def shrink_hist(c):
    """drop trailing, then single, plan lines while the case still fails (expected values recomputed from calls kept)"""
    text, plan, expect = c[0], c[1], c[2]
    lines = plan.strip().split("\n")
    calls = [i for i, l in enumerate(lines) if l.startswith("call ")]
    exp_of = {i: e for i, e in zip(calls, expect)}

    kind0 = c[4] if len(c) > 4 else None

    def fails(ls_idx):
        p = "\n".join(lines[i] for i in ls_idx) + "\n"
        e = [exp_of[i] for i in ls_idx if i in exp_of]
        bad, _ = run_hist_case(text, p, e, "shrink")
        return bad is not None and bad[0] != "INADMISSIBLE" and (kind0 is None or bad[0][:24] == kind0[:24])
    import time as _t
    deadline = _t.time() + (25 if quick else 120)
    idx = list(range(len(lines)))
    while len(idx) > 3 and _t.time() < deadline and fails(idx[:-1]):
        idx = idx[:-1]
    i = len(idx) - 2
    tries = 0
    while i >= 2 and tries < 40 and _t.time() < deadline:
        cand = idx[:i] + idx[i + 1:]
        tries += 1
        if not lines[idx[i]].startswith(("load", "redef")) and fails(cand):
            idx = cand
        i -= 1
    return "\n".join(lines[i] for i in idx) + "\n"


# ====================================================================== (C) register contracts
def stage_regs():
    n = 40 if quick else 400
    plan = "".join(f"{w} {ck.rng.next():x}\n" for _ in range(n) for w in ("lazy", "bb", "thunk"))
    rc, out, err = run_capped([THUNK, "regs"], plan, timeout=60)
    res = [l for l in out.split("\n") if l.startswith("regs ")]
    st = {"cases": len(res), "bb_wrapper_leaves_xmm8_15_to_callee": 0}
    if rc != 0 or len(res) != 3 * n:
        ck.violation({"stage": "regs", "plan": plan[:400], "rc": rc, "stdout_tail": out[-400:], "stderr_tail": err[-300:]},
                     what=f"wrapper register-contract harness failed (rc={rc})", signature=None)
        return st
    nrep = 0
    for l in res:
        t = l.split()
        lost = [x for x in t[5:] if x.startswith("LOST")]
        if t[1] == "bb" and any(x.startswith("clobbered:xmm") for x in t[5:]):
            # generated code keeps values in xmm8-15 across bb borders: the bb wrapper must preserve them
            st["bb_wrapper_leaves_xmm8_15_to_callee"] += 1
            if st["bb_wrapper_leaves_xmm8_15_to_callee"] == 1:
                ck.violation({"stage": "regs", "plan": f"{t[1]} {t[2]}\n", "impl": l, "bb_xmm_must_survive": True,
                              "expected": "the bb wrapper preserves xmm8-15 around bb_version_generator",
                              "how_to_rerun": "./check C03 --replay <this file>"},
                             what="bb wrapper does not preserve xmm8-15 across its hook: " + " ".join(x for x in t[5:] if x.startswith("clobbered:xmm")),
                             signature="C03:bb-wrapper-xmm8-15")
        if (t[3] != "hook=1" or t[4] != "probe=1" or lost or "crash" in l) and nrep < 2:
            nrep += 1
            ck.violation({"stage": "regs", "plan": f"{t[1]} {t[2]}\n", "impl": l,
                          "expected": "every argument register (rdi rsi rdx rcx r8 r9 rax xmm0-7), the stack and callee-saved registers reach the destination unchanged",
                          "how_to_rerun": "./check C03 --replay <this file>"},
                         what=f"{t[1]} wrapper does not preserve registers across its hook: {' '.join(lost) or l[:120]}", signature=None)
    ck.cov.setdefault("distribution", {})["regs"] = st
    return st


# ====================================================================== (D) programs
def bad_lines(lines):
    return [l for l in lines if (l[:2] in ("P ", "H ", "W ", "B ", "T ", "X ") and " | =" not in l and not l.startswith("H engines"))
            or l.startswith("E ") or (l.startswith("A ") and not l.endswith(" same"))]


def run_iface(engines, text, plan, tag, env=None, timeout=180):
    path = os.path.join(WORK, f"{tag}.mir")
    with open(path, "w") as f:
        f.write(text)
    rc, out, err = run_capped([IFACE, ",".join(engines), path, "-q"], plan, timeout=timeout, env=env)
    try:
        os.remove(path)
    except OSError:
        pass
    return rc, out.split("\n"), err


def nplan(plan):
    return len([l for l in plan.split("\n") if l.strip()])


def check_prog_batch(engines, batch, tag, env=None):
    """batch: list of (C03Prog, [plans]); all programs loaded in one process per order index.
    -> list of failures dict(prog, plan, engines, lines, rc, err), evaluations"""
    fails, nev = [], 0
    norders = max(len(pl) for _, pl in batch)
    seen = {}
    for o in range(norders):
        if len(ENOUGH) >= 10:   # plenty of failing programs already: the rest of the run would only repeat them
            break
        text = "".join(P.text() for P, _ in batch)
        plan = "".join(pl[o % len(pl)] for _, pl in batch)
        import time as _t
        t0 = _t.time()
        rc, lines, err = run_iface(engines, text, plan, f"{tag}_{o}", env, timeout=30)
        if _t.time() - t0 > 25:
            ck.log(f"slow harness run {tag}_{o} {engines}: {_t.time() - t0:.0f}s rc={rc} programs {[P.name for P, _ in batch]}")
        res = [l for l in lines if l[:2] in ("P ", "H ", "W ", "B ", "T ", "X ", "A ") and not l.startswith("H engines")]
        nexp = sum(nplan(pl[o % len(pl)]) for _, pl in batch)
        nexp += sum(pl[o % len(pl)].count("addrs\n") for _, pl in batch) * (len(engines) - 1)
        if rc != 0 or bad_lines(lines) or len(res) != nexp:
            # isolate per program
            for P, pl in batch:
                rc1, l1, e1 = run_iface(engines, P.text(), pl[o % len(pl)], f"{tag}_{o}_iso", env, timeout=10)
                r1 = [l for l in l1 if l[:2] in ("P ", "H ", "W ", "B ", "T ", "X ", "A ") and not l.startswith("H engines")]
                n1 = nplan(pl[o % len(pl)]) + pl[o % len(pl)].count("addrs\n") * (len(engines) - 1)
                if rc1 != 0 or bad_lines(l1) or len(r1) != n1:
                    fails.append({"prog": P, "plan": pl[o % len(pl)], "engines": engines, "lines": bad_lines(l1)[:60], "rc": rc1,
                                  "err": e1.strip()[-300:], "env": env or {}})
                    ENOUGH.append(1)
                    if len(ENOUGH) >= 10:
                        break
            if rc == -99:
                break   # a hang: the other orders would only hang again
            continue
        nev += len([l for l in res if not l.startswith("A ")]) * len(engines)
        for l in res:
            if l.startswith("A "):
                continue
            key, val = l.split(" | ")
            if key in seen and seen[key][0] != val:
                P = next(P for P, _ in batch if key.split()[1].startswith(P.name + "a_") or key.split()[1].startswith(P.name + "b_"))
                pl = next(pl for Q, pl in batch if Q is P)
                fails.append({"prog": P, "plan": pl[o % len(pl)], "engines": engines, "rc": 0, "err": "", "env": env or {},
                              "lines": [f"ORDER-DEPENDENT {key} | {seen[key][0]} (order {seen[key][1]}) vs {val} (order {o})"],
                              "other_plan": pl[seen[key][1] % len(pl)]})
            seen.setdefault(key, (val, o))
    return fails, nev


ENOUGH = []
ENABLED = set()
KNOWN_ABORT = re.compile(r"Fatal failure in matching insn")


def same_level_disagreement(engines, line):
    """engines running the SAME generator pipeline at the same level (genN, lazyN, bbN) returned different values"""
    if " | " not in line or " | =" in line:
        return False
    r = [x.rstrip("*") for x in line.split(" | ")[1].split()]
    if len(r) != len(engines):
        return False
    by_level = {}
    for e, v in zip(engines, r):
        if e[:3] == "gen" or e[:4] == "lazy" or (e[:2] == "bb" and len(e) == 3):
            if not v.startswith("!"):   # crashes / timeouts are not compared
                by_level.setdefault(e[-1], set()).add(v)
    return any(len(v) > 1 for v in by_level.values())


def classify_prog_failure(f):
    """'c01' when the failing evaluations also fail with eager generation alone against the interpreter, unless
    engines of the same optimisation level disagree among themselves (then the interface is observable: ours)"""
    txt = " ".join(f["lines"]) + f["err"]
    if KNOWN_ABORT.search(txt):
        return "c01"
    if any(l.startswith("ORDER-DEPENDENT") for l in f["lines"]):
        return "c03"
    # evaluations that carry a reference computed by the harness in C: when every generator engine returns the reference
    # and an interpreter-side engine (interp, interpc, a mixed link) does not, the interp interface's call-out is wrong
    xmine = []
    for l in f["lines"]:
        if l.startswith("X ") and " | ref:" in l:
            t = l.split(" | ")[1].split()
            ref, r = t[0][4:], [x.rstrip("*") for x in t[1:]]
            if len(r) == len(f["engines"]):
                gens = [v for e, v in zip(f["engines"], r) if e[:3] == "gen" or e[:4] == "lazy" or (e[:2] == "bb" and len(e) == 3)]
                if gens and all(v == ref for v in gens) and any(v != ref for v in r):
                    xmine.append(l)
    if xmine:
        f["lines"] = xmine
        return "c03"
    lvl = [l for l in f["lines"] if same_level_disagreement(f["engines"], l)]
    # only the failing evaluations are re-run (a hanging call costs its 10 s alarm), in plan order
    keys = [l.split(" | ")[0] for l in f["lines"] if " | " in l and l[:2] in ("P ", "H ", "W ", "B ", "T ", "X ")][:6]
    cmd = {"P": "prog", "H": "callh", "W": "wide", "B": "callb", "T": "callm", "X": "callx"}
    want = {" ".join([cmd[k[0]]] + k.split()[1:]) for k in keys}
    sub = [l for l in f["plan"].split("\n") if l.strip() in want]
    plan = ("\n".join(sub) + "\n") if (sub and f["rc"] == 0) else f["plan"]
    rc, lines, err = run_iface(GEN_ONLY, f["prog"].text(), plan, f"classify_{f['prog'].name}", {"C03_TRASH": "none"}, timeout=75)
    bl = bad_lines(lines)
    if rc != 0:
        f["gen_only"] = (bl + [f"rc={rc} {err.strip()[-100:]}"])[:2]
        if lvl:
            f["lines"] = lvl + ["(eager generation alone also fails on this program: rc=%d)" % rc]
            return "c03"
        return "c01"    # eager generation alone aborts / hangs
    if not bl:
        return "c03"
    f["gen_only"] = bl[:2]
    # per evaluation: one that also fails with `interp` against eager generation alone is C01's; one on which
    # interp and gen0..gen3 agree but another interface (interpc, lazy, bb, mixed link) does not is ours
    gen_bad = {l.split(" | ")[0] for l in bl if " | " in l}
    mine = [l for l in f["lines"] if l.startswith("A ") or (" | " in l and l.split(" | ")[0] not in gen_bad)]
    if mine:
        f["lines"] = mine
        return "c03"
    if lvl:
        f["lines"] = lvl + ["(the evaluation also differs between interp and eager generation: " + bl[0][:160] + ")"]
        return "c03"
    return "c01"


def shrink_prog_failure(f):
    """keep only the plan lines needed, then shrink the body of the entry function if a `prog` line fails"""
    text, plan, engines, env = f["prog"].text(), f["plan"], f["engines"], f["env"]

    import time as _t
    deadline = _t.time() + (40 if quick else 240)

    tkey = None
    if f["rc"] == 0 and f["lines"] and " | " in f["lines"][0] and not f["lines"][0].startswith("ORDER"):
        tkey = f["lines"][0].split(" | ")[0] + " | "     # keep THIS evaluation failing (others may be C01's)

    def fails(t, p):
        if _t.time() > deadline:
            return False
        rc, lines, err = run_iface(engines, t, p, "shrinkp", env, timeout=20)
        if tkey is not None:
            return any(l.startswith(tkey) for l in bad_lines(lines))
        return rc != 0 or bool(bad_lines(lines))
    pl = [l for l in plan.strip().split("\n")]
    # drop suffix after the first failing line
    while len(pl) > 1 and fails(text, "\n".join(pl[:-1]) + "\n"):
        pl = pl[:-1]
    i = len(pl) - 2
    tries = 0
    while i >= 0 and tries < 30 and _t.time() < deadline:
        cand = pl[:i] + pl[i + 1:]
        tries += 1
        if fails(text, "\n".join(cand) + "\n"):
            pl = cand
        i -= 1
    plan = "\n".join(pl) + "\n"
    last = pl[-1].split()
    if tkey is not None:
        last = tkey.split()
        last[0] = {"P": "prog", "H": "callh", "W": "wide", "B": "callb", "T": "callm", "X": "callx"}.get(last[0], last[0])
    if last[0] == "prog" and not any(l.startswith("ORDER") for l in f["lines"]) and _t.time() < deadline:
        try:
            def run_engine_env(exe, engs, t, p, workdir, tag, timeout=25, quiet=True):
                if _t.time() > deadline:
                    return 0, [], ""
                rc, lines, err = run_iface(engs, t, p, "shrinkt", env, timeout=min(timeout, 15))
                return rc, lines, err
            saved = progtie.run_engine
            progtie.run_engine = run_engine_env
            try:
                t2 = progtie.shrink_text(IFACE, engines, text, plan, last[1], WORK, kind="engines-differ" if f["rc"] == 0 else "engine-abort",
                                         budget=60 if quick else 160)
            finally:
                progtie.run_engine = saved
            if fails(t2, plan):
                text = t2
        except Exception as ex:   # shrinking is best effort
            ck.log("shrink failed:", ex)
    return text, plan


def stage_programs():
    rng = ck.rng
    nprog = 600 if quick else 4000
    per = 6
    progs = []
    stats = {}
    G = c03_gen.BLOCK_GRID    # every (ints before, doubles before, block class, size) position, walked by a bijection
    g0 = rng.below(len(G))
    RG = c03_gen.RESULT_GRID  # every 1-, 2-, 3-tuple of result types the convention can return, walked the same way
    r0 = rng.below(len(RG))
    for k in range(nprog):
        pos = [G[(g0 + k * 4 + j) * 263 % len(G)] for j in range(4)]
        tup = [RG[(r0 + k * 2 + j) * 331 % len(RG)] for j in range(2)]
        P = c03_gen.gen_c03_program(rng, f"c{k}", opts=dict(jmpi=(k % 2 == 1), lref_diff_jump=("lref_diff_jump" in ENABLED)), many_doubles=(k % 3 == 0), block_positions=pos,
                                    result_tuples=tup)
        calls = c03_gen.calls_for(P, mirgen.ARGSETS if (not quick or k % 2 == 0) else mirgen.ARGSETS[:3], rng)
        plans = [c03_gen.plan_from(calls), c03_gen.plan_from(c03_gen.permute(rng, calls))]
        if not quick:
            plans.append(c03_gen.plan_from(c03_gen.permute(rng, calls)))
        progs.append((P, plans))
        for s, v in P.stats.items():
            stats[s] = stats.get(s, 0) + v
    # programs on which eager generation alone aborts or hangs while linking are C01's: found once, up front
    def prefilter(batch, tag):
        rc, lines, err = run_iface(GEN_ONLY, "".join(P.text() for P, _ in batch), "addrs\n", tag, {"C03_TRASH": "none"}, timeout=10)
        if rc == 0 and not bad_lines(lines):
            return batch, []
        keep, drop = [], []
        for P, pl in batch:
            rc, lines, err = run_iface(GEN_ONLY, P.text(), "addrs\n", tag + P.name, {"C03_TRASH": "none"}, timeout=6)
            if rc == 0 and not bad_lines(lines):
                keep.append((P, pl))
            else:
                drop.append({"program": P.name, "engines": GEN_ONLY, "lines": bad_lines(lines)[:2],
                             "err": ("eager generation hangs while linking" if rc == -99 else err.strip()[-160:])})
        return keep, drop
    batches = [progs[b:b + per] for b in range(0, nprog, per)]
    dropped = []
    with ThreadPoolExecutor(max_workers=14) as ex:
        futs = [ex.submit(prefilter, b, f"pre{i}") for i, b in enumerate(batches)]
        batches = []
        for f in futs:
            keep, drop = f.result()
            dropped += drop
            if keep:
                batches.append(keep)
    jobs = []
    for bi, batch in enumerate(batches):
        jobs.append((ENG5, batch, f"b{bi}", None))
        lv = LEVELS[bi % 3] if quick else None
        for L in ([lv] if lv else LEVELS):
            jobs.append((L, batch, f"b{bi}l{L[1]}", None))
        for L in ([MIXES[bi % 3]] if quick else MIXES):   # one link, a per-module choice of interface
            jobs.append((L, batch, f"b{bi}m{L[1]}", None))
        if bi % 4 == 0:   # the allocator clobbers only xmm8-15 / everything but xmm8-15
            jobs.append((["interp", "interpc", "gen2", "lazy2", "bb2"], batch, f"b{bi}t", {"C03_TRASH": "hi" if bi % 8 == 0 else "lo"}))
    fails, nev = [], 0
    with ThreadPoolExecutor(max_workers=14) as ex:
        futs = [ex.submit(check_prog_batch, *j) for j in jobs]
        for f in futs:
            fl, n = f.result()
            fails += fl
            nev += n
    classes = {"c01": len(dropped), "c03": 0}
    seen_sig = set()
    reported = 0
    c01_samples = dropped[:3]
    import time as _t
    t_cls = _t.time()
    for f in fails:
        if reported >= 4 or _t.time() - t_cls > (90 if quick else 600):
            classes["unclassified"] = classes.get("unclassified", 0) + 1
            continue
        cls = classify_prog_failure(f)
        classes[cls] += 1
        if cls == "c01":
            if len(c01_samples) < 3 or os.environ.get("C03_KEEP_C01"):
                c01_samples.append({"program": f["prog"].name, "engines": f["engines"], "lines": f["lines"][:2], "err": f["err"][-160:],
                                    "with_eager_gen_only": f.get("gen_only")})
                if os.environ.get("C03_KEEP_C01"):
                    with open(os.path.join(VERIF, ".cache", f"c03_c01class_{f['prog'].name}.mir"), "w") as fo:
                        fo.write(f["prog"].text())
                    with open(os.path.join(VERIF, ".cache", f"c03_c01class_{f['prog'].name}.plan"), "w") as fo:
                        fo.write(f["plan"])
            continue
        key = (tuple(f["engines"]), str([re.sub(r"[0-9a-f]{6,}", "#", l)[:60] for l in f["lines"][:1]]))
        if key in seen_sig or reported >= 4:
            continue
        seen_sig.add(key)
        reported += 1
        text, plan = shrink_prog_failure(f)
        rc, lines, err = run_iface(f["engines"], text, plan, "final", f["env"])
        ck.violation({"stage": "programs", "engines": f["engines"], "env": f["env"], "mir": text, "plan": plan,
                      "observed": bad_lines(lines)[:6] or f["lines"], "rc": rc, "stderr_tail": err[-300:],
                      "how_to_rerun": "./check C03 --replay <this file>"},
                     what=("interfaces disagree on a well-defined multi-module program (" + ",".join(f["engines"]) + "): " +
                           str((bad_lines(lines) or f["lines"] or [f["err"][-150:]])[0])[:300]), signature=None)
    d = ck.cov.setdefault("distribution", {})
    d["programs"] = {"programs": nprog, "harness_runs": len(jobs), "generated_constructs": stats, "failures_c01_class": classes["c01"], "programs_dropped_generator_fails_while_linking": len(dropped),
                     "failures_c03": classes["c03"], "failures_not_classified_after_enough_reports": classes.get("unclassified", 0), "c01_class_samples": c01_samples,
                     "engine_sets": [ENG5] + LEVELS + MIXES + [["interp", "interpc", "gen2", "lazy2", "bb2", "(allocator clobbers only xmm8-15 / all but xmm8-15)"]],
                     "block_param_grid": {"positions": len(G), "functions_generated": 4 * nprog,
                                          "grid_covered_times": round(4 * nprog / len(G), 2)},
                     "lref_difference_form_jumps_generated": "lref_diff_jump" in ENABLED,
                     "multi_result_grid": {"tuples": len(RG), "functions_generated": 2 * nprog,
                                           "grid_covered_times": round(2 * nprog / len(RG), 2)}}
    ck.sample({"program_plan_head": progs[0][1][1].split("\n")[:8]})
    return nprog, nev


# ====================================================================== (E) real C programs (thorough)
def run_c2m(c2m, src, flag, level):
    rc, out, err = run_capped([c2m, f"-O{level}", src, flag], "", timeout=20, env={"LC_ALL": "C"})
    return rc, out[:20000], err[-300:]


def stage_real(c2m):
    """(quick: one random optimisation level per file; thorough: all four)
    the repository's own C test programs compiled by c2m and executed under -ei (interpreter), -eg (eager
    generation), -el (lazy generation), -eb (lazy bb generation): exit code and stdout must coincide"""
    files = []
    for d in ("new", "lacc", "andrewchambers_c"):
        files += sorted(glob.glob(os.path.join(REPO, "c-tests", d, "*.c")))
    files = [f for f in files if not os.path.exists(f + ".disable")]
    # the property excludes programs using property insns (lazy bb generation specialises on them by design)
    nprop = len(files)
    files = [f for f in files if "__builtin_prop" not in open(f, errors="replace").read()]
    nprop -= len(files)
    rng = ck.rng
    todo = [(f, lv) for f in files for lv in ([rng.below(4)] if quick else [0, 1, 2, 3])]
    st = {"files": len(todo), "excluded_property_insn_tests": nprop, "compared": 0, "c2m_compile_errors": 0,
          "differ_eager_vs_interp": 0, "differ_lazy_or_bb_only": 0, "unstable_output_discarded": 0}

    def one(job):
        f, lv = job
        r = {k: run_c2m(c2m, f, k, lv) for k in ("-ei", "-eg", "-el", "-eb")}
        return f, lv, r
    nrep = 0
    with ThreadPoolExecutor(max_workers=14) as ex:
        for f, lv, r in ex.map(one, todo):
            ref = r["-ei"]
            if all(x[0] != 0 and not x[1] and "error" in x[2] for x in r.values()):
                st["c2m_compile_errors"] += 1
                continue
            st["compared"] += 1
            key = lambda x: (x[0], x[1])
            if key(r["-eg"]) != key(ref):
                st["differ_eager_vs_interp"] += 1     # C01 / C16 territory
                continue
            bad = [k for k in ("-el", "-eb") if key(r[k]) != key(r["-eg"])]
            if bad:
                # programs printing indeterminate values (padding, addresses) differ from run to run: a difference
                # counts only if the interpreter and eager generation reproduce their output and the interface does not
                stable = True
                for _ in range(2):
                    r2 = {k: run_c2m(c2m, f, k, lv) for k in ("-ei", "-eg", bad[0])}
                    if key(r2["-ei"]) != key(ref) or key(r2["-eg"]) != key(ref) or key(r2[bad[0]]) == key(ref):
                        stable = False
                if not stable:
                    st["unstable_output_discarded"] += 1
                    continue
                st["differ_lazy_or_bb_only"] += 1
                if nrep < 3:
                    nrep += 1
                    k = bad[0]
                    ck.violation({"stage": "real", "file": os.path.relpath(f, REPO), "level": lv, "flag": k,
                                  "expected": {"rc": ref[0], "stdout_head": ref[1][:300]},
                                  "observed": {"rc": r[k][0], "stdout_head": r[k][1][:300], "stderr_tail": r[k][2]},
                                  "how_to_rerun": f"c2m -O{lv} {os.path.relpath(f, REPO)} {k}   (vs -ei / -eg)"},
                                 what=f"c2m -O{lv} {os.path.relpath(f, REPO)} behaves differently under {k} (rc {r[k][0]}) than under -ei and -eg (rc {ref[0]})",
                                 signature=None)
    ck.cov.setdefault("distribution", {})["real_programs"] = st
    return st


# ====================================================================== corpus / known findings / replay
def replay_case(rep):
    """-> (fails?, observed lines)"""
    st = rep.get("stage")
    if st == "codec":
        return replay_codec(rep)
    if st == "history":
        # expected values are not stored: compare states only (and crashes)
        path = os.path.join(WORK, "replay_hist.mir")
        open(path, "w").write(rep["mir"])
        rc, out, err = run_capped([THUNK, "hist", path], rep["plan"], timeout=60)
        lines = out.split("\n")
        evs = [l for l in lines if l.startswith(("u ", "ev ", "show"))]
        rc2, mout, _ = drv("\n".join(evs) + "\n")
        impl = [l for l in lines if l.startswith(("st ", "end"))]
        model = [l for l in mout.split("\n") if l.startswith(("st ", "end"))]
        bad = rc != 0 or impl != model or any(l.startswith("E ") or "crash" in l or "ADDR-CHANGED" in l for l in lines)
        if rep.get("expect_ret") and [l.split()[3] for l in lines if l.startswith("ret ")] != rep["expect_ret"]:
            bad = True
        return bad, ([l for l in lines if l.startswith(("E ", "ret "))] + [err[-200:]])[:4]
    if st == "regs":
        rc, out, err = run_capped([THUNK, "regs"], rep["plan"], timeout=30)
        res = [l for l in out.split("\n") if l.startswith("regs ")]
        return rc != 0 or not res or any("LOST" in l or "crash" in l or "hook=1 probe=1" not in l
                                         or (rep.get("bb_xmm_must_survive") and "clobbered:xmm" in l) for l in res), res[:3]
    rc, lines, err = run_iface(rep["engines"], rep["mir"], rep["plan"], "replay", rep.get("env"))
    return rc != 0 or bool(bad_lines(lines)) or not any(l[:2] in ("P ", "H ", "W ", "B ", "T ", "X ") for l in lines[1:]), (bad_lines(lines) + [err[-200:]])[:4]


def stage_corpus():
    n = 0
    for jf in sorted(glob.glob(os.path.join(VERIF, "corpus", "C03", "*.json"))):
        rep = json.load(open(jf))
        if "mir_file" in rep:
            rep["mir"] = open(os.path.join(VERIF, rep["mir_file"])).read()
        bad, obs = replay_case(rep)
        n += 1
        sig = rep.get("signature")
        if rep.get("enables") and not bad:
            ENABLED.add(rep["enables"])   # a generator feature that waits for this finding to be fixed
        if bad:
            ck.violation(dict(rep, observed_now=obs, corpus_file=os.path.relpath(jf, VERIF), how_to_rerun=f"./check C03 --replay {os.path.relpath(jf, VERIF)}"),
                         what=(rep.get("what") or f"corpus case {os.path.basename(jf)} fails") + f" [{str(obs[0])[:160] if obs else ''}]", signature=sig)
    return n


def main():
    global THUNK, IFACE, built
    ck.proof_gate(["MirVerif.Props.C03"], support_modules=["MirVerif.Model.Thunk", "MirVerif.Lemmas.Thunk", "MirVerif.Lemmas.ThunkInv"],
                  exes=["mirdrv_c03"])
    if not quick:
        ck.leanchecker(["MirVerif.Props.C03"])
    H = os.path.join(VERIF, "harness")
    built = ck.cc_par([
        ("c03_thunk", [os.path.join(H, "c03_thunk.c"), os.path.join(H, "c03_regs.S"), os.path.join(REPO, "mir.c")], ["-O1", "-g", "-DNDEBUG", "-w"]),
        ("c03_iface", [os.path.join(H, "c03_iface.c"), os.path.join(H, "c03_regs.S"), os.path.join(REPO, "mir.c"), os.path.join(REPO, "mir-gen.c")],
         ["-O1", "-g", "-DNDEBUG", "-w"], [os.path.join(H, "engine.c")]),
        ("c03_c2m", [os.path.join(REPO, f) for f in ("mir.c", "mir-gen.c", "c2mir/c2mir.c", "c2mir/c2mir-driver.c")], ["-O1", "-DNDEBUG", "-w"]),
    ])
    THUNK, IFACE = built["c03_thunk"], built["c03_iface"]
    for nme, exe in built.items():
        if exe is None:
            ck.broken_ties.append({"kind": "harness-compile", "name": nme, "log": getattr(ck, "last_cc_log", "")[-1500:]})
    if THUNK is None or IFACE is None:
        shutil.rmtree(WORK, ignore_errors=True)
        ck.finish()
    if ck.replay:
        rep = json.load(open(ck.replay))
        if "mir_file" in rep:
            rep["mir"] = open(os.path.join(VERIF, rep["mir_file"])).read()
        bad, obs = replay_case(rep)
        ck.cov.update(evaluations=1, distinct_nontrivial=1, rule="replay of one saved case")
        ck.sample({"replay": ck.replay, "observed": obs})
        if bad:
            ck.violation(dict(rep, observed_now=obs), what="replayed case still fails: " + str(obs[0] if obs else "")[:200], signature=rep.get("signature"))
        shutil.rmtree(WORK, ignore_errors=True)
        ck.finish()
    ncorp = stage_corpus()
    ck.stage("corpus", cases=ncorp)
    cst = stage_codec() or {}
    ck.stage("codec", **{k: v for k, v in cst.items()})
    nh, nhev, nhnt = stage_hist()
    ck.stage("history", cases=nh, events=nhev)
    rst = stage_regs()
    ck.stage("regs", **rst)
    nprog, nev = stage_programs()
    ck.stage("programs", programs=nprog, evaluations=nev)
    nreal = 0
    if True:
        c2m = built["c03_c2m"]
        if c2m is not None:
            rst2 = stage_real(c2m)
            nreal = rst2["compared"] * 4
            ck.stage("real_programs", **rst2)
    ck.cov["evaluations"] = cst.get("cases", 0) + nhev + rst.get("cases", 0) + nev + ncorp + nreal
    ck.cov["distinct_nontrivial"] = cst.get("cases", 0) + nhnt + nprog
    ck.cov["corpus_replayed"] = ncorp
    ck.cov["rule"] = ("codec: (thunk address, target) pairs — 24 boundary displacements (0, +-1, +-2^31 and neighbours, +-2^32, +-2^40, 2^62, 2^63) per "
                      "context placed at fixed bases, plus random displacements of every magnitude; a case is non-trivial by construction (it "
                      "rewrites and decodes 13 bytes), about half are executed through a landing pad.  history: random admissible API histories over "
                      "2-6 functions in 1-3 modules; non-trivial = contains a first call through a lazy/bb wrapper or a reload.  programs: every "
                      "generated program is distinct (fresh PRNG draws) and contains recursion, cross-module mutual recursion, ref-data indirect "
                      "calls, C callbacks and 17-argument calls; each is run under 2-3 first-call orders and 2-4 engine sets")
    ck.cov["exhaustive"] = False
    ck.assumptions += [
        "machine code of wrappers, shims, bb thunks/stubs and generated functions is executed, not modelled",
        "_MIR_publish_code/_MIR_change_code write the bytes they are given (C17); allocator answers are inputs of the model's events",
        "reference for program behaviour is MIR_interp (engine `interp`); failures that reproduce with eager generation alone are attributed to C01",
        "half of the programs use laddr/jmpi in their entry functions, all use a jmpi through lref data with non-zero displacements; "
        "computed gotos through the DIFFERENCE form (base + (label - base + disp)) are generated only once corpus/C03/kf-interp-lref-diff "
        "passes (known finding C03:interp-lref-difference-unscaled); property insns are excluded by the property",
        "engines are built as shipped (-DNDEBUG); the allocator of every context clobbers all caller-saved registers incl. xmm8-15 "
        "(finding C03:bb-wrapper-xmm8-15 is fixed; corpus/C03/kf-bb-xmm8 is its must-pass regression)",
        "the C-level caller of block-parameter functions (`callb`) places arguments per the psABI itself (harness, c03_call_abi)",
    ]
    shutil.rmtree(WORK, ignore_errors=True)
    ck.finish()


main()
