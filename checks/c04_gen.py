"""C04 generators and format converters.

* `to_lean(P)`        : a lib/mirgen.py program (tuples) -> token format read by `mirdrv_c04` (MirCore);
                        returns None when the program uses something MirCore does not model (fp code)
* `parse_c_output`    : text printed by MIR_output_item -> canonical instruction lines (same form as
                        `mirdrv_c04 lower` prints), labels renamed by first occurrence
* `gen_c04_program`   : programs aimed at the link-time transformations: helpers of exact simplified
                        size around the inlining thresholds, call chains, self/mutual recursion,
                        `call` vs `inline`, constant/variable alloca in caller and callee (top level,
                        after labels, in loops), block arguments, several results, narrow parameter and
                        result types, several returns, a second module reusing the same label names
* `gen_unit_funcs`    : small functions for the unit-level tie (operand shapes x instruction classes,
                        shortcut rows, bt/bf constants, branch/jump shapes, alloca lists, returns)."""
import re
import mirgen
from mirgen import Prog, fmt_insn, fmt_op, M64, CONSTS, MEMT, TSIZE, INT3, CMP, BCMP

INT_TYPES = ["i8", "u8", "i16", "u16", "i32", "u32", "i64", "u64", "p"]
NARROW = ["i8", "u8", "i16", "u16", "i32", "u32"]
BRANCH1 = {"bt", "bts", "bf", "bfs"}
BRANCH0 = {"bo", "bno", "ubo", "ubno", "jmp"}
BRANCH2 = set(BCMP) | {b + "s" for b in BCMP}
FP_DROP = {"dmov", "fmov"}
INT_OPS3 = set(INT3) | {o + "s" for o in INT3} | {"div", "divs", "udiv", "udivs", "mod", "mods", "umod", "umods",
                                                   "lsh", "lshs", "rsh", "rshs", "ursh", "urshs"} | \
    set(CMP) | {c + "s" for c in CMP} | {"addo", "addos", "subo", "subos", "mulo", "mulos", "umulo", "umulos"}
INT_OPS2 = {"mov", "neg", "negs", "ext8", "ext16", "ext32", "uext8", "uext16", "uext32", "alloca"}


class Unsupported(Exception):
    pass


def parse_proto(p):
    """'ph: proto i64, i64:a, d:x' -> (name, [res types], [(type, name)])"""
    name, rest = p.split(":", 1)
    rest = rest.strip()
    assert rest.startswith("proto")
    items = [x.strip() for x in rest[5:].split(",") if x.strip()]
    res, args = [], []
    for it in items:
        if ":" in it and not it.startswith("blk") and not it.startswith("rblk"):
            t, n = it.split(":", 1)
            args.append((t.strip(), n.strip()))
        elif it.startswith("blk") or it.startswith("rblk"):
            m = re.match(r"(r?blk\d?):(\d+)\((\w+)\)", it)
            args.append((m.group(1) + ":" + m.group(2), m.group(3)))
        else:
            res.append(it)
    return name.strip(), res, args


def parse_header(h):
    """'i64, p:buf, i64:a0' -> ([res], [(type,name)])"""
    _, res, args = parse_proto("x: proto " + h)
    return res, args


class LeanOut:
    def __init__(self):
        self.labels = {}

    def lab(self, name):
        if name not in self.labels:
            self.labels[name] = len(self.labels) + 1
        return f"l:{self.labels[name]}"

    def opd(self, o):
        if isinstance(o, tuple):
            if o[0] == "mem":
                _, t, disp, base, index, scale = o[:6]     # a 7th field is an alias name: no run-time meaning
                if t not in INT_TYPES and not t.startswith("blk") and not t.startswith("rblk"):
                    raise Unsupported("mem type " + t)
                return f"m:{t.replace(':', '/')}:{disp & M64:x}:{base or '-'}:{index or '-'}:{scale}"
            raise Unsupported("fp literal")
        if isinstance(o, int):
            return f"i:{o & M64:x}"
        mb = re.match(r"^(r?blk\d?):(\d+)\((\w+)\)$", o)
        if mb:      # block argument of a call, written as text
            return f"m:{mb.group(1)}/{mb.group(2)}:0:{mb.group(3)}:-:1"
        return f"r:{o}"

    def insn(self, ins, protos):
        op = ins[0]
        if op == "label":
            return f"label {self.labels.setdefault(ins[1], len(self.labels) + 1)}"
        if op in FP_DROP:
            return None
        if op in BRANCH0:
            return f"{op} {self.lab(ins[1])}"
        if op in BRANCH1:
            return f"{op} {self.lab(ins[1])} {self.opd(ins[2])}"
        if op in BRANCH2:
            return f"{op} {self.lab(ins[1])} {self.opd(ins[2])} {self.opd(ins[3])}"
        if op == "switch":
            return "switch " + self.opd(ins[1]) + " " + " ".join(self.lab(l) for l in ins[2:])
        if op in ("call", "inline"):
            _, res, args = protos[ins[1]]
            ops = list(ins[3:])
            outs, ins_ = ops[:len(res)], ops[len(res):]
            keep = [o for o, (t, _) in zip(ins_, args) if t not in ("d", "f", "ld")]
            if any(t in ("d", "f", "ld") for t in res):
                raise Unsupported("fp result")
            return f"{op} {ins[2]} {len(res)} " + " ".join(self.opd(o) for o in outs + keep)
        if op == "ret":
            return "ret " + " ".join(self.opd(o) for o in ins[1:])
        if op in INT_OPS3 and len(ins) == 4:
            return f"{op} " + " ".join(self.opd(o) for o in ins[1:])
        if op in INT_OPS2 and len(ins) == 3:
            return f"{op} " + " ".join(self.opd(o) for o in ins[1:])
        raise Unsupported("insn " + op)


def to_lean(P, extra_protos=()):
    """token-format text of all functions of P (None if unsupported)"""
    protos = {}
    for p in list(P.protos) + list(extra_protos):
        n, res, args = parse_proto(p)
        protos[n] = (n, res, args)
    lo = LeanOut()
    out = []
    try:
        for name, header, locs, insns in P.funcs:
            res, args = parse_header(header)
            if any(t in ("d", "f", "ld") for t in res):
                raise Unsupported("fp result")
            args = [(t, n) for t, n in args if t not in ("d", "f", "ld")]
            locnames = [l.split(":", 1)[1] for l in locs if not l.startswith(("d:", "f:", "ld:"))]
            out.append(f"func {name} {len(args)} " + " ".join(f"{n} {t.replace(':', '/')}" for t, n in args) +
                       f" {len(res)} " + " ".join(res) + f" {len(locnames)} " + " ".join(locnames))
            for ins in insns:
                l = lo.insn(ins, protos)
                if l is not None:
                    out.append(l)
            out.append("endfunc")
    except Unsupported:
        return None
    return "\n".join(re.sub(r" +", " ", l).strip() for l in out) + "\n"


# ------------------------------------------------------------------ C output -> canonical lines
def canon_labels(lines):
    """rename L<n> by first occurrence"""
    m = {}

    def ren(mo):
        k = mo.group(0)
        if k not in m:
            m[k] = f"L{len(m)}"
        return m[k]
    return [re.sub(r"\bL\d+\b", ren, l) for l in lines]


def c_operand(o):
    o = o.strip()
    mm = re.match(r"^(\w+):\s*(-?\d+)?(?:\(([^)]*)\))?$", o)
    if mm and mm.group(1) in INT_TYPES:
        t, disp, sib = mm.group(1), mm.group(2), mm.group(3)
        base = index = "-"
        scale = 0
        if sib is not None:
            parts = [x.strip() for x in sib.split(",")]
            base = parts[0] or "-"
            if len(parts) > 1:
                index = parts[1] or "-"
                scale = int(parts[2]) if len(parts) > 2 else 1
        return f"{t}:{int(disp or 0)}:{base}:{index}:{scale if index != '-' else 0}"
    return o


def parse_c_output(text):
    """{func name: [canonical insn lines]} from c04_lower's output"""
    funcs, cur, body = {}, None, False
    for line in text.split("\n"):
        if line.startswith("F "):
            cur = line[2:].strip()
            funcs[cur] = []
            body = False
            continue
        if cur is None:
            continue
        s = line.strip()
        if s.startswith("# "):
            body = True
            continue
        if not body or not s:
            continue
        if s == "endfunc":
            cur = None
            continue
        if re.match(r"^L\d+:$", s):
            funcs[cur].append("label " + s[:-1])
            continue
        parts = s.split(None, 1)
        op = parts[0]
        ops = [c_operand(x) for x in parts[1].split(", ")] if len(parts) > 1 else []
        if op in ("call", "inline"):
            ops = ops[1:]   # drop the prototype
        funcs[cur].append(" ".join([op] + ops))
    return {k: canon_labels(v) for k, v in funcs.items()}


def parse_lean_lower(text):
    funcs, cur = {}, None
    for line in text.split("\n"):
        if line.startswith("F "):
            cur = line[2:].strip()
            funcs[cur] = []
        elif line == "END":
            cur = None
        elif cur is not None and line.strip():
            funcs[cur].append(line.strip())
    return {k: canon_labels(v) for k, v in funcs.items()}


# ------------------------------------------------------------------ programs aimed at simplification + inlining
class Prog2:
    """a main module plus an optional second module (printed first) whose functions reuse label names"""

    def __init__(self, name):
        self.name = name
        self.main = Prog(name)
        self.aux = None
        self.stats = self.main.stats

    @property
    def funcs(self):
        return (self.aux.funcs if self.aux else []) + self.main.funcs

    @property
    def protos(self):
        return set(self.main.protos) | (set(self.aux.protos) if self.aux else set())

    def text(self):
        return (self.aux.text() if self.aux else "") + self.main.text()


OPS_RR = ["add", "sub", "mul", "xor", "and", "or"]
THRESHOLDS = [49, 50, 51, 199, 200, 201]


class C04Gen:
    def __init__(self, rng, name, opts=None):
        self.r = rng
        self.name = name
        self.P = Prog2(name)
        self.M = self.P.main
        self.nh = 0
        self.o = dict(kf_shapes=False, nmids=4, aux=True)
        self.o.update(opts or {})
        self.sizes = {}      # helper name -> intended simplified size (threshold helpers)
        self.feat = self.M.stats

    def stat(self, k, n=1):
        self.feat[k] = self.feat.get(k, 0) + n

    def fname(self, hint):
        self.nh += 1
        return f"{self.name}_{hint}{self.nh}"

    def add(self, mod, fn, header, locs, ins):
        mod.funcs.append((fn, header, [f"i64:{x}" for x in locs], ins))

    # ---------------------------------------------------------------- helpers
    def h_sized(self, n):
        """exactly n instructions after simplification (register-only operands)"""
        r = self.r
        fn = self.fname(f"sz{n}_")
        ins = [("mov", "r", "a"), ("mov", "s", "b")]
        while len(ins) < n - 1:
            d = r.choice(["r", "s"])
            ins.append((r.choice(OPS_RR), d, r.choice(["r", "s", "a"]), r.choice(["r", "s", "b"])))
        ins.append(("ret", "r"))
        self.add(self.M, fn, "i64, i64:a, i64:b", ["r", "s"], ins)
        self.M.protos.add("p2: proto i64, i64:a, i64:b")
        self.sizes[fn] = n
        self.stat(f"sized_{n}")
        return fn, "p2"

    def h_chain(self, depth):
        r = self.r
        prev = None
        for d in range(depth + 1):
            fn = self.fname(f"ch{d}_")
            ins = [("add", "t", "a", r.choice(CONSTS)), ("xor", "t", "t", "b")]
            if prev is None:
                ins += [("mul", "u", "t", 3), ("add", "u", "u", 7)]
            else:
                ins += [(r.choice(["call", "inline"]), "p2", prev, "u", "t", "b")]
            ins += [("xor", "r", "u", "a"), ("ret", "r")]
            self.add(self.M, fn, "i64, i64:a, i64:b", ["t", "u", "r"], ins)
            prev = fn
        self.M.protos.add("p2: proto i64, i64:a, i64:b")
        self.stat("chain")
        return prev, "p2"

    def h_rec(self):
        r = self.r
        fn = self.fname("rec")
        lb = fn + "_base"
        kind = r.choice(["call", "inline"])
        ins = [("ble", lb, "a", 0), ("sub", "n1", "a", 1), ("mul", "b", "b", 3), ("add", "b", "b", "a"),
               (kind, "p2", fn, "r", "n1", "b"), ("ret", "r"), ("label", lb), ("ret", "b")]
        self.add(self.M, fn, "i64, i64:a, i64:b", ["n1", "r"], ins)
        self.M.protos.add("p2: proto i64, i64:a, i64:b")
        self.stat("self_recursion")
        return fn, "p2"

    def h_mutual(self):
        r = self.r
        fa, fb = self.fname("mua"), self.fname("mub")
        la, lb = fa + "_z", fb + "_z"
        ka, kb = r.choice(["call", "inline"]), r.choice(["call", "inline"])
        self.add(self.M, fa, "i64, i64:a, i64:b", ["n1", "x", "r"],
                 [("ble", la, "a", 0), ("sub", "n1", "a", 1), ("mul", "x", "b", 5), ("add", "x", "x", 1),
                  (ka, "p2", fb, "r", "n1", "x"), ("ret", "r"), ("label", la), ("ret", "b")])
        self.add(self.M, fb, "i64, i64:a, i64:b", ["n1", "x", "r"],
                 [("ble", lb, "a", 0), ("sub", "n1", "a", 1), ("add", "x", "b", "a"),
                  (kb, "p2", fa, "r", "n1", "x"), ("ret", "r"), ("label", lb), ("xor", "r", "b", 0x55), ("ret", "r")])
        self.M.protos.add("p2: proto i64, i64:a, i64:b")
        self.stat("mutual_recursion")
        return fa, "p2"

    def h_alloca_top(self):
        """constant alloca(s) at the top of the callee, used"""
        r = self.r
        fn = self.fname("at")
        sz = r.choice([8, 16, 24, 40, 100, 3])
        ins = [("alloca", "p", sz)]
        locs = ["p", "r", "q"]
        two = r.chance(1, 2)
        if two:
            ins.append(("alloca", "q", r.choice([8, 16, 1, 17])))
            ins += [("mov", ("mem", "u8", 0, "q", None, 1), "b")]
        if sz >= 8:
            ins += [("mov", ("mem", "i64", 0, "p", None, 1), "a")]
            if sz >= 16:
                ins += [("mov", ("mem", "i32", 8, "p", None, 1), "b"), ("mov", ("mem", "u16", 12, "p", None, 1), 77),
                        ("add", "r", ("mem", "i64", 0, "p", None, 1), ("mem", "i32", 8, "p", None, 1)),
                        ("add", "r", "r", ("mem", "u16", 12, "p", None, 1))]
            else:
                ins += [("mul", "r", ("mem", "i64", 0, "p", None, 1), 3)]
        else:
            ins += [("mov", ("mem", "u8", 2, "p", None, 1), "a"), ("mov", "r", ("mem", "u8", 2, "p", None, 1))]
        if two:
            ins += [("add", "r", "r", ("mem", "u8", 0, "q", None, 1))]
        ins += [("ret", "r")]
        self.add(self.M, fn, "i64, i64:a, i64:b", locs, ins)
        self.M.protos.add("p2: proto i64, i64:a, i64:b")
        self.stat("callee_top_alloca")
        return fn, "p2"

    def h_alloca_var(self):
        """variable-size alloca: inlined between bstart/bend"""
        fn = self.fname("av")
        ins = [("and", "n", "a", 56), ("add", "n", "n", 8), ("alloca", "p", "n"),
               ("mov", ("mem", "i64", 0, "p", None, 1), "b"), ("sub", "n", "n", 8),
               ("mov", ("mem", "i64", 0, "p", "n", 1), "a"),
               ("add", "r", ("mem", "i64", 0, "p", None, 1), ("mem", "i64", 0, "p", "n", 1)), ("ret", "r")]
        self.add(self.M, fn, "i64, i64:a, i64:b", ["n", "p", "r"], ins)
        self.M.protos.add("p2: proto i64, i64:a, i64:b")
        self.stat("callee_var_alloca")
        return fn, "p2"

    def var_alloca_block(self, reg, nreg, src, other, scratch):
        """`nreg = 40..64` computed from `src`; one instruction directly in front of the alloca that a
        careless "constant size" recognition could take for the size definition (an unrelated constant
        move, a constant move into the size register — then the size IS constant —, a register move
        into the size register, a move of the size register elsewhere); the alloca; stores over the
        whole block.  Returns (instructions, instructions that read the block back into `scratch`)"""
        r = self.r
        v = r.below(5)
        ins = [("and", nreg, src, 24), ("add", nreg, nreg, 40)]
        if v == 0:
            ins += [("mov", other, 0)]
        elif v == 1:
            ins += [("mov", nreg, r.choice([40, 48, 64]))]
        elif v == 2:
            ins += [("mov", other, nreg), ("add", other, other, 0), ("mov", nreg, other)]
        elif v == 3:
            ins += [("mov", other, nreg)]
        else:
            ins += [("mov", other, r.choice([1, 16, 4096]))]
        self.stat(f"var_alloca_after_mov_{v}")
        ins += [("alloca", reg, nreg)]
        for k in range(0, 40, 8):
            ins += [("mov", ("mem", "i64", k, reg, None, 1), r.choice([src, 0x0101010101010101 * (k + 1), -1]))]
        ins += [("sub", other, nreg, 8), ("mov", ("mem", "i64", 0, reg, other, 1), 0x7e7e7e7e7e7e7e7e)]
        back = []
        for k in range(0, 40, 8):
            back += [("xor", scratch, scratch, ("mem", "i64", k, reg, None, 1)), ("mul", scratch, scratch, 13)]
        back += [("sub", other, nreg, 8), ("add", scratch, scratch, ("mem", "i64", 0, reg, other, 1))]
        return ins, back

    def h_alloca_var_first(self):
        """callee whose FIRST alloca has a run-time size, directly preceded by a move; it calls a helper
        with a constant top alloca and reads its own block back afterwards"""
        fn = self.fname("avf")
        ins, back = self.var_alloca_block("p", "n", "a", "q", "r")
        hn, pn = self.h_alloca_top()
        ins = [("mov", "r", 0)] + ins + [(self.r.choice(["call", "inline"]), pn, hn, "t", "b", "a")] + back + \
              [("add", "r", "r", "t"), ("ret", "r")]
        self.add(self.M, fn, "i64, i64:a, i64:b", ["n", "p", "q", "r", "t"], ins)
        self.M.protos.add("p2: proto i64, i64:a, i64:b")
        self.stat("callee_var_alloca_first")
        return fn, "p2"

    def h_cold(self):
        """callee with register-using code BEHIND its last `ret` that is executed: an unlikely path
        `slow: ...; jmp back` taken for odd `a`, or a loop whose exit `ret` sits in the middle"""
        r = self.r
        fn = self.fname("cold")
        L = lambda x: f"{fn}_{x}"
        if r.chance(1, 2):
            ins = [("mov", "r", 1), ("mov", "k", 3), ("and", "t", "a", 1), ("bt", L("slow"), "t"), ("label", L("back")),
                   ("add", "r", "r", "a"), ("xor", "r", "r", "k"), ("ret", "r"),
                   ("label", L("slow")), ("mul", "k", "k", "b"), ("add", "k", "k", 77), ("add", "r", "r", "k"),
                   ("mov", "i", "r"), ("mul", "r", "i", 5), ("jmp", L("back"))]
            self.stat("cold_path_after_ret")
        else:
            ins = [("mov", "i", 0), ("mov", "r", "a"), ("mov", "k", 1), ("label", L("top")), ("bge", L("exit"), "i", 3), ("jmp", L("body")),
                   ("label", L("exit")), ("add", "r", "r", "k"), ("ret", "r"),
                   ("label", L("body")), ("add", "r", "r", "b"), ("mul", "r", "r", 3), ("add", "k", "k", "r"),
                   ("and", "t", "r", 255), ("xor", "k", "k", "t"), ("add", "i", "i", 1), ("jmp", L("top"))]
            self.stat("loop_exit_ret_in_middle")
        self.add(self.M, fn, "i64, i64:a, i64:b", ["r", "k", "t", "i"], ins)
        self.M.protos.add("p2: proto i64, i64:a, i64:b")
        return fn, "p2"

    def h_alloca_loop(self):
        """constant alloca after a label, executed in a loop (non-top alloca)"""
        fn = self.fname("al")
        ll = fn + "_L"
        top = self.r.chance(1, 2)
        ins = ([("alloca", "q", 16), ("mov", ("mem", "i64", 8, "q", None, 1), "b")] if top else []) + \
              [("mov", "i", 0), ("mov", "r", 0), ("label", ll), ("alloca", "p", 16),
               ("mov", ("mem", "i64", 0, "p", None, 1), "i"), ("mov", ("mem", "i64", 8, "p", None, 1), "a"),
               ("add", "r", "r", ("mem", "i64", 0, "p", None, 1)), ("xor", "r", "r", ("mem", "i64", 8, "p", None, 1)),
               ("add", "i", "i", 1), ("blt", ll, "i", 3)] + \
              ([("add", "r", "r", ("mem", "i64", 8, "q", None, 1))] if top else []) + [("ret", "r")]
        self.add(self.M, fn, "i64, i64:a, i64:b", ["i", "p", "q", "r"], ins)
        self.M.protos.add("p2: proto i64, i64:a, i64:b")
        self.stat("callee_alloca_in_loop")
        return fn, "p2"

    def h_blk(self):
        """block argument passed by value: the callee changes its copy"""
        r = self.r
        fn = self.fname("bk")
        bt = r.choice(["blk", "blk", "blk1"])
        sz = r.choice([16, 16, 8, 24, 32]) if bt == "blk" else r.choice([8, 16])   # blk1 = in integer registers: <= 16 bytes
        pn = f"pb{bt}{sz}"
        ins = [("add", ("mem", "i64", 0, "q", None, 1), ("mem", "i64", 0, "q", None, 1), "a"),
               ("mov", "r", ("mem", "i64", 0, "q", None, 1))]
        if sz >= 16:
            ins += [("xor", "r", "r", ("mem", "i64", 8, "q", None, 1)), ("mov", ("mem", "i32", 12, "q", None, 1), 5)]
        ins += [("ret", "r")]
        self.add(self.M, fn, f"i64, {bt}:{sz}(q), i64:a", ["r"], ins)
        self.M.protos.add(f"{pn}: proto i64, {bt}:{sz}(q), i64:a")
        self.stat("blk_arg")
        return fn, pn, bt, sz

    def h_rblk(self):
        fn = self.fname("rb")
        self.add(self.M, fn, "i64, rblk:16(q), i64:a", ["r"],
                 [("mov", ("mem", "i64", 0, "q", None, 1), "a"), ("mul", "r", "a", 7),
                  ("mov", ("mem", "i64", 8, "q", None, 1), "r"), ("ret", "r")])
        self.M.protos.add("prb16: proto i64, rblk:16(q), i64:a")
        self.stat("rblk_arg")
        return fn, "prb16"

    def h_multi(self):
        """several results of narrow types, narrow parameters, several returns (every other `ret`
        uses registers disjoint from the last one's, or the kf shape when asked for)"""
        r = self.r
        fn = self.fname("mr")
        nres = 2      # x86-64 returns at most two integer values
        res = [r.choice(NARROW + ["i64"]) for _ in range(nres)]
        pts = [r.choice(NARROW + ["i64"]), r.choice(NARROW + ["i64"])]
        pn = "pm_" + "_".join(res + pts)
        lab = [fn + f"_L{j}" for j in range(3)]
        ins = [("add", "u", "a", "b"), ("xor", "v", "a", 0x1234567), ("mul", "w", "b", "a"),
               ("mov", "x", "a"), ("mov", "y", "b"), ("sub", "z", "a", "b")]
        nrets = 1 + r.below(3)
        lastregs = ["u", "v", "w"][:nres]
        others = ["x", "y", "z"]
        for j in range(nrets - 1):
            ins.append((r.choice(["bt", "bf"]), lab[j], r.choice(["a", "b"])))
            if self.o["kf_shapes"]:
                ops = [r.choice(lastregs + others) for _ in range(nres)]
            else:
                ops = [r.choice(others + [r.choice(CONSTS)]) for _ in range(nres)]
            ins.append(("ret",) + tuple(ops))
            ins.append(("label", lab[j]))
        ins.append(("ret",) + tuple(lastregs))
        self.add(self.M, fn, ", ".join(res + [f"{pts[0]}:a", f"{pts[1]}:b"]), ["u", "v", "w", "x", "y", "z"], ins)
        self.M.protos.add(f"{pn}: proto " + ", ".join(res + [f"{pts[0]}:a", f"{pts[1]}:b"]))
        self.stat("multi_result")
        if nrets > 1:
            self.stat("multi_return")
        if any(t in NARROW for t in res):
            self.stat("narrow_result")
        if any(t in NARROW for t in pts):
            self.stat("narrow_param")
        return fn, pn, nres

    def h_ext(self):
        fn = self.fname("ex")
        r = self.r
        ins = [("call", "pe1", "ext1", "r", "a")]
        if r.chance(1, 2):
            ins += [("call", "pev", "extv", "b")]
            self.M.protos.add("pev: proto i64:a"); self.M.imports.add("extv")
        ins += [("call", "pe2", "ext2", "s", "r", "b"), ("xor", "r", "r", "s"), ("ret", "r")]
        self.M.protos.add("pe1: proto i64, i64:a"); self.M.imports.add("ext1")
        self.M.protos.add("pe2: proto i64, i64:a, i64:b"); self.M.imports.add("ext2")
        self.add(self.M, fn, "i64, i64:a, i64:b", ["r", "s"], ins)
        self.M.protos.add("p2: proto i64, i64:a, i64:b")
        self.stat("callee_calls_external")
        return fn, "p2"

    def h_random(self):
        """a lib/mirgen.py helper (random CFG, integer code, optional alloca and external calls)"""
        hn = self.fname("rh")
        ho = dict(mem=False, alloca=self.r.chance(1, 3), nblocks=3, ninsn=5, nint=5, ndbl=1, fuel=12,
                  calls=self.r.chance(1, 2), jmpi=False, fp=False)
        pro = Prog("tmp")
        mirgen.FuncGen(self.r, pro, hn, entry=False, helpers=[], opts=ho).build()
        f = pro.funcs[0]
        self.M.funcs.append((f[0], f[1], f[2], sanitize(f[3])))
        self.M.protos |= pro.protos
        self.M.imports |= pro.imports
        self.M.protos.add("ph: proto i64, i64:a, i64:b, d:x")
        self.stat("random_helper")
        return hn, "ph"

    def h_aux(self):
        """helper in a second module using the label names LL0/LL1 (also used in the main module)"""
        if self.P.aux is None:
            self.P.aux = Prog(self.name + "x")
        fn = f"{self.name}x_g{len(self.P.aux.funcs)}"
        ins = [("mov", "r", "a"), ("bgt", "LL0", "a", "b"), ("add", "r", "r", "b"), ("jmp", "LL1"),
               ("label", "LL0"), ("sub", "r", "r", "b"), ("label", "LL1"), ("mul", "r", "r", 3), ("ret", "r")]
        if self.P.aux.funcs:
            sfx = f"_{len(self.P.aux.funcs)}"
            ins = [(i[0], i[1] + sfx) + tuple(i[2:]) if i[0] in ("bgt", "jmp", "label") else i for i in ins]
        self.add(self.P.aux, fn, "i64, i64:a, i64:b", ["r"], ins)
        self.M.imports.add(fn)
        self.M.protos.add("p2: proto i64, i64:a, i64:b")
        self.stat("cross_module_callee")
        return fn, "p2"

    # ---------------------------------------------------------------- mid-level callers (small, so that the
    # default growth rule lets them inline) : i64 mid (p buf, i64 a, i64 b)
    def mid(self):
        r = self.r
        fn = self.fname("mid")
        ins = []
        locs = ["acc", "r0", "r1", "r2", "t0", "t1", "cnt", "tal", "tal2", "va", "va0", "vn", "vq", "vs"]
        regs = ["a", "b", "r0", "r1"]
        own = r.below(4)      # 0: none, 1: top alloca, 2: two adjacent top allocas, 3: variable-size first alloca
        vback = []
        ins += [("mov", "acc", 0), ("mov", "r0", "a"), ("xor", "r1", "b", r.choice(CONSTS)), ("mov", "r2", 1)]
        pre_call = None
        if self.o["kf_shapes"] and own and r.chance(1, 2):
            pre_call = True     # known finding: a call in front of the caller's top alloca
            hn, pn = self.h_alloca_top()
            ins += [("inline", pn, hn, "r2", "a", "b")]
        if own == 3:
            vi, vback = self.var_alloca_block("va0", "vn", "a", "vq", "vs")
            ins += [("mov", "vs", 0)] + vi
            self.stat("caller_var_alloca_first")
            own = 0
        if own:
            ins += [("alloca", "tal", 48)]
            if own == 2:
                ins += [("alloca", "tal2", r.choice([8, 24, 3]))]
                ins += [("mov", ("mem", "u8", 1, "tal2", None, 1), "b")]
            for k in range(0, 48, 8):
                ins += [("mov", ("mem", "i64", k, "tal", None, 1), r.choice(["a", "b", k]))]
            self.stat("caller_top_alloca")
        nsc = 1 + r.below(3)
        uses_ll = False
        for s in range(nsc):
            k = r.below(18)
            if vback and s == 0:
                k = r.choice([3, 4, 13, 14])     # the caller's variable block next to inlined constant ones
            loop = r.chance(1, 4)
            lab = f"{fn}_lp{s}"
            if loop:
                ins += [("mov", "cnt", 2 + r.below(2)), ("label", lab)]
                self.stat("call_in_loop")
            a1, a2 = r.choice(regs), r.choice(regs + [r.choice(CONSTS)])
            kind = r.choice(["call", "inline"])
            self.stat("site_" + kind)
            if k == 0:
                hn, pn = self.h_sized(r.choice(THRESHOLDS))
                ins += [(kind, pn, hn, "t0", a1, a2)]
            elif k == 1:
                hn, pn = self.h_chain(1 + r.below(3))
                ins += [(kind, pn, hn, "t0", a1, a2)]
            elif k == 2:
                hn, pn = self.h_rec() if r.chance(1, 2) else self.h_mutual()
                ins += [("and", "t1", a1, 7), (kind, pn, hn, "t0", "t1", a2)]
            elif k in (3, 4):
                hn, pn = self.h_alloca_top()
                ins += [(kind, pn, hn, "t0", a1, a2)]
                if r.chance(1, 2):     # a second callee with a top alloca: slots are shared / stacked
                    hn2, pn2 = self.h_alloca_top()
                    ins += [(r.choice(["call", "inline"]), pn2, hn2, "t1", "t0", a1), ("add", "t0", "t0", "t1")]
            elif k == 5:
                hn, pn = self.h_alloca_var()
                ins += [(kind, pn, hn, "t0", a1, a2)]
            elif k == 6:
                hn, pn = self.h_alloca_loop()
                ins += [(kind, pn, hn, "t0", a1, a2)]
            elif k == 7:
                hn, pn, bt, sz = self.h_blk()
                off = 8 * r.below(40)
                ins += [("add", "t1", "buf", off), (kind, pn, hn, "t0", f"{bt}:{sz}(t1)", a1)]
            elif k == 8:
                hn, pn = self.h_rblk()
                off = 8 * r.below(50)
                ins += [("add", "t1", "buf", off), (kind, pn, hn, "t0", "rblk:16(t1)", a1),
                        ("add", "t0", "t0", ("mem", "i64", 8, "t1", None, 1))]
            elif k == 9:
                hn, pn, nres = self.h_multi()
                outs = ["t0", "t1", "r2"][:nres]
                if r.chance(1, 3):     # a result stored directly to memory
                    outs[-1] = ("mem", r.choice(["i64", "i32", "u8"]), 8 * r.below(50), "buf", None, 1)
                ins += [(kind, pn, hn) + tuple(outs) + (a1, a2)]
                if nres >= 2 and isinstance(outs[1], str):
                    ins += [("add", "t0", "t0", "t1")]
            elif k == 10:
                hn, pn = self.h_ext()
                ins += [(kind, pn, hn, "t0", a1, a2)]
            elif k == 11:
                hn, pn = self.h_random()
                ins += [(kind, pn, hn, "t0", a1, a2, ("d", 0.0))]
            elif k in (15, 16):      # both parities of the first argument: hot and cold path
                hn, pn = self.h_cold()
                ins += [(kind, pn, hn, "t1", a1, a2), ("xor", "t0", a1, 1), (r.choice(["call", "inline"]), pn, hn, "t0", "t0", a2),
                        ("add", "t0", "t0", "t1")]
            elif k in (13, 14):
                hn, pn = self.h_alloca_var_first()
                ins += [(kind, pn, hn, "t0", a1, a2)]
            elif k == 12 and self.o["aux"]:
                hn, pn = self.h_aux()
                ins += [(kind, pn, hn, "t0", a1, a2)]
                if not uses_ll:     # the same label names inside this module
                    uses_ll = "LL0" not in self.used_ll
                    if uses_ll:
                        self.used_ll.add("LL0")
                        ins += [("bgt", "LL0", "t0", 5), ("add", "t0", "t0", 1), ("jmp", "LL1"), ("label", "LL0"),
                                ("sub", "t0", "t0", 2), ("label", "LL1")]
                        self.stat("label_names_reused")
            else:
                hn, pn = self.h_sized(r.choice([3, 10, 30] + THRESHOLDS))
                ins += [(kind, pn, hn, "t0", a1, a2)]
            ins += [("xor", "acc", "acc", "t0"), ("mul", "acc", "acc", 31), ("add", "r0", "r0", "t0")]
            if loop:
                ins += [("sub", "cnt", "cnt", 1), ("bgt", lab, "cnt", 0)]
            if r.chance(1, 3):
                ins += [("mov", ("mem", "i64", 8 * r.below(56), "buf", None, 1), "acc")]
        if r.chance(1, 4):      # variable alloca in the caller itself
            ins += [("and", "t1", "a", 24), ("add", "t1", "t1", 8), ("alloca", "va", "t1"),
                    ("mov", ("mem", "i64", 0, "va", None, 1), "acc"), ("add", "acc", "acc", ("mem", "i64", 0, "va", None, 1))]
            self.stat("caller_var_alloca")
        if vback:
            ins += vback + [("xor", "acc", "acc", "vs")]
        if own:
            for k in range(0, 48, 8):
                ins += [("xor", "acc", "acc", ("mem", "i64", k, "tal", None, 1)), ("mul", "acc", "acc", 7)]
            if own == 2:
                ins += [("add", "acc", "acc", ("mem", "u8", 1, "tal2", None, 1))]
        ins += [("add", "acc", "acc", "r2"), ("ret", "acc")]
        self.add(self.M, fn, "i64, p:buf, i64:a, i64:b", locs, ins)
        self.M.protos.add("pmid: proto i64, p:buf, i64:a, i64:b")
        return fn

    def build(self):
        r = self.r
        self.used_ll = set()
        mids = [self.mid() for _ in range(1 + r.below(self.o["nmids"]))]
        en = f"{self.name}_e0"
        ins = [("mov", "acc", 0), ("mov", "i0", "a0"), ("xor", "i1", "a1", "a2"), ("add", "i2", "a3", 1)]
        for m in mids:
            ins += [("call", "pmid", m, "t0", "buf", r.choice(["i0", "i1", "i2", "a0"]), r.choice(["i0", "i1", "i2", "a3", r.choice(CONSTS)])),
                    ("xor", "acc", "acc", "t0"), ("mul", "acc", "acc", 1000003), ("add", "i0", "i0", "t0")]
        ins += [("ret", "acc")]
        # the entry goes last: callees before callers exercises "callee already processed by process_inlines";
        # mids were appended after their helpers, shuffle the order of all functions
        self.add(self.M, en, "i64, p:buf, i64:a0, i64:a1, i64:a2, i64:a3, d:x0, d:x1", ["acc", "i0", "i1", "i2", "t0"], ins)
        fs = self.M.funcs
        for i in range(len(fs) - 1, 0, -1):
            j = r.below(i + 1)
            fs[i], fs[j] = fs[j], fs[i]
        # forward declarations are needed for functions referenced before their definition
        return self.P, [en]


def sanitize(insns):
    """keep lib/mirgen.py programs off the known finding C04:mulo-by-1: `mulo[s] d, x, 1` followed by a
    branch on overflow"""
    out = []
    for x in insns:
        if x[0] in ("mulo", "mulos") and len(x) == 4 and x[3] == 1:
            x = (x[0], x[1], x[2], 3)
        out.append(x)
    return out


def gen_c04_program(rng, name, opts=None):
    g = C04Gen(rng, name, opts)
    return g.build()


# ------------------------------------------------------------------ MIR text (subset) -> tuples
class TextProg:
    """a program given as MIR text (corpus, replays, shrinking): .funcs/.protos in the tuple form"""

    def __init__(self, text):
        self._text = text
        self.funcs, self.protos, self.imports, self.stats = parse_mir_text(text)

    def text(self):
        return self._text


def _split_ops(s):
    out, depth, cur = [], 0, ""
    for ch in s:
        if ch == "(":
            depth += 1
        elif ch == ")":
            depth -= 1
        if ch == "," and depth == 0:
            out.append(cur.strip())
            cur = ""
        else:
            cur += ch
    if cur.strip():
        out.append(cur.strip())
    return out


def _parse_operand(o):
    o = o.strip()
    if re.match(r"^-?\d+$", o):
        return int(o)
    if re.match(r"^0x[0-9a-fA-F]+$", o):
        return int(o, 16)
    if re.match(r"^r?blk\d?:\d+\(\w+\)$", o):
        return o
    m = re.match(r"^(\w+):\s*(-?\d+)?\s*(?:\(([^)]*)\))?$", o)
    if m and m.group(1) in INT_TYPES:
        t, disp, sib = m.group(1), int(m.group(2) or 0), m.group(3)
        base = index = None
        scale = 1
        if sib is not None:
            parts = [x.strip() for x in sib.split(",")]
            base = parts[0] or None
            if len(parts) > 1:
                index = parts[1] or None
                scale = int(parts[2]) if len(parts) > 2 else 1
        return ("mem", t, disp, base, index, scale)
    return o


def parse_mir_text(text):
    funcs, protos, imports = [], set(), set()
    cur = None
    for raw in text.split("\n"):
        line = raw.split("#")[0].rstrip()
        if not line.strip():
            continue
        m = re.match(r"^\s*([\w.$%]+):\s*(.*)$", line)
        label, rest = (m.group(1), m.group(2).strip()) if m else (None, line.strip())
        toks = rest.split(None, 1)
        op = toks[0] if toks else ""
        args = toks[1] if len(toks) > 1 else ""
        if op == "proto":
            protos.add(f"{label}: proto {args}")
        elif op == "func":
            cur = [label, args.strip(), [], []]
        elif op == "endfunc":
            funcs.append(tuple(cur))
            cur = None
        elif op == "local" and cur is not None:
            cur[2] += [x.strip() for x in args.split(",") if x.strip()]
        elif op == "import":
            imports |= {x.strip() for x in args.split(",")}
        elif op in ("module", "endmodule", "export", "forward"):
            continue
        elif cur is not None:
            if label is not None:
                cur[3].append(("label", label))
            if op:
                cur[3].append((op,) + tuple(_parse_operand(x) for x in _split_ops(args)))
    return funcs, protos, imports, {}


# ------------------------------------------------------------------ executable rewrite shapes
SHAPE_OPS0 = ["add", "adds", "sub", "subs", "or", "ors", "xor", "xors", "and", "ands", "mul", "muls", "lsh", "lshs",
              "rsh", "rshs", "ursh", "urshs"]
SHAPE_OPS1 = SHAPE_OPS0 + ["div", "divs", "udiv", "udivs", "mod", "mods", "umod", "umods"]


def gen_shape_program(rng, name, kf_shapes=False):
    """entry `name_e0 (p buf, a0..a3, x0, x1)`: a sequence of small snippets, each one of the shapes
    simplify_func rewrites (shortcut rows and near misses in both operand positions, bt/bf of
    constants, branch over jump, branch/jump to next, two branches to one place, jump chains,
    adjacent constant allocas whose blocks are written at both ends and read back), executed and
    folded into the result — so a wrong rewrite changes what the program computes"""
    r = rng
    P = Prog(name)
    en = f"{name}_e0"
    ins = [("mov", "acc", 0), ("mov", "v0", "a0"), ("xor", "v1", "a1", 0x5bd1e995), ("add", "v2", "a2", "a3"),
           ("or", "v3", "a3", 1), ("mov", "t", 0)]
    nl = [0]
    feat = P.stats

    def lab():
        nl[0] += 1
        return f"{en}_L{nl[0]}"

    def stat(k):
        feat[k] = feat.get(k, 0) + 1

    def fold(reg, ext=None):
        if ext:
            ins.append((ext, reg, reg))
        ins.extend([("xor", "acc", "acc", reg), ("mul", "acc", "acc", 1000003)])
    vs = ["v0", "v1", "v2", "v3"]
    fp = r.chance(1, 4)      # programs with double branches have no MirCore oracle: builds/engines only
    if fp:
        ins += [("dmov", "dz", ("d", 0.0)), ("ddiv", "dn", "dz", "dz"), ("dneg", "dm", "dz")]
    for _ in range(6 + r.below(10)):
        k = r.below(14 if fp else 12)
        if k >= 12:      # double branch over a jump, NaN / -0 / argument operands
            op = r.choice(["dbeq", "dbne", "dblt", "dble", "dbgt", "dbge"])
            u, w = r.choice(["dn", "dz", "dm", "x0", "x1"]), r.choice(["dn", "dz", "dm", "x0", "x1"])
            l1, l2 = lab(), lab()
            ins += [("mov", "t", 1), (op, l1, u, w), ("jmp", l2), ("label", l1), ("add", "t", "t", 5), ("label", l2), ("add", "t", "t", 16)]
            fold("t")
            stat("fp_br_over_jmp")
            continue
        x, y = r.choice(vs), r.choice(vs)
        if k <= 2:       # shortcut rows, near misses, swapped operand position
            c = r.choice([0, 1, 0, 1, 2, -1])
            op = r.choice(SHAPE_OPS1 if c not in (0,) else SHAPE_OPS0)
            if op.startswith(("lsh", "rsh", "ursh")) and c < 0:
                c = 1
            if op.startswith(("div", "mod")) and c < 0:
                c = 2      # MIN / -1 is undefined
            d = r.choice(["t", x])
            if r.chance(1, 4) and not op.startswith(("div", "udiv", "mod", "umod", "lsh", "rsh", "ursh")):
                ins.append((op, d, c, x))      # constant first: `0 - x` is not `x - 0`
                stat("shortcut_const_first")
            else:
                ins.append((op, d, x, c))
                stat(f"shortcut_{c}")
            fold(d, "ext32" if op.endswith("s") else None)
        elif k == 3:     # bt/bf of a constant
            op, c = r.choice(["bt", "bf", "bts", "bfs"]), r.choice([0, 1, 2, -1, 1 << 32])
            l1 = lab()
            ins += [("mov", "t", 11), (op, l1, c), ("mov", "t", 22), ("label", l1)]
            fold("t")
            stat("bt_const")
        elif k in (4, 5):     # BCond L; JMP L2; L: ... L2:
            op = r.choice(sorted(BRANCH2) + sorted(BRANCH1))
            l1, l2, lx = lab(), lab(), lab()
            br = (op, l1, x, y) if op in BRANCH2 else (op, l1, x)
            extra = [("label", lx)] if r.chance(1, 3) else []
            ins += [("mov", "t", 1), br, ("jmp", l2)] + extra + [("label", l1), ("add", "t", "t", 5), ("label", l2), ("add", "t", "t", 16)]
            if extra:
                ins += [("bf", lx, 1)]
            fold("t")
            stat("br_over_jmp")
        elif k == 6:     # branch / jump to the next instruction, over labels
            op = r.choice(sorted(BRANCH2) + ["jmp"])
            l1, l0 = lab(), lab()
            br = (op, l1, x, y) if op in BRANCH2 else (op, l1)
            ins += [("mov", "t", 3), br, ("label", l0), ("label", l1), ("add", "t", "t", x), ("bf", l0, 1)]
            fold("t")
            stat("jump_to_next")
        elif k == 7:     # BR L1; JMP L2 with L1 and L2 at the same place
            op = r.choice(sorted(BRANCH2))
            l1, l2 = lab(), lab()
            labs = [("label", l1), ("label", l2)] if r.chance(1, 2) else [("label", l2), ("label", l1)]
            ins += [("mov", "t", 4), (op, l1, x, y), ("jmp", l2), ("add", "t", "t", 100)] + labs + [("add", "t", "t", y)]
            fold("t")
            stat("two_branches_one_place")
        elif k == 8:     # jump chain (threading)
            ls = [lab() for _ in range(2 + r.below(3))]
            lend = lab()
            op = r.choice(sorted(BRANCH2))
            ins += [("mov", "t", 7), (op, ls[0], x, y), ("add", "t", "t", 1), ("jmp", lend)]
            for j, l in enumerate(ls):
                ins += [("label", l)] + ([("jmp", ls[j + 1])] if j + 1 < len(ls) else [("add", "t", "t", 64)])
            ins += [("label", lend)]
            fold("t")
            stat("jump_chain")
        elif k in (9, 10):    # adjacent constant allocas: write both ends of every block, read back
            n = 2 + r.below(4)
            sizes = [r.choice([1, 2, 3, 4, 5, 8, 9, 12, 16, 17, 24, 33, 40]) for _ in range(n)]
            regs = [f"p{j}" for j in range(n)]
            for rg, sz in zip(regs, sizes):
                ins.append(("alloca", rg, sz))
            for j, (rg, sz) in enumerate(zip(regs, sizes)):
                ins.append(("mov", ("mem", "u8", 0, rg, None, 1), 0x10 + j))
                ins.append(("mov", ("mem", "u8", sz - 1, rg, None, 1), 0x80 + j))
            for rg, sz in zip(regs, sizes):
                ins += [("mov", "t", ("mem", "u8", 0, rg, None, 1))]
                fold("t")
                ins += [("mov", "t", ("mem", "u8", sz - 1, rg, None, 1))]
                fold("t")
            stat("alloca_list")
        else:            # mem-to-mem move and arithmetic with memory destination in the buffer
            o1, o2 = 8 * r.below(50), 8 * r.below(50)
            ins += [("mov", ("mem", "i64", o1, "buf", None, 1), x), ("mov", ("mem", r.choice(["i32", "u16", "i64"]), o2, "buf", None, 1), ("mem", "i64", o1, "buf", None, 1)),
                    ("add", ("mem", "i64", o1, "buf", None, 1), ("mem", "i64", o1, "buf", None, 1), 0)]
            stat("mem_mem")
    ins += [("ret", "acc")]
    locs = ["acc", "v0", "v1", "v2", "v3", "t"] + [f"p{j}" for j in range(6)]
    P.funcs.append((en, "i64, p:buf, i64:a0, i64:a1, i64:a2, i64:a3, d:x0, d:x1",
                    [f"i64:{x}" for x in locs] + (["d:dz", "d:dn", "d:dm"] if fp else []), ins))
    return P, [en]


# ------------------------------------------------------------------ stack growth: dynamic allocas released per call
def gen_stack_program(rng, name, iters=20000):
    """entry `name_e0`: a loop of `iters` iterations around a call site (call / inline) of a callee with
    a run-time sized (about 4 KiB) or late alloca — alone, next to a constant top alloca, behind a label,
    or one level down a call chain.  As written every activation releases its allocas on return, so the
    stack stays flat; an inlined copy that is not bracketed by bstart/bend needs iters x 4 KiB = 80 MB."""
    r = rng
    P = Prog(name)
    P.protos.add("p2: proto i64, i64:a, i64:b")
    v = r.below(5)
    callee = f"{name}_v"
    ins = [("mov", "r", "a")]
    locs = ["r", "n", "p", "c", "q", "t"]
    if v in (0, 3, 4):      # constant top alloca next to the dynamic one
        ins += [("alloca", "c", r.choice([16, 24, 100])), ("mov", ("mem", "i64", 0, "c", None, 1), "b")]
    size = [("and", "n", "a", 56), ("add", "n", "n", 4040)]
    if v in (0, 1):
        ins += size + [("alloca", "p", "n")]
    elif v == 2:
        ins += size + [("jmp", callee + "_L"), ("label", callee + "_L"), ("alloca", "p", "n")]
    elif v == 3:            # constant size but behind a label: not a top alloca either
        ins += [("label", callee + "_L"), ("alloca", "p", 4096)]
    else:                   # the dynamic alloca is one level down
        leaf = f"{name}_leaf"
        P.funcs.append((leaf, "i64, i64:a, i64:b", ["i64:n", "i64:p", "i64:r"],
                        size + [("alloca", "p", "n"), ("mov", ("mem", "i64", 4032, "p", None, 1), "b"),
                                ("add", "r", "a", ("mem", "i64", 4032, "p", None, 1)), ("ret", "r")]))
        ins += [(r.choice(["call", "inline"]), "p2", leaf, "t", "a", "b"), ("add", "r", "r", "t")]
    if v != 4:
        ins += [("mov", ("mem", "i64", 0, "p", None, 1), "a"), ("mov", ("mem", "i64", 4032, "p", None, 1), "b"),
                ("add", "r", "r", ("mem", "i64", 4032, "p", None, 1)), ("xor", "r", "r", ("mem", "i64", 0, "p", None, 1))]
    if v in (0, 3, 4):
        ins += [("add", "r", "r", ("mem", "i64", 0, "c", None, 1))]
    ins += [("ret", "r")]
    P.funcs.append((callee, "i64, i64:a, i64:b", [f"i64:{x}" for x in locs], ins))
    en = f"{name}_e0"
    lp = en + "_L"
    kind = r.choice(["call", "inline", "inline"])
    own = r.chance(1, 2)
    body = ([("alloca", "tal", 32), ("mov", ("mem", "i64", 8, "tal", None, 1), "a1")] if own else []) + \
        [("mov", "acc", 0), ("mov", "i", 0), ("label", lp), ("add", "x", "i", "a0"),
         (kind, "p2", callee, "t", "x", "a2"), ("xor", "acc", "acc", "t"), ("mul", "acc", "acc", 31),
         ("add", "i", "i", 1), ("blt", lp, "i", iters)] + \
        ([("add", "acc", "acc", ("mem", "i64", 8, "tal", None, 1))] if own else []) + [("ret", "acc")]
    P.funcs.append((en, "i64, p:buf, i64:a0, i64:a1, i64:a2, i64:a3, d:x0, d:x1",
                    [f"i64:{x}" for x in ["acc", "i", "x", "t", "tal"]], body))
    P.stats[f"stack_loop_variant_{v}_{kind}"] = 1
    return P, [en]
