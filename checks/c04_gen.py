"""C04 generators and format converters.

* `to_lean(P)`        : a lib/mirgen.py program (tuples) -> token format read by `mirdrv_c04` (MirCore);
                        returns None when the program uses something MirCore does not model (fp code)
* `parse_c_output`    : text printed by MIR_output_item -> canonical instruction lines (same form as
                        `mirdrv_c04 lower` prints), labels renamed by first occurrence
* `gen_c04_program`   : programs aimed at the link-time transformations: helpers of exact simplified
                        size around the inlining thresholds, call chains, self/mutual recursion,
                        `call` vs `inline`, constant/variable alloca in caller and callee (top level,
                        after labels, in loops), block arguments, several results, narrow parameter and
                        result types, several returns, a second module reusing the same label names
* `gen_unit_funcs`    : small functions for the unit-level tie (operand shapes x instruction classes,
                        shortcut rows, bt/bf constants, branch/jump shapes, alloca lists, returns)."""
import re
import mirgen
from mirgen import Prog, fmt_insn, fmt_op, M64, CONSTS, MEMT, TSIZE, INT3, CMP, BCMP

INT_TYPES = ["i8", "u8", "i16", "u16", "i32", "u32", "i64", "u64", "p"]
NARROW = ["i8", "u8", "i16", "u16", "i32", "u32"]
BRANCH1 = {"bt", "bts", "bf", "bfs"}
BRANCH0 = {"bo", "bno", "ubo", "ubno", "jmp"}
BRANCH2 = set(BCMP) | {b + "s" for b in BCMP}
FP_DROP = {"dmov", "fmov"}
INT_OPS3 = set(INT3) | {o + "s" for o in INT3} | {"div", "divs", "udiv", "udivs", "mod", "mods", "umod", "umods",
                                                   "lsh", "lshs", "rsh", "rshs", "ursh", "urshs"} | \
    set(CMP) | {c + "s" for c in CMP} | {"addo", "addos", "subo", "subos", "mulo", "mulos", "umulo", "umulos"}
INT_OPS2 = {"mov", "neg", "negs", "ext8", "ext16", "ext32", "uext8", "uext16", "uext32", "alloca"}


class Unsupported(Exception):
    pass


def parse_proto(p):
    """'ph: proto i64, i64:a, d:x' -> (name, [res types], [(type, name)])"""
    name, rest = p.split(":", 1)
    rest = rest.strip()
    assert rest.startswith("proto")
    items = [x.strip() for x in rest[5:].split(",") if x.strip()]
    res, args = [], []
    for it in items:
        if ":" in it and not it.startswith("blk") and not it.startswith("rblk"):
            t, n = it.split(":", 1)
            args.append((t.strip(), n.strip()))
        elif it.startswith("blk") or it.startswith("rblk"):
            m = re.match(r"(r?blk\d?):(\d+)\((\w+)\)", it)
            args.append((m.group(1) + ":" + m.group(2), m.group(3)))
        else:
            res.append(it)
    return name.strip(), res, args


def parse_header(h):
    """'i64, p:buf, i64:a0' -> ([res], [(type,name)])"""
    _, res, args = parse_proto("x: proto " + h)
    return res, args


class LeanOut:
    def __init__(self):
        self.labels = {}

    def lab(self, name):
        if name not in self.labels:
            self.labels[name] = len(self.labels) + 1
        return f"l:{self.labels[name]}"

    def opd(self, o):
        if isinstance(o, tuple):
            if o[0] == "mem":
                _, t, disp, base, index, scale = o
                if t not in INT_TYPES and not t.startswith("blk") and not t.startswith("rblk"):
                    raise Unsupported("mem type " + t)
                return f"m:{t.replace(':', '/')}:{disp & M64:x}:{base or '-'}:{index or '-'}:{scale}"
            raise Unsupported("fp literal")
        if isinstance(o, int):
            return f"i:{o & M64:x}"
        return f"r:{o}"

    def insn(self, ins, protos):
        op = ins[0]
        if op == "label":
            return f"label {self.labels.setdefault(ins[1], len(self.labels) + 1)}"
        if op in FP_DROP:
            return None
        if op in BRANCH0:
            return f"{op} {self.lab(ins[1])}"
        if op in BRANCH1:
            return f"{op} {self.lab(ins[1])} {self.opd(ins[2])}"
        if op in BRANCH2:
            return f"{op} {self.lab(ins[1])} {self.opd(ins[2])} {self.opd(ins[3])}"
        if op == "switch":
            return "switch " + self.opd(ins[1]) + " " + " ".join(self.lab(l) for l in ins[2:])
        if op in ("call", "inline"):
            _, res, args = protos[ins[1]]
            ops = list(ins[3:])
            outs, ins_ = ops[:len(res)], ops[len(res):]
            keep = [o for o, (t, _) in zip(ins_, args) if t not in ("d", "f", "ld")]
            if any(t in ("d", "f", "ld") for t in res):
                raise Unsupported("fp result")
            return f"{op} {ins[2]} {len(res)} " + " ".join(self.opd(o) for o in outs + keep)
        if op == "ret":
            return "ret " + " ".join(self.opd(o) for o in ins[1:])
        if op in INT_OPS3 and len(ins) == 4:
            return f"{op} " + " ".join(self.opd(o) for o in ins[1:])
        if op in INT_OPS2 and len(ins) == 3:
            return f"{op} " + " ".join(self.opd(o) for o in ins[1:])
        raise Unsupported("insn " + op)


def to_lean(P, extra_protos=()):
    """token-format text of all functions of P (None if unsupported)"""
    protos = {}
    for p in list(P.protos) + list(extra_protos):
        n, res, args = parse_proto(p)
        protos[n] = (n, res, args)
    lo = LeanOut()
    out = []
    try:
        for name, header, locs, insns in P.funcs:
            res, args = parse_header(header)
            if any(t in ("d", "f", "ld") for t in res):
                raise Unsupported("fp result")
            args = [(t, n) for t, n in args if t not in ("d", "f", "ld")]
            locnames = [l.split(":", 1)[1] for l in locs if not l.startswith(("d:", "f:", "ld:"))]
            out.append(f"func {name} {len(args)} " + " ".join(f"{n} {t.replace(':', '/')}" for t, n in args) +
                       f" {len(res)} " + " ".join(res) + f" {len(locnames)} " + " ".join(locnames))
            for ins in insns:
                l = lo.insn(ins, protos)
                if l is not None:
                    out.append(l)
            out.append("endfunc")
    except Unsupported:
        return None
    return "\n".join(re.sub(r" +", " ", l).strip() for l in out) + "\n"


# ------------------------------------------------------------------ C output -> canonical lines
def canon_labels(lines):
    """rename L<n> by first occurrence"""
    m = {}

    def ren(mo):
        k = mo.group(0)
        if k not in m:
            m[k] = f"L{len(m)}"
        return m[k]
    return [re.sub(r"\bL\d+\b", ren, l) for l in lines]


def c_operand(o):
    o = o.strip()
    mm = re.match(r"^(\w+):\s*(-?\d+)?(?:\(([^)]*)\))?$", o)
    if mm and mm.group(1) in INT_TYPES:
        t, disp, sib = mm.group(1), mm.group(2), mm.group(3)
        base = index = "-"
        scale = 0
        if sib is not None:
            parts = [x.strip() for x in sib.split(",")]
            base = parts[0] or "-"
            if len(parts) > 1:
                index = parts[1] or "-"
                scale = int(parts[2]) if len(parts) > 2 else 1
        return f"{t}:{int(disp or 0)}:{base}:{index}:{scale if index != '-' else 0}"
    return o


def parse_c_output(text):
    """{func name: [canonical insn lines]} from c04_lower's output"""
    funcs, cur, body = {}, None, False
    for line in text.split("\n"):
        if line.startswith("F "):
            cur = line[2:].strip()
            funcs[cur] = []
            body = False
            continue
        if cur is None:
            continue
        s = line.strip()
        if s.startswith("# "):
            body = True
            continue
        if not body or not s:
            continue
        if s == "endfunc":
            cur = None
            continue
        if re.match(r"^L\d+:$", s):
            funcs[cur].append("label " + s[:-1])
            continue
        parts = s.split(None, 1)
        op = parts[0]
        ops = [c_operand(x) for x in parts[1].split(", ")] if len(parts) > 1 else []
        if op in ("call", "inline"):
            ops = ops[1:]   # drop the prototype
        funcs[cur].append(" ".join([op] + ops))
    return {k: canon_labels(v) for k, v in funcs.items()}


def parse_lean_lower(text):
    funcs, cur = {}, None
    for line in text.split("\n"):
        if line.startswith("F "):
            cur = line[2:].strip()
            funcs[cur] = []
        elif line == "END":
            cur = None
        elif cur is not None and line.strip():
            funcs[cur].append(line.strip())
    return {k: canon_labels(v) for k, v in funcs.items()}
