"""C01 — generated machine code behaves like the interpreter at every optimization level.

proof gate : Props/C01.lean — GVN fold table = interpreter arithmetic = documentation, folder never
             evaluates a trapping division, reverse/combined/commutative branch tables, mul/div by 2^k
             rewrites (with the guards the code checks), store->load forwarding, address re-association;
             tables and pinned texts regenerated from mir-gen.c / mir.c by translate/c01_tables.py.
tie        : (1) corpus of minimised past failures; (2) random well-defined MIR programs (any CFG incl.
             irreducible loops and switch, 64/32-bit/f/d code, memory operands of every form, alloca,
             overflow insns, calls to logged externals and to MIR helpers) executed by MIR_interp, the
             interpreter's C interface and MIR_gen -O0..-O3; results, the harness-owned buffer and the
             external-call log must coincide.  Failures are isolated per program and shrunk."""
import os, re, sys, json, glob, shutil, subprocess
from vf import Check, VERIF, REPO
import mirgen, progtie

ENGINES = ["interp", "interpc", "gen0", "gen1", "gen2", "gen3"]

KNOWN_ABORT = [
    (re.compile(r"Fatal failure in matching insn:\s+(addos|subos|mulos|umulos|adds|subs|muls|ands|ors|xors|ults|ules|ugts|uges|lts|les|gts|ges|eqs|nes)\s+hr\d+, hr\d+, i64:"),
     "C01:gen-abort-32bit-insn-i64-spill-slot"),
]


def classify(f):
    if f["kind"] == "engine-abort":
        txt = " ".join(str(r) for r in f["results"])
        for rx, sig in KNOWN_ABORT:
            if rx.search(txt):
                return sig
    return None


TSZ = {1: "u8", 2: "u16", 4: "u32", 8: "u64"}


def search_exprs(ck, exe, work):
    """search stage for a broken proof about the translated decision expressions: evaluate the
    expression as the code has it now against its specification on a small grid, then replay a
    counterexample on the real generator with a program built from it"""
    try:
        ex = json.load(open(os.path.join(VERIF, ".cache", "c01_exprs.json")))
    except Exception:
        return
    for d1 in range(0, 17):
        for d2 in range(0, 17):
            for size1 in (1, 2, 4, 8):
                for size2 in (1, 2, 4, 8):
                    got = bool(eval(ex["intersect"], {}, dict(disp1=d1, disp2=d2, size1=size1, size2=size2)))
                    want = max(d1, d2) < min(d1 + size1, d2 + size2)
                    if got == want:
                        continue
                    # loc1 = the later load, loc2 = the earlier store (argument order of the DSE query is
                    # not known here: try both)
                    for (ls, ss, ld, sd) in ((size1, size2, d1, d2), (size2, size1, d2, d1)):
                        text = (f"m: module\nexport f\nf: func i64, i64:a, i64:b\n  local i64:p, i64:q, i64:r\n  alloca p, 64\n"
                                f"  mov u64:(p), 0\n  mov u64:8(p), 0\n  mov u64:16(p), 0\n  mov u64:24(p), 0\n"
                                f"  mov {TSZ[ss]}:{sd}(p), a\n  add q, p, {ld}\n  mov r, {TSZ[ls]}:(q)\n  mov {TSZ[ss]}:{sd}(p), b\n"
                                f"  mov q, {TSZ[ss]}:{sd}(p)\n  add r, r, q\n  ret r\n  endfunc\n  endmodule\n")
                        plan = "call f ii_i 1122334455667788 0\ncall f ii_i ffffffffffffffff 1\n"
                        rc, lines, err = progtie.run_engine(exe, ENGINES, text, plan, work, "exprsearch", timeout=60)
                        badl = [l for l in lines if l.startswith("R ") and " | =" not in l] + [l for l in lines if l.startswith("E ")]
                        if rc != 0 or badl:
                            ck.violation({"stage": "search", "theorem": "intersect_spec (Props/C01Exprs.lean)",
                                          "counterexample": {"disp1": d1, "disp2": d2, "size1": size1, "size2": size2,
                                                             "code_says_overlap": got, "bytes_overlap": want},
                                          "mir": text, "plan": plan, "engines": ENGINES, "lines": badl[:4]},
                                         what=f"alloca_mem_intersect_p answers {got} for disp1={d1} size1={size1} disp2={d2} size2={size2} "
                                              f"although the byte ranges {'do' if want else 'do not'} overlap; program built from it: {badl[:1]}")
                            return
                    ck.broken_ties.append({"kind": "theorem", "name": "intersect_spec", "counterexample": [d1, d2, size1, size2],
                                           "note": "expression differs from its specification but the generated program did not expose it"})
                    return
    spec = {"int8_p": (-128, 127), "uint8_p": (0, 255), "int16_p": (-32768, 32767), "uint16_p": (0, 65535),
            "int32_p": (-2 ** 31, 2 ** 31 - 1), "uint32_p": (0, 2 ** 32 - 1)}
    for fn, expr in ex.get("ranges", {}).items():
        lo, hi = spec[fn]
        for v in (lo - 2, lo - 1, lo, lo + 1, -1, 0, 1, hi - 1, hi, hi + 1, hi + 2, 2 * hi + 1, 2 * hi + 2):
            got = bool(eval(expr, {}, dict(v=v)))
            if got and not (lo <= v <= hi):
                # the predicate admits a constant its immediate field cannot carry: use it as an immediate everywhere
                text = ("m: module\nexport f\nf: func i64, i64:a, i64:b\n  local i64:p, i64:r, i64:q\n  alloca p, 32\n"
                        f"  add r, a, {v}\n  and q, a, {v}\n  xor r, r, q\n  mov i64:8(p), {v}\n  xor r, r, i64:8(p)\n"
                        f"  mov i32:16(p), {v}\n  xor r, r, u32:16(p)\n  mul q, b, {v}\n  xor r, r, q\n  lt q, a, {v}\n  add r, r, q\n"
                        f"  ult q, b, {v}\n  add r, r, q\n  adds q, b, {v}\n  ext32 q, q\n  xor r, r, q\n"
                        f"  bgt T1, a, {v}\n  add r, r, 7\nT1:\n  ret r\n  endfunc\n  endmodule\n")
                plan = "call f ii_i 0 1\ncall f ii_i 7fffffff 3\ncall f ii_i ffffffffffffff80 ffffffff\n"
                rc, lines, err = progtie.run_engine(exe, ENGINES, text, plan, work, "immsearch", timeout=60)
                badl = [l for l in lines if l.startswith("R ") and " | =" not in l] + [l for l in lines if l.startswith("E ")]
                if rc != 0 or badl:
                    ck.violation({"stage": "search", "theorem": "imm_signed_sound / imm_unsigned_sound (Props/C01Exprs.lean)",
                                  "counterexample": {"predicate": fn, "v": v}, "mir": text, "plan": plan, "engines": ENGINES,
                                  "lines": badl[:4]},
                                 what=f"{fn} accepts {v}, which its immediate field cannot carry; a program using it as an immediate: {(badl + [err[-100:]])[0][:160]}")
                    return
                ck.broken_ties.append({"kind": "theorem", "name": "imm_sound", "predicate": fn, "v": v,
                                       "note": "predicate too wide but the targeted program did not expose it"})
                return
    for a1 in range(3):
        for a2 in range(3):
            for n1 in range(3):
                for n2 in range(3):
                    got = bool(eval(ex["may_alias"], {}, dict(alias1=a1, alias2=a2, nonalias1=n1, nonalias2=n2)))
                    want = (a1 == 0 or a2 == 0 or a1 == a2) and not (n1 != 0 and n2 != 0 and n1 == n2)
                    if got != want:
                        if want and not got:
                            # the code denies an aliasing the annotations allow: make the two accesses really alias
                            nm = {0: "", 1: "x", 2: "y"}

                            def ann(a, n):
                                return (":" + nm[a] if a else "") + ((":" if not a else "") + ":" + nm[n] if n else "")
                            m1, m2 = "i64:0(p)" + ann(a1, n1), "i64:0(p)" + ann(a2, n2)
                            for (x, y) in ((m1, m2), (m2, m1)):
                                text = (f"m: module\nexport f\nf: func i64, i64:a, i64:b\n  local i64:p, i64:r\n  alloca p, 32\n"
                                        f"  mov {x}, a\n  mov {y}, b\n  mov r, {x}\n  ret r\n  endfunc\n  endmodule\n")
                                plan = "call f ii_i 1111 2222\n"
                                rc, lines, err = progtie.run_engine(exe, ENGINES, text, plan, work, "aliassearch", timeout=60)
                                badl = [l for l in lines if l.startswith("R ") and " | =" not in l] + [l for l in lines if l.startswith("E ")]
                                if rc != 0 or badl:
                                    ck.violation({"stage": "search", "theorem": "may_alias_spec (Props/C01Exprs.lean)",
                                                  "counterexample": {"alias1": a1, "alias2": a2, "nonalias1": n1, "nonalias2": n2,
                                                                     "code_says_may_alias": got, "spec": want},
                                                  "mir": text, "plan": plan, "engines": ENGINES, "lines": badl[:4]},
                                                 what=f"may_alias_p denies aliasing for alias sets ({a1},{a2}) nonalias ({n1},{n2}) although the "
                                                      f"annotations allow it; a store between an annotated store and its reload is ignored: {badl[:1]}")
                                    return
                        ck.broken_ties.append({"kind": "theorem", "name": "may_alias_spec", "counterexample": [a1, a2, n1, n2],
                                               "code_says": got, "spec_says": want})
                        return


BR = ["beq", "bne", "blt", "ublt", "ble", "uble", "bgt", "ubgt", "bge", "ubge"]
BRVALS = [0, 1, 5, 0x7fffffff, 0x80000000, 0xffffffff, 0x100000000, 0x100000005, 0x7fffffffffffffff,
          0x8000000000000000, 0xffffffffffffffff]


def branch_shapes(ck, exe, work):
    """every integer compare-and-branch in the operand forms the combiner and the simplifier rewrite with their
    tables (operand swap to fold a load: commutative_insn_code; branch over jump: MIR_reverse_branch_code;
    compare + bt/bf: get_combined_br_code), over a boundary grid incl. equal operands and dirty upper halves"""
    funcs, names = [], []
    tail = "  mov r, 0\n  ret r\n{t}:\n  mov r, 1\n  ret r\n"
    n = 0
    for b in BR:
        for sfx in ("", "s"):
            op = b + sfx
            cmpop = {"beq": "eq", "bne": "ne", "blt": "lt", "ublt": "ult", "ble": "le", "uble": "ule", "bgt": "gt",
                     "ubgt": "ugt", "bge": "ge", "ubge": "uge"}[b] + sfx
            shapes = {
                "rr": f"  {op} {{t}}, a, b\n" + tail,
                "ld1": f"  alloca p, 32\n  mov i64:8(p), a\n  mov x, i64:8(p)\n  {op} {{t}}, x, b\n" + tail,
                "ld2": f"  alloca p, 32\n  mov i64:8(p), b\n  mov x, i64:8(p)\n  {op} {{t}}, a, x\n" + tail,
                "m1": f"  alloca p, 32\n  mov i64:8(p), a\n  {op} {{t}}, i64:8(p), b\n" + tail,
                "m2": f"  alloca p, 32\n  mov i64:8(p), b\n  {op} {{t}}, a, i64:8(p)\n" + tail,
                "overjmp": f"  {op} {{t}}, a, b\n  jmp {{f}}\n{{t}}:\n  mov r, 1\n  ret r\n{{f}}:\n  mov r, 0\n  ret r\n",
                "cmp-bt": f"  {cmpop} x, a, b\n  bt {{t}}, x\n" + tail,
                "cmp-bf": f"  {cmpop} x, a, b\n  bf {{t}}, x\n" + tail,
                "ld1-cmp-bts": f"  alloca p, 32\n  mov i64:8(p), a\n  mov y, i64:8(p)\n  {cmpop} x, y, b\n  bts {{t}}, x\n" + tail,
            }
            for sh, body in shapes.items():
                n += 1
                fn = f"s{n}_{op}_{sh.replace('-', '_')}"
                names.append(fn)
                funcs.append(f"{fn}: func i64, i64:a, i64:b\n  local i64:r, i64:p, i64:x, i64:y\n" + body.format(t=f"T{n}", f=f"F{n}") + "  endfunc\n")
    nint = len(names)
    sigs = {fn: "ii_i" for fn in names}
    # floating-point compares: a branch, and a compare feeding bt / bf (the false branch of a combined pair must
    # not become the opposite compare: unordered operands)
    DV = [0, 1 << 63, 0x3ff0000000000000, 0xbff0000000000000, 0x4004000000000000, 0x7ff0000000000000, 0xfff0000000000000,
          0x7ff8000000000000, 0xfff8000000000001, 1]
    FV = [0, 1 << 31, 0x3f800000, 0xbf800000, 0x40200000, 0x7f800000, 0xff800000, 0x7fc00000, 0xffc00001, 1]
    for pfx, sig in (("f", "ff_i"), ("d", "dd_i")):
        for c in ("eq", "ne", "lt", "le", "gt", "ge"):
            shapes = {"br": f"  {pfx}b{c} {{t}}, a, b\n" + tail,
                      "cmp-bt": f"  {pfx}{c} x, a, b\n  bt {{t}}, x\n" + tail,
                      "cmp-bf": f"  {pfx}{c} x, a, b\n  bf {{t}}, x\n" + tail,
                      "cmp-bts": f"  {pfx}{c} x, a, b\n  bts {{t}}, x\n" + tail,
                      "cmp-bfs": f"  {pfx}{c} x, a, b\n  bfs {{t}}, x\n" + tail}
            for sh, body in shapes.items():
                n += 1
                fn = f"s{n}_{pfx}{c}_{sh.replace('-', '_')}"
                names.append(fn)
                sigs[fn] = sig
                funcs.append(f"{fn}: func i64, {pfx}:a, {pfx}:b\n  local i64:r, i64:x\n" + body.format(t=f"T{n}", f=f"F{n}") + "  endfunc\n")
    text = "m: module\nexport " + ", ".join(names) + "\n" + "".join(funcs) + "endmodule\n"
    plan = ("ivals " + " ".join(f"{v:x}" for v in BRVALS) + "\ndvals " + " ".join(f"{v:x}" for v in DV) + "\nfvals "
            + " ".join(f"{v:x}" for v in FV) + "\n" + "".join(f"grid {fn} {sigs[fn]} any\n" for fn in names))
    rc, lines, err = progtie.run_engine(exe, ENGINES, text, plan, work, "brshapes", timeout=300, quiet=False)
    rl = [l for l in lines if l.startswith("R ")]
    bad = [l for l in rl if " | =" not in l]
    errs = [l for l in lines if l.startswith("E ")]
    want = nint * len(BRVALS) ** 2 + (len(names) - nint) * len(DV) ** 2
    if rc != 0 or errs or len(rl) != want:
        ck.broken_ties.append({"kind": "harness", "name": "branch-shapes", "rc": rc, "lines": len(rl), "expected": want,
                               "errors": errs[:3], "stderr": err[-300:]})
        return len(rl)
    seen = set()
    for l in bad:
        fn = l.split()[1]
        if fn in seen:
            continue
        seen.add(fn)
        if len(seen) > 4:
            break
        a, b2 = l.split(" |")[0].split()[2:4]
        i = names.index(fn)
        one = "m: module\nexport " + fn + "\n" + funcs[i] + "endmodule\n"
        ck.violation({"stage": "branch-shapes", "function": fn, "mir": one, "plan": f"call {fn} {sigs[fn]} {a} {b2}\n", "engines": ENGINES,
                      "line": l, "how_to_rerun": "./check C01 --replay <this file>"},
                     what=f"compare-and-branch shape {fn} with a={a} b={b2}: engines disagree: {l.split(' |')[1][:120]}")
    return len(rl)


TRAP = ["DIV", "DIVS", "UDIV", "UDIVS", "MOD", "MODS", "UMOD", "UMODS"]
FLAG = ["ADDO", "ADDOS", "SUBO", "SUBOS", "MULO", "MULOS", "UMULO", "UMULOS"]


def search_effects(ck, exe, work):
    """search stage for broken theorems about the do-not-move / do-not-delete opcode lists: for every trapping
    or flag-setting opcode that loop_invariant_p accepts now, run a loop whose body holds that instruction with
    invariant operands behind a guard (trap) or in front of its overflow branch (flag)"""
    try:
        gen = open(os.path.join(VERIF, "lean", "MirVerif", "Gen", "C01_Effects.lean")).read()
        excl = set(re.findall(r'"(\w+)"', re.search(r"def licmExcluded : List String := \[(.*?)\]", gen).group(1)))
    except Exception:
        return
    for op in [c for c in TRAP + FLAG if c not in excl]:
        lo = op.lower()
        if op in TRAP:
            body = (f"  beq skip, b, 0\n  {lo} t, a, b\n  add s, s, t\nskip:\n")
            plan = "call f ii_i 7 0\ncall f ii_i 7 2\n"
        else:
            body = (f"  {lo} t, a, b\n  {'ubno' if op[0] == 'U' else 'bno'} skip\n  add s, s, 1000\nskip:\n  add s, s, t\n")
            plan = "call f ii_i 7fffffffffffffff 7fffffffffffffff\ncall f ii_i 7fffffff 7fffffff\ncall f ii_i 1 2\n"
        text = ("m: module\nexport f\nf: func i64, i64:a, i64:b\n  local i64:s, i64:t, i64:n\n  mov s, 0\n  mov n, 3\nloop:\n" + body +
                "  sub n, n, 1\n  bgt loop, n, 0\n  ret s\n  endfunc\n  endmodule\n")
        rc, lines, err = progtie.run_engine(exe, ENGINES, text, plan, work, "effsearch", timeout=60)
        bad = [l for l in lines if l.startswith("R ") and " | =" not in l] + [l for l in lines if l.startswith("E ")]
        if rc != 0 or bad:
            ck.violation({"stage": "search", "theorem": "licm_hoists_only_pure (Props/C01Effects.lean)", "opcode": op,
                          "mir": text, "plan": plan, "engines": ENGINES, "lines": bad[:4]},
                         what=f"loop_invariant_p accepts {op}: a guarded/flag-coupled {lo} with loop-invariant operands is hoisted: {(bad + [err[-100:]])[0][:160]}")
            return
        ck.broken_ties.append({"kind": "theorem", "name": "licm_hoists_only_pure", "opcode": op,
                               "note": "opcode no longer excluded from hoisting but the targeted loop program did not expose it"})


def search_patterns(ck, exe, work):
    """search stage for a broken pattern_fields_carry_operands: find the rows of the regenerated table whose
    immediate field is narrower than the operand constraint and run the instruction with constants the
    constraint admits but the field cannot carry"""
    try:
        gen = open(os.path.join(VERIF, "lean", "MirVerif", "Gen", "C01_Patterns.lean")).read()
    except Exception:
        return
    bits = {"0": 8, "1": 16, "2": 32, "3": 64}
    for m in re.finditer(r'⟨"(\w+)", \[(.*?)\], \[(.*?)\]⟩', gen):
        code, pat, repl = m.group(1), [t.strip() for t in m.group(2).split(",")], m.group(3)
        for f in re.finditer(r"\.imm (\d+) (\d)", repl):
            fb, n = int(f.group(1)), int(f.group(2))
            if n >= len(pat):
                continue
            pt = pat[n]
            k = re.fullmatch(r"\.same (\d)", pt)
            if k:
                pt = pat[int(k.group(1))]
            pm = re.fullmatch(r"\.imm (\d)", pt)
            if not pm or bits[pm.group(1)] <= fb:
                continue
            pb = bits[pm.group(1)]
            vals = [2 ** (fb - 1), 2 ** fb - 1, -(2 ** (fb - 1)) - 1]
            lo = code.lower()
            for v in vals:
                if code in ("MOV",):
                    body = f"  mov r, {v}\n  mov i64:8(p), {v}\n  xor r, r, i64:8(p)\n  add r, r, a\n"
                elif lo.startswith(("b", "ub")) and lo not in ("bt", "bf", "bts", "bfs", "bstart", "bend"):
                    body = f"  mov r, 0\n  {lo} T1, a, {v}\n  mov r, 7\nT1:\n  mov i64:8(p), a\n  {lo} T2, i64:8(p), {v}\n  add r, r, 9\nT2:\n"
                else:
                    body = (f"  {lo} r, a, {v}\n  mov i64:8(p), a\n  {lo} i64:8(p), i64:8(p), {v}\n  xor r, r, i64:8(p)\n"
                            f"  mov q, a\n  {lo} q, q, {v}\n  xor r, r, q\n")
                text = ("m: module\nexport f\nf: func i64, i64:a, i64:b\n  local i64:p, i64:r, i64:q\n  alloca p, 32\n" + body +
                        "  ret r\n  endfunc\n  endmodule\n")
                plan = "call f ii_i 0 1\ncall f ii_i 7fffffff 3\ncall f ii_i ffffffffffffff80 ffffffff\ncall f ii_i 80 7\n"
                rc, lines, err = progtie.run_engine(exe, ENGINES, text, plan, work, "patsearch", timeout=60)
                badl = [l for l in lines if l.startswith("R ") and " | =" not in l]
                if rc == 0 and badl:
                    ck.violation({"stage": "search", "theorem": "pattern_fields_carry_operands (Props/C01Patterns.lean)",
                                  "row": m.group(0)[:200], "mir": text, "plan": plan, "engines": ENGINES, "lines": badl[:4]},
                                 what=f"pattern row for {code} puts an operand admitted up to {pb} bits into a {fb}-bit immediate field; "
                                      f"with the constant {v}: {badl[0][:140]}")
                    return
            ck.broken_ties.append({"kind": "theorem", "name": "pattern_fields_carry_operands", "row": m.group(0)[:200],
                                   "note": "field narrower than the constraint but the targeted programs did not expose it"})
            return


def run_corpus(ck, exe, work):
    n = 0
    for mir in sorted(glob.glob(os.path.join(VERIF, "corpus", "C01", "*.mir"))):
        plan = mir[:-4] + ".plan"
        if not os.path.exists(plan):
            continue
        text, pl = open(mir).read(), open(plan).read()
        rc, lines, err = progtie.run_engine(exe, ENGINES, text, pl, work, "corpus", timeout=60)
        bad = [l for l in lines if (l.startswith("R ") or l.startswith("P ")) and " | =" not in l]
        errs = [l for l in lines if l.startswith("E ")]
        nl = len([l for l in lines if l.startswith("R ") or l.startswith("P ")])
        n += nl
        want = len([l for l in pl.split("\n") if l.strip()])
        if rc != 0 or errs or bad or nl != want:
            ck.violation({"stage": "corpus", "file": os.path.relpath(mir, VERIF), "plan": pl, "rc": rc,
                          "engines": ENGINES, "lines": (bad + errs)[:5], "stderr": err[-400:], "mir": text,
                          "how_to_rerun": f"harness engine {','.join(ENGINES)} {os.path.relpath(mir, VERIF)} < plan"},
                         what=f"corpus program {os.path.basename(mir)} (a repaired defect) fails again: {(bad + errs + [err.strip()[-120:]])[0][:200]}")
    return n


def main():
    ck = Check("C01")
    quick = ck.tier == "quick"
    gate_ok = ck.proof_gate(["MirVerif.Props.C01", "MirVerif.Props.C01Exprs", "MirVerif.Props.C01PhiElim", "MirVerif.Props.C01Effects", "MirVerif.Props.C01Patterns"],
                  support_modules=["MirVerif.Model.GenTable", "MirVerif.Model.GenCanon", "MirVerif.Lemmas.GenTable",
                                   "MirVerif.Lemmas.GenPow2", "MirVerif.Lemmas.GenExt",
                                   "MirVerif.Model.PhiElim", "MirVerif.Lemmas.PhiElim", "MirVerif.Model.Effects", "MirVerif.Model.Patterns"],
                  bridge_modules=["MirVerif.Lemmas.BridgeC01", "MirVerif.Lemmas.BridgeC02"],
                  translators=["c01_tables.py", "c02_tables.py", "c01_exprs.py", "c01_effects.py", "c01_patterns.py"])
    if not quick:
        ck.leanchecker(["MirVerif.Props.C01"])
    exe = ck.cc("engine", ["harness/engine.c", os.path.join(REPO, "mir.c"), os.path.join(REPO, "mir-gen.c")],
                flags=["-O1", "-g", "-DNDEBUG", "-w"])
    if exe is None:
        ck.broken_ties.append({"kind": "harness-compile", "name": "engine", "log": ck.last_cc_log[-1500:]})
        ck.finish()
    work = os.path.join(VERIF, ".cache", f"c01_{os.getpid()}")
    os.makedirs(work, exist_ok=True)
    if ck.replay:
        rep = json.load(open(ck.replay))
        rc, lines, err = progtie.run_engine(exe, rep.get("engines", ENGINES), rep["mir"], rep["plan"], work, "replay", timeout=120)
        bad = [l for l in lines if (l.startswith("R ") or l.startswith("P ")) and " | =" not in l] + [l for l in lines if l.startswith("E ")]
        ck.cov.update(evaluations=1, distinct_nontrivial=2, rule="replay of one saved program")
        ck.sample({"replay": ck.replay, "lines": lines[:6]})
        if rc != 0 or bad:
            ck.violation(dict(rep, observed_now=(bad + [err[-200:]])[:4]), what="replayed program still fails: " + str((bad + [err[-120:]])[0])[:200])
        shutil.rmtree(work, ignore_errors=True)
        ck.finish()
    if not gate_ok:
        search_exprs(ck, exe, work)
        search_effects(ck, exe, work)
        search_patterns(ck, exe, work)
    ncorp = run_corpus(ck, exe, work)
    ncorp += branch_shapes(ck, exe, work)
    nprogs = 6000 if quick else 120000
    opts = dict(jmpi=True, xcalls=True)
    fails, nev, stats, pwork = progtie.run_programs(ck, exe, ENGINES, nprogs, opts=opts, per_batch=25 if quick else 60,
                                                    budget_s=420 if quick else 3000)
    if stats.get("skipped_batches"):
        ck.log(f"time budget used up: {stats['skipped_batches']} program batches not run")
        if not fails:
            ck.broken_ties.append({"kind": "budget", "name": "program tie", "skipped_batches": stats["skipped_batches"],
                                   "note": "generated code or the generator hangs: batches ran into the per-call alarm"})
    seen = {}
    for f in fails:
        sig = classify(f)
        key = sig or (f["kind"], str(f["results"])[:80] if f["kind"] == "engine-abort" else
                      str([r.endswith("*") or r.startswith("!") for r in f["results"]]))
        seen.setdefault(key, []).append(f)
    reported = 0
    for key, fl in seen.items():
        f = fl[0]
        sig = classify(f)
        text = f["prog"].text()
        plan = progtie.plan_for([f["entry"]], mirgen.ARGSETS) if not f["args"] else "prog " + f["entry"] + " " + " ".join(f["args"]) + "\n"
        if sig is None and reported < 4:
            try:
                text = progtie.shrink_text(exe, ENGINES, text, plan, f["entry"], work, kind=f["kind"], budget=80 if quick else 200)
            except Exception as ex:   # shrinking is best effort
                ck.log("shrink failed:", ex)
        if sig is not None or reported < 8:
            ck.violation({"stage": "programs", "kind": f["kind"], "entry": f["entry"], "plan": plan, "engines": ENGINES,
                          "results_per_engine": f["results"], "mir": text, "same_class_count": len(fl),
                          "how_to_rerun": "./check C01 --replay <this file>"},
                         what=(f"engines disagree on a well-defined program ({f['entry']}, args {f['args']}): " +
                               " ".join(f"{e}={r}" for e, r in zip(ENGINES, f["results"])))[:400]
                         if f["kind"] == "engines-differ" else
                         f"an engine aborted while loading/generating a well-defined program: {str(f['results'])[:200]}",
                         signature=sig)
            reported += 1
    ck.cov["evaluations"] = (nev + ncorp) * len(ENGINES)
    ck.cov["distinct_nontrivial"] = nprogs
    ck.cov["programs"] = nprogs
    ck.cov["rule"] = ("random well-defined MIR programs from lib/mirgen.py (seeded by VERIF_SEED), each with 2 helper functions, "
                      f"{len(mirgen.ARGSETS)} argument sets, engines {ENGINES}; every generated program is distinct (fresh PRNG draws) and "
                      "non-trivial (>= 1 basic block with arithmetic, memory or control flow; see distribution); plus the corpus of "
                      "minimised past failures")
    ck.cov["distribution"] = {"generated_constructs": stats, "corpus_evaluations": ncorp, "failure_classes": len(seen),
                              "options": opts}
    P, es = mirgen.gen_program(ck.rng, "sample")
    ck.sample({"program_text_head": P.text().split("\n")[:40]})
    ck.cov["exhaustive"] = False
    ck.assumptions += ["SSA construction, LICM, register allocation, combine and the x86 encoder are exercised, not modelled",
                                              "engines are built as shipped (-DNDEBUG)"]
    shutil.rmtree(work, ignore_errors=True)
    shutil.rmtree(pwork, ignore_errors=True)
    ck.finish()


main()
