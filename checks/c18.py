"""C18 -- independent contexts can be used from different threads without interference.

Stages (DESIGN 2.3):
  1. translate/c18_inventory.py regenerates Gen/C18_Inventory.lean (+ .json) from the current tree:
     every non-const object with static storage duration of the library TUs and its write sites.
  2. proof gate: Props/C18.lean -- commute, swap_adjacent, interleaving_irrelevant,
     shared_never_written, shared_write_interferes, inventory_sites_allowed (per-run obligation on the
     regenerated inventory), code_interleaving_irrelevant_partial.
  3. static verdict: every written inventory object is a listed known finding (KNOWN-FINDING), a
     reviewed read-only address escape, or a VIOLATION naming object and write site.
  4. tie: harness/c18_threads.c under ThreadSanitizer, N in {2,4,8} threads with private contexts;
     per-thread results are compared with the sequential run; every TSan report must be explained by
     the inventory (object AND writing function); reports on known findings are counted.
  5. model correspondence: the observed phase interleavings are replayed in the Lean model
     (mirdrv_c18) with the footprints the inventory predicts; synthetic traces test the executable
     model against the theorem.
"""
import hashlib, json, os, re, subprocess, sys, time
from concurrent.futures import ThreadPoolExecutor
from vf import Check, VERIF, REPO, CACHE, LEAN, file_hash, repo_sources, sh

ck = Check("C18")
PID = "C18"
GENJ = os.path.join(LEAN, "MirVerif", "Gen", "C18_Inventory.json")
TSAN_ENV = dict(os.environ, TSAN_OPTIONS="exitcode=0 history_size=7 halt_on_error=0 report_thread_leaks=0 handle_abort=1")


def sig(o):
    return f"C18:shared-write:{o['file']}:{o['object']}"


# ------------------------------------------------------------------ 1+2: inventory and proof gate
proof_ok = ck.proof_gate(["MirVerif.Props.C18"],
                         support_modules=["MirVerif.Model.Footprint", "MirVerif.Model.FootprintAllowed",
                                          "MirVerif.Lemmas.Footprint", "MirVerif.Gen.C18_Inventory"],
                         exes=["mirdrv_c18"], translators=["c18_inventory.py"])
if ck.tier == "thorough" and proof_ok and not ck.leanchecker(["MirVerif.Props.C18"]):
    # the .olean can disappear under a concurrent lake build of the same module: rebuild and retry once
    ck.broken_ties[:] = [b for b in ck.broken_ties if b.get("kind") != "leanchecker"]
    ck.lake(["MirVerif.Props.C18"])
    ck.leanchecker(["MirVerif.Props.C18"])
try:
    inv = json.load(open(GENJ))
    if os.path.realpath(inv.get("repo", "")) != os.path.realpath(REPO):
        raise RuntimeError("inventory json was generated for " + str(inv.get("repo")))
except Exception as e:  # translator failed: nothing below can be trusted
    ck.broken_ties.append({"kind": "translator", "name": "c18_inventory.py", "log": str(e)})
    ck.finish()
objs = inv["objects"]
written = [o for o in objs if o["writes"]]
ck.cov["trusted_base"] += ["clang-14 -ast-dump=json (translate/c18_inventory.py)",
                           "gcc -fsanitize=thread (harness/c18_threads.c)"]
ck.stage("inventory", objects=len(objs), written=len(written), stats=inv.get("stats"))
ck.log(f"inventory: {len(objs)} non-const static objects, {len(written)} with write sites")

# hand classification: single source is the Lean file, printed by the driver
known_keys, reviewed_sites = set(), set()
try:
    rc, out, err = ck.drv("mirdrv_c18", ["allowed"])
    for line in out.split("\n"):
        w = line.split(" ")
        if w[0] == "KNOWN" and len(w) == 3:
            known_keys.add((w[1], w[2]))
        elif w[0] == "REVIEWED" and len(w) == 5:
            reviewed_sites.add(tuple(w[1:]))
except Exception as e:
    ck.broken_ties.append({"kind": "driver", "name": "mirdrv_c18 allowed", "log": str(e)})
if not known_keys and not reviewed_sites:   # fall back to the source text (driver not built)
    src = open(os.path.join(LEAN, "MirVerif", "Model", "FootprintAllowed.lean")).read()
    kf = src[src.index("def knownFindings"):src.index("def reviewedEscapes")]
    known_keys = set(re.findall(r'\("([^"]+)", "([^"]+)"\)', kf))
    rv = src[src.index("def reviewedEscapes"):src.index("def siteAllowed")]
    reviewed_sites = set(re.findall(r'\("([^"]+)", "([^"]+)", "([^"]+)", "([^"]+)"\)', rv))


def classify_obj(o):
    k = (o["file"], o["object"])
    if k in known_keys:
        return "known"
    bad = [w for w in o["writes"] if (o["file"], o["object"], w["fn"], w["kind"]) not in reviewed_sites]
    return "reviewed" if not bad else "unexpected"


status = {(o["file"], o["object"]): classify_obj(o) for o in written}
unexpected = [o for o in written if status[(o["file"], o["object"])] == "unexpected"]
if unexpected:
    ck.log("UNEXPECTED written static objects: " +
           ", ".join(f"{o['file']}:{o['object']} <- {[w['fn'] + '/' + w['kind'] for w in o['writes']]}" for o in unexpected))
if proof_ok and unexpected:
    ck.broken_ties.append({"kind": "consistency", "name": "Lean obligation passed but python sees unexpected sites"})
if (not proof_ok) and unexpected:
    # the failing obligation is inventory_sites_allowed; it is explained by the violations reported below
    for b in ck.broken_ties:
        if b.get("kind") == "lake-build":
            b["explained_by"] = [f"{o['file']}:{o['object']}" for o in unexpected]


# ------------------------------------------------------------------ 4: TSan harness
def build_tsan():
    return build_harness("c18_threads", ["mir.c", "mir-gen.c", "c2mir/c2mir.c", "mir2c/mir2c.c"], ["-fsanitize=thread"])


def build_harness(name, tus, san):
    """objects of the library TUs and the harness, compiled in parallel (with the sanitizer flags `san`),
    cached by content hash of /repo's sources + harness + flags (same rule as Check.cc)."""
    flags = ["-O1", "-g", *san, "-I" + REPO, "-I" + os.path.join(VERIF, "harness"), "-DMIR_VERIF"]
    hsrc = os.path.join(VERIF, "harness", name + ".c")
    key = file_hash(repo_sources() + [hsrc], " ".join(flags))
    d = os.path.join(CACHE, "bin")
    os.makedirs(d, exist_ok=True)
    exe = os.path.join(d, f"{name}-{key}")
    if os.path.exists(exe):
        return exe, ""
    stale = sorted((os.path.join(d, f) for f in os.listdir(d) if f.startswith(name + "-")), key=os.path.getmtime)
    for f in stale[:-3]:       # keep a few: mutant / fix trees alternate with the clean tree
        try:
            os.remove(f)
        except OSError:
            pass
    od = os.path.join(CACHE, "c18obj-" + name + key)
    os.makedirs(od, exist_ok=True)
    srcs = [hsrc] + [os.path.join(REPO, f) for f in tus]
    t = time.time()

    def comp(s):
        o = os.path.join(od, os.path.basename(s)[:-2] + ".o")
        return o, sh(["gcc", *flags, "-c", s, "-o", o])
    with ThreadPoolExecutor(max_workers=5) as ex:
        res = list(ex.map(comp, srcs))
    log = "".join(out for _, (rc, out) in res if rc != 0)
    if log:
        ck.log(f"cc {name} failed\n{log[-3000:]}")
        return None, log
    rc, out = sh(["gcc", *san, *[o for o, _ in res], "-o", exe + ".tmp", "-lm", "-ldl", "-lpthread"])
    subprocess.run(["rm", "-rf", od])
    if rc != 0:
        return None, out
    os.replace(exe + ".tmp", exe)
    ck.log(f"cc {name} ({' '.join(san) or 'plain'}): {time.time() - t:.1f}s")
    return exe, ""


def parse_tsan(text):
    reps = []
    for blk in text.split("=================="):
        m = re.search(r"WARNING: ThreadSanitizer: ([^\n(]+)", blk)
        if not m:
            continue
        rep = {"type": m.group(1).strip(), "accesses": [], "location": None, "global": None, "text": blk.strip()[:6000],
               "complete": "SUMMARY: ThreadSanitizer" in blk}
        cur = None
        for line in blk.split("\n"):
            a = re.match(r"\s+((?:Previous )?(?:[Aa]tomic )?(?:[Ww]rite|[Rr]ead)) of size (\d+) at (0x[0-9a-f]+) by ([^:]+):", line)
            if a:
                cur = {"op": a.group(1).lower(), "thread": a.group(4), "stack": []}
                rep["accesses"].append(cur)
                continue
            f = re.search(r"(?:^|\s)#\d+ (\S+) (\S+)", line)   # stderr of other threads may be interleaved into a line
            if f and cur is not None:
                cur["stack"].append((f.group(1), f.group(2)))
                continue
            if re.match(r"\s+(Location is|Thread T|As if synchronized|Mutex |SUMMARY)", line) or line.startswith("SUMMARY"):
                cur = None
            tt = re.match(r"\s+Thread (T\d+) \(tid=(\d+)", line)
            if tt:
                rep.setdefault("tids", {})["thread " + tt.group(1)] = int(tt.group(2))
            g = re.match(r"\s+Location is global '([^']+)' of size (\d+)", line)
            if g:
                rep["location"], rep["global"] = "global", re.sub(r"\.\d+$", "", g.group(1))
            elif re.match(r"\s+Location is heap block", line):
                rep["location"] = "heap"
            elif re.match(r"\s+Location is (stack|TLS)", line):
                rep["location"] = re.match(r"\s+Location is (\w+)", line).group(1)
        reps.append(rep)
    # fatal signals (SEGV, ABRT with handle_abort=1): "ERROR: ThreadSanitizer: SEGV on unknown address ..." + stack
    lines = text.split("\n")
    for i, line in enumerate(lines):
        m = re.search(r"ERROR: ThreadSanitizer: (\w+) on unknown address", line)
        if not m:
            continue
        stack, j, skipped = [], i + 1, 0
        while j < len(lines):                     # other threads' stderr may be interleaved: skip a few non-frame
            f = re.search(r"(?:^|\s)#\d+ (\S+) (\S+)", lines[j])   # lines before / between the frames, stop at the blank line
            if f:
                stack.append((f.group(1), f.group(2)))
            elif stack and not lines[j].strip():
                break
            else:
                skipped += 1
                if skipped > 8:
                    break
            j += 1
        reps.append({"type": "deadly signal " + m.group(1), "accesses": [{"op": "signal", "thread": "?", "stack": stack}],
                     "location": None, "global": None, "text": "\n".join(lines[i:j])[:6000], "complete": True, "deadly": True,
                     "os_tid": int((re.search(r" T(\d+)\)", line) or [0, 0])[1])})
    return reps


def lib_frames(stack):
    """function names of frames that lie in the repository's sources"""
    rp = os.path.realpath(REPO)
    return [fn for fn, where in stack if os.path.realpath(where.split(":")[0]).startswith(rp + os.sep)]


def run_harness(exe, cfg, timeout=900):
    """cfg = [nthreads, iters, seed, mode, kinds, m2c]"""
    args = [exe] + [str(x) for x in cfg]
    t = time.time()
    # ThreadSanitizer writes to its own log file: libc's assertion text and the harness' stderr of other threads
    # would otherwise be interleaved into the middle of its reports
    import glob, uuid
    logd = os.path.join(CACHE, "c18tsan")
    os.makedirs(logd, exist_ok=True)
    logp = os.path.join(logd, uuid.uuid4().hex)
    env = dict(TSAN_ENV, TSAN_OPTIONS=TSAN_ENV["TSAN_OPTIONS"] + " log_path=" + logp)
    try:
        p = subprocess.run(args, env=env, stdout=subprocess.PIPE, stderr=subprocess.PIPE, text=True,
                           errors="replace", timeout=timeout)
        rc, out, err = p.returncode, p.stdout, p.stderr
    except subprocess.TimeoutExpired as e:
        rc, out, err = -999, (e.stdout or b"").decode(errors="replace") if isinstance(e.stdout, bytes) else (e.stdout or ""), "TIMEOUT"
    for lf in sorted(glob.glob(logp + ".*")):
        try:
            err = open(lf, errors="replace").read() + "\n" + err
            os.remove(lf)
        except OSError:
            pass
    r = {"cfg": cfg, "rc": rc, "secs": round(time.time() - t, 1), "res": {}, "mismatch": [], "events": [],
         "done": None, "tsan": parse_tsan(err), "stderr_tail": err[-1500:], "cmd": " ".join(args),
         "page": 4096, "ctxs": {}}
    for line in out.split("\n"):
        w = line.split(" ")
        if w[0] == "RES" and len(w) > 5:
            r["res"][(w[1], int(w[2]), int(w[3]))] = dict(x.split("=", 1) for x in w[4:] if "=" in x)
        elif w[0] == "MISMATCH":
            r["mismatch"].append((int(w[1]), int(w[2])))
        elif w[0] == "EV" and len(w) == 6:
            r["events"].append((int(w[4]), int(w[5]), int(w[1]), int(w[2]), w[3]))
        elif w[0] == "DONE":
            r["done"] = line
        elif w[0] == "PAGESIZE":
            r["page"] = int(w[1])
        elif w[0] == "CTX" and len(w) >= 6:
            c0 = r["ctxs"].setdefault(int(w[1]), {"tid": int(w[2]), "iter": int(w[3]), "tag": w[4], "viol": 0, "events": []})
            c0["viol"] = int(w[5].split("=")[1])      # a context is dumped early at a violation and again at the end
        elif w[0] == "CA" and len(w) == 7 and int(w[1]) in r["ctxs"]:
            r["ctxs"][int(w[1])]["events"].append((w[2], w[3], int(w[4]), int(w[5]), int(w[6])))
            if w[2] == "P":
                r["ctxs"][int(w[1])]["publish_sizes"] = r["ctxs"][int(w[1])].get("publish_sizes", []) + [int(w[4])]
    return r


def find_obj(name):
    """inventory objects a TSan global name may denote"""
    return [o for o in objs if o["object"] == name or o["object"].endswith("." + name)]


exe, cclog = build_tsan()
runs = []
if exe is None:
    ck.broken_ties.append({"kind": "harness-compile", "name": "c18_threads", "log": cclog[-1500:]})
else:
    cfgs = []
    # corpus first (fixed configurations that reproduced past findings)
    cdir = os.path.join(VERIF, "corpus", PID)
    corpus = []
    if ck.replay:
        corpus = [json.load(open(ck.replay))]
    elif os.path.isdir(cdir):
        corpus = [json.load(open(os.path.join(cdir, f))) for f in sorted(os.listdir(cdir)) if f.endswith(".json")]
    for c in corpus:
        h = c.get("harness") or (c.get("input") or {}).get("harness")
        if h:
            cfgs.append(("corpus", list(h)))
    if not ck.replay:
        reps_n = 2 if ck.tier == "quick" else 40
        for k in range(reps_n):
            it = 1 if ck.tier == "quick" else 2
            cfgs.append(("main", [2, 10 * it, 1 + ck.rng.below(10**6), k % 2, "0xff", 0]))
            cfgs.append(("main", [4, 6 * it, 1 + ck.rng.below(10**6), (k + 1) % 2, "0xff", 0]))
            cfgs.append(("main", [8, 4 * it, 1 + ck.rng.below(10**6), k % 2, "0xff", 0]))
            cfgs.append(("mir2c", [4, 4, 1 + ck.rng.below(10**6), 0, "0xff", 2]))
            if k % 4 == 1:
                cfgs.append(("mir2c", [2, 4, 1 + ck.rng.below(10**6), 1, "0xff", 1]))
    t = time.time()
    with ThreadPoolExecutor(max_workers=3) as ex:
        runs = list(ex.map(lambda c: dict(run_harness(exe, c[1]), role=c[0]), cfgs))
    ck.log(f"harness: {len(runs)} runs in {time.time() - t:.1f}s")
    ck.cov["corpus_replayed"] = sum(1 for c in cfgs if c[0] == "corpus")

# ------------------------------------------------------------------ evaluate the runs
PHASES_DEFAULT = ["MIR_init", "...", "MIR_finish"]
seen_dyn = {}            # (file, object) -> example report
unexplained = []         # TSan reports the inventory does not explain
secondary = 0
n_compared = 0
combos = set()
crashes, mismatches = [], []
# Downstream effects of the known mir2c finding.  mir2c keeps the function being translated in the statics
# `curr_func` / `curr_temp`; when two threads translate concurrently a thread loads ANOTHER context's
# function from the static and walks it (heap races, heap-use-after-free once that context is finished,
# SEGV / assertion).  A report of any kind is attributed to the finding ONLY when
#   (a) at least two threads executed MIR_module2c in that run (harness mir2c-mode 1 or 2, >= 2 threads), and
#   (b) the accessing / faulting stack contains a frame of mir2c.c at a line that the regenerated inventory
#       lists as a read or write site of one of these statics (statement, or its innermost enclosing loop:
#       the loaded value is carried by locals through the iteration) -- i.e. the value flowing into the
#       faulting callee came from the static;
# and the static is still a live, listed known finding.  Everything else stays a violation.
mir2c_objs = [o for o in written if (o["file"], o["object"]) in known_keys and o["file"].endswith("mir2c/mir2c.c")
              and o["object"] in ("curr_func", "curr_temp")]
mir2c_sites = [(sl[1], sl[2], sl[3], o["object"]) for o in mir2c_objs for sl in o.get("site_lines", [])]
curr_func_live = bool(mir2c_objs)


def frame_rel_line(where):
    m = re.match(r"(.*?):(\d+)(?::\d+)?$", where)
    if not m:
        return None, 0
    f = os.path.realpath(m.group(1))
    rp = os.path.realpath(REPO)
    return (f[len(rp) + 1:] if f.startswith(rp + os.sep) else None), int(m.group(2))


def mir2c_downstream(rep, r):
    """-> (object, frame) when rule (a)+(b) holds, else None"""
    if not mir2c_sites or int(r["cfg"][5]) == 0 or int(r["cfg"][0]) < 2:
        return None
    for a in rep["accesses"]:
        for fn, where in a["stack"]:
            f, line = frame_rel_line(where)
            for sf, lo, hi, obj in mir2c_sites:
                if f == sf and lo <= line <= hi:
                    return obj, f"{fn} {f}:{line}"
    return None


truncated = 0
for r in runs:
    m2c = int(r["cfg"][5])
    died = any(rp.get("deadly") for rp in r["tsan"])
    if r["done"] is None:
        crashes.append(r)
    for (tag, t, it), v in r["res"].items():
        if tag == "THR":
            n_compared += 1
            combos.add((v.get("kind"), v.get("iface"), v.get("opt"), r["cfg"][0]))
    for (t, it) in r["mismatch"]:
        mismatches.append({"cmd": r["cmd"], "thread": t, "iter": it, "seq": r["res"].get(("SEQ", t, it)),
                           "thr": r["res"].get(("THR", t, it)), "m2c": m2c, "nthreads": int(r["cfg"][0])})
    for rep in r["tsan"]:
        rep["cmd"] = r["cmd"]
        if rep.get("deadly"):
            continue                 # judged with the crash below
        if not rep["complete"] and died:
            truncated += 1           # the process was killed while printing this report: nothing to judge here,
            continue                 # the fatal signal's own stack is judged below
        if rep["type"] != "data race" or rep["location"] != "global":
            d = mir2c_downstream(rep, r)
            if d:
                secondary += 1
                seen_dyn.setdefault(("mir2c/mir2c.c", "curr_func"), dict(rep, via=d))
                continue
            if rep["type"] != "data race":
                unexplained.append({"why": "not a data race report: " + rep["type"] + " (no mir2c.c frame at a site of curr_func/curr_temp)", "report": rep})
            else:
                unexplained.append({"why": f"race on {rep['location'] or 'unknown'} memory (context-owned or unknown) "
                                           f"not attributable to an inventory object", "report": rep})
            continue
        writers = [lib_frames(a["stack"]) for a in rep["accesses"] if "write" in a["op"]]
        cands = find_obj(rep["global"])
        if not cands:
            unexplained.append({"why": f"race on global '{rep['global']}' which is not in the inventory", "report": rep})
            continue
        ok = None
        for o in cands:
            sites = {w["fn"] for w in o["writes"]}
            esc = any(w["kind"].startswith(("addr-escape", "nonconst-arg", "other")) for w in o["writes"])
            tops = [w[0] for w in writers if w]
            if o["writes"] and (esc or not tops or all(tp in sites for tp in tops)):
                ok = o
                break
        if ok is None:
            unexplained.append({"why": f"race on '{rep['global']}': writing function(s) "
                                       f"{[w[0] for w in writers if w]} are not among the inventory's write sites "
                                       f"{[(o['object'], [w['fn'] for w in o['writes']]) for o in cands]}", "report": rep})
            continue
        seen_dyn.setdefault((ok["file"], ok["object"]), rep)

# ---- static + dynamic verdict per written object
dyn_confirmed = {}
for o in written:
    k = (o["file"], o["object"])
    st = status[k]
    rep = seen_dyn.get(k)
    dyn_confirmed[f"{k[0]}:{k[1]}"] = bool(rep)
    sites = [f"{w['fn']} ({w['kind']})" for w in o["writes"]]
    if st == "known":
        ck.violation({"input": {"object": o, "tsan": rep and rep["text"]}, "stage": "tie"},
                     what=f"{o['file']}: static object `{o['object']}` written by {', '.join(sites)}" +
                          (" -- ThreadSanitizer race confirmed" if rep else ""), signature=sig(o))
    elif st == "reviewed":
        if rep:
            ck.violation({"stage": "tie", "input": {"harness_cmd": rep["cmd"], "object": o}, "impl_output": rep["text"],
                          "model_output": "reviewed escape: never written through",
                          "how_to_rerun": rep["cmd"]},
                         what=f"reviewed address escape of `{o['object']}` ({o['file']}) IS written concurrently",
                         signature=f"C18:reviewed-escape-written:{o['file']}:{o['object']}")
    else:
        # a failing input for THIS object is only a ThreadSanitizer report whose location is this
        # object; mismatches / crashes of the same runs are reported below as violations of their own
        exhibit = rep if (rep and rep.get("location") == "global" and o in find_obj(rep.get("global") or "")) else None
        found = exhibit is not None
        ck.violation({"stage": "proof+tie", "theorem_or_correspondence": "MirVerif.C18.inventory_sites_allowed",
                      "input": {"object": o["object"], "file": o["file"], "write_sites": o["writes"], "type": o["type"],
                                "harness_cmd": exhibit["cmd"] if found else None,
                                "harness": exhibit["cmd"].split(" ")[1:] if found else None},
                      "model_output": "Gen.C18.writeSites contains a site that is neither a known finding nor a reviewed escape",
                      "impl_output": exhibit["text"] if found else None,
                      "how_to_rerun": (exhibit["cmd"] + "   (TSAN_OPTIONS=exitcode=0; build: see checks/c18.py build_tsan)") if found
                      else "VERIF_REPO=<tree> ./check C18   (static finding; no ThreadSanitizer report names this object)"},
                     what=f"new shared write: {o['file']}: static `{o['object']}` ({o['type']}) written in " + ", ".join(sites) +
                          (" -- interference exhibited (ThreadSanitizer race on this object)" if found else ""),
                     signature=sig(o), found_input=found)

# ---- reports the inventory cannot explain, mismatches, crashes of main runs
for u in unexplained[:5]:
    rep = u["report"]
    ck.violation({"stage": "tie", "theorem_or_correspondence": "inventory completeness (TSan)",
                  "input": {"harness_cmd": rep["cmd"], "harness": rep["cmd"].split(" ")[1:]}, "impl_output": rep["text"],
                  "model_output": u["why"], "how_to_rerun": rep["cmd"]},
                 what="ThreadSanitizer report not explained by the inventory: " + u["why"],
                 signature="C18:unexplained-race:" + str(rep.get("global") or rep.get("location")))
for m in mismatches:
    diff = {k for k in set(m["seq"] or {}) | set(m["thr"] or {}) if (m["seq"] or {}).get(k) != (m["thr"] or {}).get(k)}
    in_m2c = diff <= {"m2c", "err"} and ("err" not in diff or str((m["thr"] or {}).get("err", "")).endswith("@MIR_module2c"))
    if m["m2c"] and m["nthreads"] >= 2 and curr_func_live and in_m2c:
        # only the text produced by MIR_module2c (or an error raised inside it) differs, >= 2 threads ran it
        seen_dyn.setdefault(("mir2c/mir2c.c", "curr_func"), {"cmd": m["cmd"], "text": "mir2c output differs: " + str(sorted(diff))})
        secondary += 1
        continue
    ck.violation({"stage": "tie", "input": {"harness_cmd": m["cmd"], "harness": m["cmd"].split(" ")[1:], "thread": m["thread"], "iter": m["iter"]},
                  "model_output": m["seq"], "impl_output": m["thr"], "how_to_rerun": m["cmd"]},
                 what=f"thread {m['thread']} iteration {m['iter']}: result differs from the sequential run",
                 signature="C18:result-mismatch")
    break
for c in crashes:
    dead = [rp for rp in c["tsan"] if rp.get("deadly")]

    def dead_ok(d):
        if mir2c_downstream(d, c):
            return True
        # wild jump (pc in a non-executable / zero page): the fatal stack cannot be unwound at all.  Then -- and
        # only then -- the faulting thread's own LAST reported access before the signal is judged by rule (b).
        if any(frame_rel_line(w)[0] for a in d["accesses"] for _, w in a["stack"]) or not d.get("os_tid"):
            return False
        last = None
        for rp in c["tsan"]:
            if rp.get("deadly") or not rp["complete"]:
                continue
            for a in rp["accesses"]:
                if rp.get("tids", {}).get(a["thread"]) == d["os_tid"]:
                    last = {"accesses": [a]}
        return bool(last and mir2c_downstream(last, c))
    if dead and all(dead_ok(rp) for rp in dead):
        secondary += 1       # fatal signal whose stack passes through a site of mir2c's statics
        continue
    ck.violation({"stage": "tie", "input": {"harness_cmd": c["cmd"], "harness": c["cmd"].split(" ")[1:]}, "impl_output": c["stderr_tail"], "rc": c["rc"],
                  "how_to_rerun": c["cmd"]},
                 what=f"threaded run did not complete (rc={c['rc']})", signature="C18:harness-crash")
    break

# ------------------------------------------------------------------ 4b: code pages (recording code allocators)
# invariant: every mem_protect / mem_unmap request issued on behalf of a context covers only pages that
# context mapped; every announced _MIR_change_code/_MIR_update_code call re-protects exactly the pages
# that contain a patched byte (Props/C18.lean: change_window_tight, patch_request_confined).  The event
# sequences recorded by the harness are judged by the Lean monitor (mirdrv_c18 pages) and the verdict
# is compared with the harness' own ownership monitor.
pg = {"contexts": 0, "requests": 0, "patch_calls": 0, "boundary_patches": 0, "model_bad": 0, "harness_bad": 0}


def ev_text(e, page):
    k, sub, a, b, bad = e
    if k == "P":
        return f"_MIR_publish_code(len={a})" + ("   [exact page multiple]" if a % page == 0 else "")
    if k == "m":
        return f"mem_map -> pages {a}..{a + b - 1}"
    if k == "u":
        return f"mem_unmap pages {a}..{a + b - 1}" + ("   <-- not all mapped by this context" if bad else "")
    if k == "w":
        return f"mem_protect({'W|X' if sub == 'W' else 'R|X'}) pages {a}..{a + b - 1}" + ("   <-- not all mapped by this context" if bad else "")
    return (f"{'_MIR_change_code' if sub == 'c' else '_MIR_update_code'}(addr=arena+{a:#x} [page {a // page} offset {a % page}], "
            f"len={b}; last byte at page offset {(a + b - 1) % page})")


page_violation_done = False
try:
    for r in runs:
        if not r["ctxs"]:
            continue
        ids = list(r["ctxs"])
        inp = "".join(f"pages {r['page']} {i}\n" + "".join(f"{e[0]} {e[2]} {e[3]}\n" for e in r["ctxs"][i]["events"] if e[0] != "P") + "endpages\n"
                      for i in ids)
        rc, out, err = ck.drv("mirdrv_c18", [], inp)
        rep_by_id = {}
        for line in out.split("\n"):
            w = line.split(" ")
            if w[0] == "PAGES":
                rep_by_id[int(w[1])] = dict(x.split("=") for x in w[2:])
        if len(rep_by_id) != len(ids):
            raise RuntimeError(f"page monitor answered {len(rep_by_id)} of {len(ids)} contexts: {out[-300:]} {err[-300:]}")
        for i in ids:
            c, m = r["ctxs"][i], rep_by_id[i]
            pg["contexts"] += 1
            pg["requests"] += int(m["reqs"])
            pg["patch_calls"] += int(m["patches"])
            pg["boundary_patches"] += int(m["boundary"])
            pg["page_multiple_publishes"] = pg.get("page_multiple_publishes", 0) + sum(1 for z in c.get("publish_sizes", []) if z % r["page"] == 0)
            mbad = int(m["bad"]) + int(m["patchbad"])
            pg["model_bad"] += 1 if mbad else 0
            pg["harness_bad"] += 1 if c["viol"] else 0
            if int(m["bad"]) != c["viol"]:
                ck.broken_ties.append({"kind": "correspondence", "name": "page-ownership monitor: Lean vs harness",
                                       "first_diff": {"cmd": r["cmd"], "ctx": i, "lean": m, "harness_viol": c["viol"]}})
            if mbad and not page_violation_done:
                page_violation_done = True
                fb = [int(x) for x in (m.get("firstbad") or m.get("firstpatchbad")).split(":")]
                pos = [j for j, e in enumerate(c["events"]) if e[0] != "P"]   # the driver does not see the P announcements
                idx = pos[fb[0]] if fb[0] < len(pos) else len(c["events"]) - 1
                phases = [e[4] for e in sorted(r["events"]) if e[2] == c["tid"] and e[3] == c["iter"]] or PHASES_DEFAULT
                seq = [ev_text(e, r["page"]) for e in c["events"][max(0, idx - 9):idx + 1]]
                ck.violation({"stage": "tie", "theorem_or_correspondence": "code-page ownership (MirVerif.C18.patch_request_confined / change_window_tight)",
                              "input": {"harness": r["cmd"].split(" ")[1:], "harness_cmd": r["cmd"], "context": {"thread": c["tid"], "iteration": c["iter"], "run": c["tag"]},
                                        "api_call_sequence": phases,
                                        "code_alloc_events_up_to_violation": seq, "event_index": idx, "page_size": r["page"]},
                              "model_output": {"monitor": m, "expected": "window = pages containing a patched byte, all mapped by this context"},
                              "impl_output": seq[-1], "how_to_rerun": r["cmd"] + "   (stdout lines CTX/CA of this context)"},
                             what=f"context of thread {c['tid']} iteration {c['iter']} issued a code-page protection request outside the pages it "
                                  f"mapped / wider than the patched bytes: {seq[-1]}", signature="C18:code-page-window")
except Exception as e:
    ck.broken_ties.append({"kind": "driver", "name": "mirdrv_c18 pages", "log": repr(e)})
if runs and exe is not None and not ck.replay and (pg["boundary_patches"] == 0 or pg["requests"] == 0):
    ck.broken_ties.append({"kind": "coverage", "name": "no boundary patch / protection request was observed", "counts": pg})

# ------------------------------------------------------------------ 4c: c2mir fatal-error exits under forced schedules
# harness/c18_c2m_fatal.c (no sanitizer: the shared state, if any, is written inside libc's setjmp): threads
# enter c2mir_compile in a fixed order, compiles that hit the FATAL path (missing include) leave while the
# valid ones are suspended in their getc callback; every call must return in its own frame with its own
# verdict and valid modules must compute their own value.
fat = {"schedules": 0, "with_fatal_not_last": 0, "threads": [], "failed": 0}
fexe, fcclog = build_harness("c18_c2m_fatal", ["mir.c", "mir-gen.c", "c2mir/c2mir.c"], [])
if fexe is None:
    ck.broken_ties.append({"kind": "harness-compile", "name": "c18_c2m_fatal", "log": fcclog[-1500:]})
else:
    scheds = []
    if ck.replay:
        c = json.load(open(ck.replay))
        h = c.get("c2m_fatal") or (c.get("input") or {}).get("c2m_fatal")
        if h:
            scheds.append([str(x) for x in h])
    else:
        if os.path.isdir(os.path.join(VERIF, "corpus", PID)):
            for f in sorted(os.listdir(os.path.join(VERIF, "corpus", PID))):
                c = json.load(open(os.path.join(VERIF, "corpus", PID, f))) if f.endswith(".json") else {}
                if c.get("c2m_fatal"):
                    scheds.append([str(x) for x in c["c2m_fatal"]])
        scheds += [["2", "1", "FO"], ["2", "1", "OF"], ["3", "1", "FOf"], ["3", "1", "OFO"], ["4", "1", "fOOF"], ["2", "1", "Ff"]]
        for k in range(8 if ck.tier == "quick" else 120):
            scheds.append([str(2 + ck.rng.below(5)), str(1 + ck.rng.below(10**6))])
    fat_violation = False
    for a in scheds:
        try:
            p = subprocess.run([fexe, *a], stdout=subprocess.PIPE, stderr=subprocess.PIPE, text=True, errors="replace", timeout=120)
            rc, out = p.returncode, p.stdout
        except subprocess.TimeoutExpired as e:
            rc, out = -999, (e.stdout or "") if isinstance(e.stdout, str) else ""
        lines = out.strip().split("\n")
        sched = next((l for l in lines if l.startswith("SCHED")), "")
        roles = (re.search(r"roles=(\S+)", sched) or [None, ""])[1]
        fat["schedules"] += 1
        fat["threads"].append(len(roles))
        if any(r != "O" for r in roles[:-1]):      # a fatal compile enters before another compile
            fat["with_fatal_not_last"] += 1
        failed = [l for l in lines if l.startswith("FAIL") or "WRONG" in l]
        done = next((l for l in lines if l.startswith("DONE")), None)
        if failed or done is None or done != "DONE fails=0":
            fat["failed"] += 1
            if not fat_violation:
                fat_violation = True
                cmd = " ".join([fexe, a[0], a[1], roles or (a[2] if len(a) > 2 else "")])
                ck.violation({"stage": "tie", "theorem_or_correspondence": "c2mir fatal exit stays in its own context (forced schedule)",
                              "input": {"c2m_fatal": [a[0], a[1], roles or (a[2] if len(a) > 2 else "")], "schedule": sched,
                                        "sources": "role F: `#include \"c18_no_such_file_<t>.h\"`, f: `#include <...>`, O: valid program `long f(long)`"},
                              "model_output": "every c2mir_compile call returns in the frame of the thread that made it: fatal -> 0, valid -> 1 and f(7) = own value",
                              "impl_output": failed or [f"harness ended without DONE (rc={rc})"] + lines[-3:], "how_to_rerun": cmd},
                             what="c2mir under threads: " + (failed[0] if failed else f"run did not complete (rc={rc})") + "  [" + sched[:60] + "]",
                             signature="C18:c2mir-fatal-cross-context")
        elif len(ck.cov["samples"]) < 7 and fat["schedules"] == 1:
            ck.sample({"c2m_fatal": a, "schedule": sched, "results": [l for l in lines if l.startswith("RES")]})
    if fat["with_fatal_not_last"] == 0 and not ck.replay:
        ck.broken_ties.append({"kind": "coverage", "name": "no schedule with a fatal compile entering before another compile", "counts": fat})

# ------------------------------------------------------------------ 4d: module hand-over between contexts
# harness/c18_handover.c (includes mir.c; poisoning allocator): worker contexts build modules with hard-register
# globals and hand them to a main context with MIR_change_module_ctx under a mutex; ownership monitor right
# after the call (every name interned in the NEW context, no entry of the module left in the OLD item table),
# then the old context is finished or kept busy (640 more items, equal names) while the new one prints, links
# and runs the module.  The observed owners are also judged by the Lean monitor (mirdrv_c18 ho).
ho = {"runs": 0, "handovers": 0, "refs_checked": 0, "variants": {"A": 0, "B": 0}, "failed_runs": 0, "lean_agree": 0}
hexe, hcclog = build_harness("c18_handover", [], ["-w"])
if hexe is None:
    ck.broken_ties.append({"kind": "harness-compile", "name": "c18_handover", "log": hcclog[-1500:]})
else:
    hscheds = []
    if ck.replay:
        c = json.load(open(ck.replay))
        h = c.get("handover") or (c.get("input") or {}).get("handover")
        if h:
            hscheds.append([str(x) for x in h])
    else:
        if os.path.isdir(os.path.join(VERIF, "corpus", PID)):
            for f in sorted(os.listdir(os.path.join(VERIF, "corpus", PID))):
                c = json.load(open(os.path.join(VERIF, "corpus", PID, f))) if f.endswith(".json") else {}
                if c.get("handover"):
                    hscheds.append([str(x) for x in c["handover"]])
        hscheds += [["1", "2", "1", "A"], ["1", "2", "1", "B"], ["2", "2", "1", "AB"], ["3", "3", "2", "BAB"]]
        for k in range(6 if ck.tier == "quick" else 80):
            hscheds.append([str(1 + ck.rng.below(4)), str(1 + ck.rng.below(4)), str(1 + ck.rng.below(10**6))])
    ho_violation = False
    for a in hscheds:
        try:
            p = subprocess.run([hexe, *a], stdout=subprocess.PIPE, stderr=subprocess.PIPE, text=True, errors="replace", timeout=180)
            rc, out = p.returncode, p.stdout
        except subprocess.TimeoutExpired as e:
            rc, out = -999, (e.stdout or "") if isinstance(e.stdout, str) else ""
        lines = out.strip().split("\n")
        sched = next((l for l in lines if l.startswith("SCHED")), "")
        var = (re.search(r"variants=(\S+)", sched) or [None, ""])[1]
        ho["runs"] += 1
        for v in var:
            ho["variants"][v] = ho["variants"].get(v, 0) + 1
        hors = [l.split(" ") for l in lines if l.startswith("HOR ")]
        hos = {(l.split(" ")[1], l.split(" ")[2]): l for l in lines if l.startswith("HO ")}
        try:
            inp = ""
            for w in hors:
                owners = w[5].split("=", 1)[1] if len(w) > 5 else ""
                nnew, nstale = int(w[3].split("=")[1]), int(w[4].split("=")[1])
                inp += "ho 0 1 7 R " + " ".join("1" if c == "N" else "0" for c in owners) + " T " + " ".join(["1:7"] * nnew + ["0:7"] * nstale) + "\n"
            if inp:
                drc, dout, derr = ck.drv("mirdrv_c18", [], inp)
                verdicts = [l for l in dout.split("\n") if l.startswith("HO ")]
                for w, v in zip(hors, verdicts):
                    hl = hos.get((w[1], w[2]), "")
                    harness_bad = not (" badrefs=0 " in hl and " stale_old_entries=0 " in hl)
                    ho["handovers"] += 1
                    ho["refs_checked"] += len(w[5].split("=", 1)[1]) if len(w) > 5 else 0
                    if (v != "HO ok") == harness_bad:
                        ho["lean_agree"] += 1
                    else:
                        ck.broken_ties.append({"kind": "correspondence", "name": "hand-over monitor: Lean vs harness", "first_diff": {"lean": v, "harness": hl}})
        except Exception as e:
            ck.broken_ties.append({"kind": "driver", "name": "mirdrv_c18 ho", "log": repr(e)})
        failed = [l for l in lines if l.startswith("FAIL") or l.endswith("WRONG")]
        done = next((l for l in lines if l.startswith("DONE")), None)
        if failed or done != "DONE fails=0":
            ho["failed_runs"] += 1
            if not ho_violation:
                ho_violation = True
                args3 = [a[0], a[1], a[2], var or (a[3] if len(a) > 3 else "")]
                ck.violation({"stage": "tie", "theorem_or_correspondence": "ownership after MIR_change_module_ctx (MirVerif.C18.handover_owned / handover_tab_clean / use_after_handover_confined)",
                              "input": {"handover": args3, "schedule": sched},
                              "model_output": "after the call every name reachable from the module is interned in the new context, the old context's item table has no entry of the module; "
                                              "the receiving context prints the same text and computes the module's value whatever the giving context does afterwards",
                              "impl_output": failed[:6] or [f"run ended without DONE (rc={rc})"] + lines[-3:], "how_to_rerun": " ".join([hexe, *args3])},
                             what="module hand-over couples two contexts: " + (failed[0][:260] if failed else f"run did not complete (rc={rc})"),
                             signature="C18:handover-ownership")
    if not ck.replay and (ho["handovers"] == 0 or ho["variants"].get("A", 0) == 0 or ho["variants"].get("B", 0) == 0):
        ck.broken_ties.append({"kind": "coverage", "name": "hand-over workloads did not run both variants", "counts": ho})

# ------------------------------------------------------------------ 5: model correspondence
PHASES = ["MIR_init", "c2mir_init", "c2mir_compile", "c2mir_finish", "MIR_scan_string", "MIR_output", "MIR_write",
          "MIR_module2c", "MIR_load_module", "MIR_gen_init", "MIR_link", "run", "code_patch", "MIR_gen_finish", "MIR_finish"]
obj_index = {(o["file"], o["object"]): i for i, o in enumerate(objs)}
api_w = {ph: [tuple(x) for x in v] for ph, v in inv.get("api_writes", {}).items()}
n_model, n_model_ok, model_diffs = 0, 0, []
hyp_bad_objects = set()


def drv_eval_many(traces):
    """evaluate several traces in one driver process"""
    inp = "".join("reset\n" + "\n".join(lines) + "\nrun\n" for lines in traces)
    rc, out, err = ck.drv("mirdrv_c18", [], inp)
    allres, res = [], {"hyp": None, "threads": {}, "shared": None}
    for line in out.split("\n"):
        w = line.split(" ")
        if w[0] == "HYP":
            res["hyp"] = w[1:]
        elif w[0] == "THREAD":
            res["threads"][int(w[1])] = dict(x.split("=") for x in w[2:])
        elif w[0] == "SHARED":
            res["shared"] = w[1]
        elif w[0] == "ERR":
            res["err"] = line
        elif w[0] == "END":
            allres.append(res)
            res = {"hyp": None, "threads": {}, "shared": None}
    if len(allres) != len(traces):
        raise RuntimeError(f"driver answered {len(allres)} of {len(traces)} traces (rc={rc}) {err[-300:]}")
    return allres


def drv_eval(lines):
    return drv_eval_many([lines])[0]


def trace_lines(r, mask_known):
    evs = sorted(r["events"])
    lines = []
    for k, (t0, t1, t, it, ph) in enumerate(evs):
        pi = PHASES.index(ph)
        rs = [f"c{t}.{it * 16 + j}" for j in range(pi + 1)] + [f"s{i}.0" for i in range(0, len(objs), 7)]
        ws = [f"c{t}.{it * 16 + pi}"]
        for key in api_w.get(ph, []):
            if status.get(key) == "reviewed":
                continue
            if mask_known and key in known_keys:
                continue
            ws.append(f"s{obj_index[key]}.0")
            rs.append(f"s{obj_index[key]}.0")
        lines.append(f"op {t} {k + 1} - R {' '.join(rs)} W {' '.join(ws)}")
    return lines


try:
    for r in runs:
        if r["role"] != "main" or r["done"] is None or not r["events"]:
            continue
        # (a) full footprints: the model must flag exactly the phases that reach a written object
        full = drv_eval(trace_lines(r, False))
        n_model += 1
        bad_objs = {int(x.split(":")[2][1:].split(".")[0]) for x in (full["hyp"] or [])[1:] if ":s" in x}
        hyp_bad_objects |= {f"{objs[i]['file']}:{objs[i]['object']}" for i in bad_objs}
        expect_bad = {obj_index[k] for ph in {e[4] for e in r["events"]} for k in api_w.get(ph, []) if status.get(k) != "reviewed"}
        if bad_objs != expect_bad:
            model_diffs.append({"run": r["cmd"], "model_flags": sorted(bad_objs), "expected": sorted(expect_bad)})
        # (b) partial hypothesis (known findings avoided): model says every thread sees its sequential
        #     run; the implementation said the same (no MISMATCH line)
        part = drv_eval(trace_lines(r, True))
        n_model += 1
        model_equal = part["hyp"] == ["ok"] and all(v.get("agree") == "1" and v.get("results") == "1" for v in part["threads"].values()) \
            and part["shared"] == "unchanged=1"
        only_known = all(status.get(k) in ("known", "reviewed") for ph in api_w for k in api_w[ph])
        impl_equal = not r["mismatch"]
        if only_known and (not model_equal or not impl_equal):
            model_diffs.append({"run": r["cmd"], "model_equal": model_equal, "impl_equal": impl_equal, "hyp": part["hyp"]})
        else:
            n_model_ok += 1
    # (c) synthetic traces: executable model vs theorem
    n_syn = 300 if ck.tier == "quick" else 4000
    syn_ok = syn_bad = syn_bad_differs = 0
    syn = []
    for k in range(n_syn):
        nth = 2 + ck.rng.below(4)
        nops = 2 + ck.rng.below(10)
        leak = ck.rng.chance(1, 3)
        lines = []
        for j in range(nops):
            t = ck.rng.below(nth)
            rs = [f"c{t}.{ck.rng.below(4)}" for _ in range(ck.rng.below(3))] + [f"s{ck.rng.below(3)}.0" for _ in range(ck.rng.below(2))]
            ws = [f"c{t}.{ck.rng.below(4)}" for _ in range(1 + ck.rng.below(2))]
            if leak and ck.rng.chance(1, 3):
                ws.append(f"s{ck.rng.below(3)}.0" if ck.rng.chance(1, 2) else f"c{(t + 1) % nth}.{ck.rng.below(4)}")
            if leak and ck.rng.chance(1, 6):
                rs.append(f"c{(t + 1) % nth}.{ck.rng.below(4)}")
            cst = str(ck.rng.below(50)) if ck.rng.chance(1, 8) else "-"
            lines.append(f"op {t} {j + 1} {cst} R {' '.join(rs)} W {' '.join(ws)}")
        syn.append(lines)
    for k, (lines, res) in enumerate(zip(syn, drv_eval_many(syn))):
        n_model += 1
        eq = all(v.get("agree") == "1" and v.get("results") == "1" for v in res["threads"].values())
        if res["hyp"] == ["ok"]:
            syn_ok += 1
            if not eq or res["shared"] != "unchanged=1":
                model_diffs.append({"synthetic": lines, "result": res})
        else:
            syn_bad += 1
            syn_bad_differs += 0 if eq else 1
        if k < 2:
            ck.sample({"synthetic_trace": lines, "model": res})
    ck.cov["distribution"] = {"synthetic_traces": n_syn, "synthetic_hyp_ok": syn_ok, "synthetic_hyp_violated": syn_bad,
                              "synthetic_hyp_violated_and_outcome_differs": syn_bad_differs}
except Exception as e:
    ck.broken_ties.append({"kind": "driver", "name": "mirdrv_c18", "log": repr(e)})
if model_diffs:
    ck.broken_ties.append({"kind": "correspondence", "name": "footprint model vs harness/theorem", "first_diff": model_diffs[0]})

# ------------------------------------------------------------------ evidence
ck.cov["evaluations"] = n_compared + n_model + pg["contexts"] + fat["schedules"] + ho["handovers"]
ck.cov["distinct_nontrivial"] = len(combos)
ck.cov["rule"] = ("evaluation = one thread-iteration workload (context init, c2mir compile, scan, output, write, load, link, run, "
                  "finish) executed concurrently with other threads and compared with its sequential run, plus model traces "
                  "evaluated by mirdrv_c18; distinct_nontrivial = distinct (C program kind, interface, opt level, thread count) "
                  "workloads that ran threaded and were compared")
ck.cov.setdefault("distribution", {}).update({
    "harness_runs": [{"role": r["role"], "cfg": r["cfg"], "rc": r["rc"], "secs": r["secs"], "tsan_reports": len(r["tsan"]),
                      "compared": sum(1 for k in r["res"] if k[0] == "THR"), "mismatches": len(r["mismatch"]),
                      "completed": r["done"] is not None} for r in runs],
    "thread_counts": sorted({int(r["cfg"][0]) for r in runs}),
    "tsan_reports_total": sum(len(r["tsan"]) for r in runs),
    "tsan_objects_seen": sorted(f"{k[0]}:{k[1]}" for k in seen_dyn),
    "tsan_secondary_mir2c": secondary,
    "tsan_unexplained": len(unexplained), "tsan_truncated_by_fatal_signal": truncated,
    "inventory_objects": len(objs), "inventory_written": [f"{o['file']}:{o['object']}" for o in written],
    "inventory_status": {f"{k[0]}:{k[1]}": v for k, v in status.items()},
    "dynamically_confirmed": dyn_confirmed,
    "model_hyp_flags": sorted(hyp_bad_objects),
    "model_traces": n_model, "model_harness_agree": n_model_ok, "code_pages": pg, "c2mir_fatal_schedules": dict(fat, threads=sorted(set(fat["threads"]))), "handover": ho,
    "interfaces_hit": sorted({c[1] for c in combos if c[1] is not None}),
    "kinds_hit": sorted({c[0] for c in combos if c[0] is not None}),
})
for o in written[:4]:
    ck.sample({"inventory_entry": {k: o[k] for k in ("file", "object", "type", "scope", "writes")}})
for r in runs[:2]:
    ck.sample({"harness_cmd": r["cmd"], "first_results": [dict(v, tag=k[0], thread=k[1], iter=k[2]) for k, v in list(r["res"].items())[:2]]})
ck.cov["exhaustive"] = False
ck.assumptions += [
    "schedules are sampled (TSan's happens-before detection makes a report independent of the exact timing, but only code the workload reaches is observed)",
    "the inventory classifies uses syntactically from clang's AST; a pointer into a static object that escapes is reported as a write site, aliasing beyond that is only what TSan observes",
    "reviewed address escapes (default_alloc, default_code_alloc, err_struct) are accepted on manual review + absence of TSan reports",
    "libc internals (malloc, stdio) are out of scope; x86-64 target files only",
    "code pages: ownership is judged per request at the MIR_code_alloc_t boundary with all contexts' mappings adjacent in one arena; "
    "3 of 4 contexts use the recording allocator, the rest the default one",
    "the model is sequentially consistent interleaving of atomic operations; data races are judged by the property's own wording (conflicting unsynchronised accesses) via TSan",
]
ck.finish()
