"""C20 — the C text emitted by mir2c computes what the MIR module computes; the translator terminates.

proof gate : Props/C20.lean — per-opcode templates of `out_insn` (table regenerated from mir2c/mir2c.c by
             translate/c20_tables.py) against the documented meaning of the instructions (shared with C02):
             every integer/compare/branch/extension/negation/BT/overflow row for ALL operand values,
             the exact list of rows where the emitted C is undefined although MIR is defined (signed wrap),
             coverage of the opcode enum of mir.h, termination of the data-section printer (fixed loop) and
             the characterisation of when today's loop ends; deviations listed in Model/Mir2CKnown.lean.
tie        : (A) one-instruction functions for every row of the regenerated table (+ memory forms, constants,
             fp/ld rows) -> MIR_module2c (watchdog) -> gcc -O0 / -O2 / -O2 -fwrapv -fno-strict-aliasing ->
             run over a boundary-value grid next to MIR_interp; every result is compared with the Lean model
             of the emitted text (mirdrv_c20: cSem & co. evaluated on the REGENERATED rows) and with the
             documented result;  (B) random well-defined single-result programs from lib/mirgen.py restricted
             to mir2c's vocabulary: results, buffer bytes and external-call log vs MIR_interp;  (C) modules with
             data sections: termination verdict and member lists vs the Lean model of the section printer, and
             (where the translation ends) the bytes read back through the compiled C;  (D) the repository's own
             modules (mir-tests, `c2m -S` of c-tests): translation outcome classes.
             corpus/C20/*.json (minimised findings) are replayed first."""
import os, re, sys, json, glob, shutil, subprocess, struct, collections, tempfile, time
from concurrent.futures import ThreadPoolExecutor
from vf import Check, VERIF, REPO
import mirgen, progtie

sys.path.insert(0, os.path.join(VERIF, "checks"))
import c20_engine

ENGINE = os.path.join(VERIF, "checks", "c20_engine.py")
ENGS = ["interp", "O0", "O2", "O2w"]
M64 = (1 << 64) - 1
M32 = (1 << 32) - 1
CMPS = {"EQ", "NE", "LT", "LE", "GT", "GE", "ULT", "ULE", "UGT", "UGE"}

SIG_UGE = "C20:uge-emits-gt"
SIG_LOOP = "C20:section-loop-never-advances"
SIG_MISSING = "C20:opcode-without-template"
SIG_UBO = "C20:ubo-tests-signed-overflow"
SIG_WRAP = "C20:signed-wrap-exploited-by-gcc"
SIG_ALIAS = "C20:type-punned-access-exploited-by-gcc"
SIG_EXPR = "C20:expr-data-refused"
SIG_BLK = "C20:block-typed-param-assert"
SIG_NAME = "C20:item-name-not-c-identifier"
SIG_DUPPARAM = "C20:proto-duplicate-param-names"
SIG_UNDECL = "C20:forward-or-global-not-declared"
SIG_STATIC = "C20:static-definition-after-extern-declaration"
SIG_HDR = "C20:name-collides-with-included-header"
SIG_LREF = "C20:lref-data-unhandled"
SIG_LD = "C20:ldouble-const-misprinted"
SIG_REF = "C20:scalar-data-ref-is-value"
SIG_VARIADIC = "C20:variadic-proto-without-named-param"


def s64(x):
    return x - (1 << 64) if x >> 63 else x


def s32(x):
    x &= M32
    return x - (1 << 32) if x >> 31 else x


def base_of(name):
    return (name[:-1], True) if name.endswith("S") and name[:-1] in BASES else (name, False)


BASES = {"ADD", "SUB", "MUL", "DIV", "UDIV", "MOD", "UMOD", "AND", "OR", "XOR", "LSH", "RSH", "URSH"} | CMPS


def dom_ok(name, a, b):
    base, short = base_of(name)
    if base in ("DIV", "MOD"):
        return ((b & M32) != 0 and not (s32(a) == -(1 << 31) and s32(b) == -1)) if short else \
            (b != 0 and not (s64(a) == -(1 << 63) and s64(b) == -1))
    if base in ("UDIV", "UMOD"):
        return (b & M32) != 0 if short else b != 0
    if base in ("LSH", "RSH", "URSH"):
        return (b & M32) < 32 if short else b < 64
    return True


def harness_dom(name):
    base, short = base_of(name)
    if base in ("DIV", "MOD"):
        return "div32" if short else "div64"
    if base in ("UDIV", "UMOD"):
        return "udiv32" if short else "udiv64"
    if base in ("LSH", "RSH", "URSH"):
        return "sh32" if short else "sh64"
    return "any"


class Gen:
    """module text + per-function meta (semantic key, signature, fixed second operand)"""
    ARGS = {"ii_i": "i64:a, i64:b", "i_i": "i64:a", "dd_d": "d:a, d:b", "dd_i": "d:a, d:b", "d_d": "d:a", "d_i": "d:a",
            "i_d": "i64:a", "ff_f": "f:a, f:b", "ff_i": "f:a, f:b", "f_f": "f:a", "f_i": "f:a", "i_f": "i64:a",
            "f_d": "f:a", "d_f": "d:a", "ll_l": "ld:a, ld:b", "ll_i": "ld:a, ld:b", "l_l": "ld:a", "l_i": "ld:a",
            "i_l": "i64:a", "l_d": "ld:a", "d_l": "d:a", "l_f": "ld:a", "f_l": "f:a"}

    def __init__(self, prefix="f"):
        self.funcs, self.meta, self.n, self.prefix = [], {}, 0, prefix

    def add(self, key, sig, body, locs="i64:r", dom="any", fixed_b=None, res="i64", shape="", argtext=None):
        self.n += 1
        fname = f"{self.prefix}{self.n}"
        body = body.replace("@", f"L{self.prefix}{self.n}_")
        loc = f"  local {locs}\n" if locs else ""
        self.funcs.append(f"{fname}: func {res}, {argtext or self.ARGS[sig]}\n{loc}{body}\n  endfunc\n")
        self.meta[fname] = {"key": key, "sig": sig, "dom": dom, "fixed_b": fixed_b, "shape": shape, "idx": self.n - 1}
        return fname

    def text(self, only=None, name="g"):
        fs = [(fn, self.funcs[m["idx"]]) for fn, m in self.meta.items() if only is None or fn in only]
        return f"{name}: module\nexport " + ", ".join(fn for fn, _ in fs) + "\n" + "".join(t for _, t in fs) + "  endmodule\n"


def simm(im):
    return str(s64(im))


INT_OPS = sorted(b + sfx for b in BASES for sfx in ("", "S"))
BR_OPS = [("UB" + c[1:] if c.startswith("U") else "B" + c) + sfx for c in sorted(CMPS) for sfx in ("", "S")]
EXT_OPS = ["EXT8", "EXT16", "EXT32", "UEXT8", "UEXT16", "UEXT32"]


PTYPES = {"i8": (8, True), "u8": (8, False), "i16": (16, True), "u16": (16, False), "i32": (32, True), "u32": (32, False),
          "i64": (64, True), "u64": (64, False), "p": (64, False)}


def ptype_values(t):
    """boundary values a caller may pass for a parameter of type t (as the 64-bit register content: the value
    sign- resp. zero-extended, which is what both MIR_interp and the C calling convention deliver)"""
    w, sg = PTYPES[t]
    if w == 64:
        return [0, 1, (1 << 63) - 1, 1 << 63, M64, (1 << 63) + 12345, 0xFFFFFFFF80000000, 1 << 32, 5]
    if sg:
        return [x & M64 for x in (-(1 << (w - 1)), -1, 0, 1, (1 << (w - 1)) - 1, 5, -7)]
    return [0, 1, (1 << (w - 1)) - 1, 1 << (w - 1), (1 << w) - 1, 5]


def build_param_funcs(g):
    """functions whose PARAMETERS of every integer type feed every instruction directly (no intermediate mov):
    the prologue copy `int64_t a = _a;` and the parameter declarations are part of what the templates rely on.
    -> plan lines (explicit calls with in-range values)"""
    plan = []
    for t in PTYPES:
        vals = ptype_values(t)
        a1, a2 = f"{t}:a", f"{t}:a, {t}:b"

        def un(key, sig, body, res="i64", locs="i64:r"):
            fn = g.add(("ptype", t) + key, sig, body, locs=locs, res=res, shape="param " + t, argtext=a1)
            for v in vals:
                plan.append(f"call {fn} {sig} {v:x}")
        un(("ret",), "i_i", "  ret a", locs="")
        for op in ("mov", "ext8", "ext16", "ext32", "uext8", "uext16", "uext32", "neg"):
            un((op,), "i_i", f"  {op} r, a\n  ret r")
        un(("negs",), "i_i", "  negs r, a\n  ext32 r, r\n  ret r")
        for op, sig, ty in (("i2f", "i_f", "f"), ("i2d", "i_d", "d"), ("i2ld", "i_l", "ld"), ("ui2f", "i_f", "f"),
                            ("ui2d", "i_d", "d"), ("ui2ld", "i_l", "ld")):
            un((op,), sig, f"  {op} r, a\n  ret r", res=ty, locs=f"{ty}:r")
        for op in ("bt", "bf", "bts", "bfs"):
            un((op,), "i_i", f"  {op} @t, a\n  mov r, 0\n  ret r\n@t:\n  mov r, 1\n  ret r")
        un(("store",), "i_i", "  alloca q, 16\n  mov i64:(q), a\n  mov r, i64:(q)\n  ret r", locs="i64:r, i64:q")
        un(("addr",), "i_i", "  alloca q, 16\n  mov i64:(q), 77\n  mov i64:8(q), 78\n  and r, a, 1\n  mov r, i64:(q, r, 8)\n  ret r", locs="i64:r, i64:q")
        for name in INT_OPS + BR_OPS:
            op = name.lower()
            if name in BR_OPS:
                body = f"  {op} @t, a, b\n  mov r, 0\n  ret r\n@t:\n  mov r, 1\n  ret r"
            else:
                base, short = base_of(name)
                body = f"  {op} r, a, b\n" + ("  ext32 r, r\n" if short and base not in CMPS else "") + "  ret r"
            fn = g.add(("ptype", t, name), "ii_i", body, shape="param " + t, argtext=a2)
            for x in vals:
                for y in vals:
                    if name in BR_OPS or dom_ok(name, x, y):
                        plan.append(f"call {fn} ii_i {x:x} {y:x}")
    return plan


def conversion_calls(g):
    """explicit inputs for the conversion rows: integers just past / just before a rounding midpoint of the
    target format by less than half an ulp of the NEXT wider format (a detour through double, or through
    float, rounds them the other way), and the analogous doubles / long doubles for d2f, ld2f, ld2d"""
    ints = set()
    for e in range(24, 64):
        for mant in (24, 53):
            if e < mant:
                continue
            half = 1 << (e - mant)          # half an ulp of the target at 2^e
            for base in ((1 << e), (1 << e) + (half << 1) * 3, (1 << e) + (half << 1) * 0x2A):
                for d in (1, -1, 0):
                    v = base + half + d
                    if 0 < v < (1 << 64):
                        ints.add(v)
                        ints.add((-v) & M64)
    ints = sorted(ints)
    d = lambda x: struct.unpack("<Q", struct.pack("<d", x))[0]
    dbl = []
    for e in (0, 1, 10, -20, 100, -120):
        for k in (1, 3, 0x155555):
            m = (1 << 52) + (k << 29) + (1 << 28)      # exactly at a float midpoint
            for dd in (1, -1, 0):
                dbl.append(((e + 1023) << 52) | ((m + dd) & ((1 << 52) - 1)))
    lds = []
    for k in (1, 3, 0x2AAAAA):
        for dd in (1, -1, 0):
            lds.append(f"3fff{(1 << 63) + (k << 40) + (1 << 39) + dd:016x}")     # float midpoint +- 1 ld ulp
            lds.append(f"3fff{(1 << 63) + (k << 11) + (1 << 10) + dd:016x}")     # double midpoint +- 1 ld ulp
            lds.append(f"3fff{(1 << 63) + (k << 40) + (1 << 39) + (dd << 10):016x}")
    plan = []
    for fn, m in g.meta.items():
        key = m["key"]
        name = key[1] if key[0] == "fp" else key[2] if key[0] == "ptype" and len(key) == 3 else None
        if not isinstance(name, str):
            continue
        name = name.upper()
        if name in ("I2F", "UI2F", "I2D", "UI2D", "I2LD", "UI2LD") and (key[0] == "fp" or key[1] in ("i64", "u64", "p")):
            plan += [f"call {fn} {m['sig']} {v:x}" for v in ints]
        elif key[0] == "fp" and name in ("D2F", "D2LD"):
            plan += [f"call {fn} {m['sig']} {v:x}" for v in dbl]
        elif key[0] == "fp" and name in ("LD2F", "LD2D"):
            plan += [f"call {fn} {m['sig']} {v}" for v in lds]
    return plan


def hard_fp_constants(cls, rng, n):
    """[(MIR literal, expected bits as the harness prints them)]: k + m*ulp(k) just above powers of two and round
    decimals (the values whose shortest round-trip representation needs 9 / 17 / 21 digits), extreme finite values,
    denormals, and random bit patterns; every literal carries enough digits (9 / 17 / 21 significant, computed
    with exact rational arithmetic) to denote exactly one value of the type"""
    from fractions import Fraction
    from decimal import Decimal, getcontext
    mant, emin, emax, digs, sfx = {"f": (24, -126, 127, 9, "f"), "d": (53, -1022, 1023, 17, ""), "l": (64, -16382, 16383, 21, "L")}[cls]

    def lit(fr):
        getcontext().prec = digs
        d = Decimal(fr.numerator) / Decimal(fr.denominator)     # correctly rounded to `digs` significant digits
        t = f"{d:E}"
        m_, e_ = t.split("E")
        if "." not in m_:
            m_ += ".0"
        return f"{m_}e{int(e_)}{sfx}"

    def bits_of(fr):   # fr is exactly representable and positive or negative, non-zero
        sign = 1 if fr < 0 else 0
        a = abs(fr)
        e = a.numerator.bit_length() - a.denominator.bit_length()
        if Fraction(2) ** e > a:
            e -= 1
        e = max(e, emin)
        m = a / Fraction(2) ** (e - (mant - 1))
        assert m.denominator == 1
        m = m.numerator
        if cls == "l":
            be = 0 if m < (1 << 63) else e + 16383
            return f"{(sign << 15) | be:x}{m:016x}".lstrip("0") or "0"
        w = {"f": 32, "d": 64}[cls]
        if m < (1 << (mant - 1)):
            be, frac = 0, m
        else:
            be, frac = e - emin + 1, m - (1 << (mant - 1))
        return f"{(sign << (w - 1)) | (be << (mant - 1)) | frac:x}"
    vals = []
    for k in (1, 2, 3, 10, 1000, 1024, 65536, 1000000, 123456789):
        e = k.bit_length() - 1
        ulp = Fraction(2) ** (e - (mant - 1))
        if cls == "f" and k >= (1 << 24):
            continue
        for m in (1, 2, 3, 5, 7):
            vals.append(Fraction(k) + m * ulp)
            vals.append(Fraction(k) - m * ulp / 2 if k == (1 << e) and k > 1 else -(Fraction(k) + m * ulp))
    vals += [Fraction(1, 10) .limit_denominator(10), Fraction(1, 3)]     # rounded below
    top = (Fraction(2) ** mant - 1) * Fraction(2) ** (emax - (mant - 1))
    tiny = Fraction(2) ** (emin - (mant - 1))
    vals += [top, -top, Fraction(2) ** emin, tiny, 3 * tiny, Fraction(2) ** emin - tiny]
    for _ in range(n):
        mbits = rng.next() & ((1 << mant) - 1) | (1 << (mant - 1))
        ex = rng.below(161) - 80
        vals.append(Fraction(mbits) * Fraction(2) ** (ex - (mant - 1)) * (-1 if rng.below(2) else 1))
    out, seen = [], set()
    for v in vals:
        # round arbitrary rationals to the type first (round to nearest even on the mantissa grid)
        a = abs(v)
        e = a.numerator.bit_length() - a.denominator.bit_length()
        if Fraction(2) ** e > a:
            e -= 1
        e = max(e, emin)
        q = a / Fraction(2) ** (e - (mant - 1))
        mi = q.numerator // q.denominator
        rem = q - mi
        if rem > Fraction(1, 2) or (rem == Fraction(1, 2) and mi % 2):
            mi += 1
        x = Fraction(mi) * Fraction(2) ** (e - (mant - 1)) * (-1 if v < 0 else 1)
        if x == 0 or x in seen:
            continue
        seen.add(x)
        out.append((lit(x), bits_of(x)))
    return out


def build_grid_funcs(rows, imms, rng=None, nhard=8):
    """functions for the documented opcode inventory (NOT for what the regenerated table happens to contain: a row
    the translator no longer understands must still be executed), fp/ld rows from the table's `other` rows"""
    g = Gen()
    for name in INT_OPS:
        op = name.lower()
        dom = harness_dom(name)
        g.add(("bin", name), "ii_i", f"  {op} r, a, b\n  ret r", dom=dom, shape="rr")
        g.add(("bin", name), "ii_i", f"  mov r, a\n  {op} r, r, b\n  ret r", dom=dom, shape="d=s1")
        g.add(("bin", name), "ii_i", f"  alloca p, 32\n  mov i64:8(p), b\n  {op} r, a, i64:8(p)\n  ret r",
              locs="i64:r, i64:p", dom=dom, shape="rm")
        for im in imms:
            if dom_ok(name, 1, im):
                g.add(("bin", name), "i_i", f"  {op} r, a, {simm(im)}\n  ret r", fixed_b=im, shape="ri")
        for im in imms[:3]:
            g.add(("bin", name, "swap"), "i_i", f"  {op} r, {simm(im)}, a\n  ret r", fixed_b=im, shape="ir")
    for name in BR_OPS:
        op = name.lower()
        g.add(("br", name), "ii_i", f"  {op} @t, a, b\n  mov r, 0\n  ret r\n@t:\n  mov r, 1\n  ret r", shape="br")
        for im in imms[:4]:
            g.add(("br", name), "i_i", f"  {op} @t, a, {simm(im)}\n  mov r, 0\n  ret r\n@t:\n  mov r, 1\n  ret r",
                  fixed_b=im, shape="br-ri")
    for name in EXT_OPS:
        op = name.lower()
        g.add(("ext", name), "i_i", f"  {op} r, a\n  ret r", shape="r")
        g.add(("ext", name), "i_i", f"  alloca p, 16\n  mov i64:(p), a\n  {op} r, i64:(p)\n  ret r", locs="i64:r, i64:p", shape="m")
    for name in ("NEG", "NEGS"):
        g.add(("neg", name), "i_i", f"  {name.lower()} r, a\n  ret r", shape="r")
    for name in ("BT", "BF", "BTS", "BFS"):
        if True:
            g.add(("bt", name), "i_i", f"  {name.lower()} @t, a\n  mov r, 0\n  ret r\n@t:\n  mov r, 1\n  ret r", shape="bt")
    for o in ("add", "sub", "mul", "umul"):
        for short in (0, 1):
            op = o + "o" + ("s" if short else "")
            g.add(("ov", o, short, "res"), "ii_i", f"  mov r, 0\n  {op} r, a, b\n  ret r", shape="res")
            flags = [("sov", "bo", "bno")] if o == "mul" else [("uov", "ubo", "ubno")] if o == "umul" else \
                [("sov", "bo", "bno"), ("uov", "ubo", "ubno")]
            for what, bo, bno in flags:
                g.add(("ov", o, short, what, 0), "ii_i", f"  {op} r, a, b\n  {bo} @t\n  mov r, 0\n  ret r\n@t:\n  mov r, 1\n  ret r", shape=bo)
                g.add(("ov", o, short, what, 1), "ii_i", f"  {op} r, a, b\n  {bno} @t\n  mov r, 1\n  ret r\n@t:\n  mov r, 0\n  ret r", shape=bno)
            # destination equal to a source: the emitted statements read the sources in some order around the store
            for dst in ("a", "b"):
                g.add(("ov", o, short, "res", 0, "dst=" + dst), "ii_i", f"  {op} {dst}, a, b\n  ret {dst}", locs="", shape="res dst=" + dst)
                for what, bo, bno in flags:
                    g.add(("ov", o, short, what, 0, "dst=" + dst), "ii_i", f"  {op} {dst}, a, b\n  {bo} @t\n  mov r, 0\n  ret r\n@t:\n  mov r, 1\n  ret r", shape=bo + " dst=" + dst)
                    g.add(("ov", o, short, what, 1, "dst=" + dst), "ii_i", f"  {op} {dst}, a, b\n  {bno} @t\n  mov r, 1\n  ret r\n@t:\n  mov r, 0\n  ret r", shape=bno + " dst=" + dst)
    # narrow loads / stores in several address forms (engines must coincide; the documented narrow
    # load/store theorem is C02's)
    for t in ("i8", "u8", "i16", "u16", "i32", "u32", "i64", "u64", "p"):
        forms = [("(p)", ""), ("8(p)", "  sub p, p, 8\n"), ("(p, x, 4)", "  mov x, 3\n  sub p, p, 12\n"),
                 ("-16(p, x, 8)", "  mov x, 2\n")]
        for af, pre in forms:
            g.add(("mem", "ld", t), "i_i", f"  alloca q, 48\n  add q, q, 16\n  mov i64:(q), a\n  mov p, q\n{pre}  mov r, {t}:{af}\n  ret r",
                  locs="i64:r, i64:p, i64:q, i64:x", shape="ld " + af)
            g.add(("mem", "st", t), "ii_i", f"  alloca q, 48\n  add q, q, 16\n  mov i64:(q), a\n  mov p, q\n{pre}  mov {t}:{af}, b\n  mov r, i64:(q)\n  ret r",
                  locs="i64:r, i64:p, i64:q, i64:x", shape="st " + af)
    # integer constants as operands (constant printing: "%" PRId64 / PRIu64)
    for im in imms + [0x7fffffffffffffff, 0x8000000000000001, 0xffffffff, 0x100000000, 1234567890123456789]:
        g.add(("const", "mov"), "i_i", f"  mov r, {simm(im)}\n  xor r, r, a\n  ret r", shape="imm")
        if im >> 63:
            g.add(("const", "movu"), "i_i", f"  mov r, {im}\n  xor r, r, a\n  ret r", shape="uimm")
    # address of a register
    for op in ("addr", "addr8", "addr16", "addr32"):
        if op.upper() in rows["inline"]:
            t = {"addr": "i64", "addr8": "u8", "addr16": "u16", "addr32": "u32"}[op]
            g.add(("addr", op), "ii_i", f"  mov x, a\n  {op} p, x\n  mov {t}:(p), b\n  ret x", locs="i64:x, i64:p", shape="addr")
    # gap probes (#20): expressions whose value depends on signed wrap-around being defined
    g.add(("gap", "add"), "i_i", "  add t, a, 1\n  lt r, a, t\n  ret r", locs="i64:r, i64:t", shape="a<a+1")
    g.add(("gap", "sub"), "i_i", "  sub t, a, 1\n  gt r, a, t\n  ret r", locs="i64:r, i64:t", shape="a>a-1")
    g.add(("gap", "mul"), "i_i", "  mul t, a, 2\n  div t, t, 2\n  eq r, t, a\n  ret r", locs="i64:r, i64:t", shape="a*2/2==a")
    g.add(("gap", "adds"), "i_i", "  ext32 x, a\n  adds t, x, 1\n  ext32 t, t\n  lt r, x, t\n  ret r", locs="i64:r, i64:t, i64:x", shape="a<a+1 (32)")
    g.add(("gap", "neg"), "i_i", "  neg t, a\n  lt u, t, 0\n  gt v, a, 0\n  eq r, u, v\n  ret r", locs="i64:r, i64:t, i64:u, i64:v", shape="(-a<0)==(a>0)")
    g.add(("gap", "loop"), "i_i", "  mov r, 0\n  and x, a, 7\n  add x, x, 9223372036854775800\n  mov y, x\n@l:\n  add r, r, 1\n  add y, y, 1\n"
                                  "  bge @l, y, x\n  ret r", locs="i64:r, i64:x, i64:y", shape="loop until wrap")
    # floating point / long double rows
    fp = []
    for name, helper, arg in rows["other"]:
        fp.append((name, helper, arg))
    for name, helper, arg in fp:
        op = name.lower()
        pfx = "ld" if op.startswith("ld") else op[0]
        cls = {"f": "f", "d": "d", "ld": "l"}.get(pfx)
        ty = {"f": "f", "d": "d", "l": "ld"}.get(cls)
        if helper == "out_fop3" and cls:
            if arg in ("+", "-", "*", "/"):
                g.add(("fp", name), f"{cls}{cls}_{cls}", f"  {op} r, a, b\n  ret r", locs=f"{ty}:r", res=ty, shape="rr")
            else:
                g.add(("fp", name), f"{cls}{cls}_i", f"  {op} r, a, b\n  ret r", shape="cmp")
        elif helper == "out_bfcmp" and cls:
            g.add(("fp", name), f"{cls}{cls}_i", f"  {op} @t, a, b\n  mov r, 0\n  ret r\n@t:\n  mov r, 1\n  ret r", shape="br")
        elif helper == "out_op2" and name in ("FNEG", "DNEG", "LDNEG"):
            g.add(("fp", name), f"{cls}_{cls}", f"  {op} r, a\n  ret r", locs=f"{ty}:r", res=ty, shape="r")
        elif helper == "out_op2" and name in ("FMOV", "DMOV", "LDMOV"):
            g.add(("fp", name), f"{cls}_{cls}", f"  {op} r, a\n  ret r", locs=f"{ty}:r", res=ty, shape="r")
            # immediates that need the maximal number of significant digits (9 / 17 / 21) to be re-read exactly;
            # the expected bits are known, so the scanner (strtof/strtod/strtold) is checked too
            for txt, bits in hard_fp_constants(cls, rng, nhard):
                fn_ = g.add(("fpconst", name), f"i_{cls}", f"  {op} r, {txt}\n  ret r", locs=f"{ty}:r", res=ty, shape="hard const")
                g.meta[fn_]["expect_bits"] = bits
                add_op = {"f": "fadd", "d": "dadd", "l": "ldadd"}[cls]
                g.add(("fpconst", name, "operand"), f"{cls}_{cls}", f"  {add_op} r, a, {txt}\n  ret r", locs=f"{ty}:r", res=ty, shape="hard const operand")
            if cls == "l":
                continue
            for c in ("0.0", "1.5", "-2.25", "0.1", "1e30", "-1e-30", "3.4028234e38", "1.17549435e-38", "123456.789"):
                cc = c + ("f" if cls == "f" else "")
                g.add(("fpconst", name), f"i_{cls}", f"  {op} r, {cc}\n  ret r", locs=f"{ty}:r", res=ty, shape="const " + cc)
            if cls == "d":
                for c in ("1.7976931348623157e308", "2.2250738585072014e-308", "4.9406564584124654e-324", "0.30000000000000004"):
                    g.add(("fpconst", name), "i_d", f"  dmov r, {c}\n  ret r", locs="d:r", res="d", shape="const " + c)
    conv = {"I2F": ("i_f", "f"), "I2D": ("i_d", "d"), "I2LD": ("i_l", "ld"), "UI2F": ("i_f", "f"), "UI2D": ("i_d", "d"),
            "UI2LD": ("i_l", "ld"), "F2D": ("f_d", "d"), "F2LD": ("f_l", "ld"), "D2F": ("d_f", "f"), "D2LD": ("d_l", "ld"),
            "LD2F": ("l_f", "f"), "LD2D": ("l_d", "d")}
    have = {n for n, _, _ in fp}
    for name, (sig, ty) in conv.items():
        if name in have:
            g.add(("fp", name), sig, f"  {name.lower()} r, a\n  ret r", locs=f"{ty}:r", res=ty, shape="conv")
    for name, sig, dom in (("F2I", "f_i", "f2i"), ("D2I", "d_i", "d2i"), ("LD2I", "l_i", "l2i")):
        if name in have:
            g.add(("fp", name), sig, f"  {name.lower()} r, a\n  ret r", dom=dom, shape="conv")
    return g


def int_grid(ck, quick):
    ks = [7, 8, 15, 16, 31, 32, 33, 63] if quick else [1, 2, 3, 4, 7, 8, 9, 15, 16, 17, 24, 30, 31, 32, 33, 34, 40, 47, 48, 56, 62, 63]
    v = {0, 1, 2, M64, M64 - 1, (1 << 63), (1 << 63) - 1, (1 << 31), (1 << 31) - 1, M32, (1 << 32),
         0xFFFFFFFF80000000, 0x80000000FFFFFFFF, 5, 130, 0x4000000040000000, 0x8000000080000000}
    for k in ks:
        for d in ((0,) if quick else (-1, 0)):
            v.add(((1 << k) + d) & M64)
            if k in (31, 32, 63) or (not quick and d == 0 and k in (7, 8, 15, 16, 33)):
                v.add((-((1 << k) + d)) & M64)
    for _ in range(4 if quick else 10):
        v.add(ck.rng.next())
        v.add(ck.rng.next() & M32)
    return sorted(v)


def fp_grids(ck, quick):
    d = lambda x: struct.unpack("<Q", struct.pack("<d", x))[0]
    f = lambda x: struct.unpack("<I", struct.pack("<f", x))[0]
    dv = [0, 1 << 63, d(1.0), d(-1.0), d(0.5), d(1.5), d(-2.5), 0x7ff0000000000000, 0xfff0000000000000, 0x7ff8000000000000,
          1, 0x0010000000000000, 0x7fefffffffffffff, d(1.0) + 1, d(9.2e18), d(-9.2e18), d(4294967296.0), d(-2147483649.0),
          d(3.999999), d(1e-300), d(123456789.125), d(0.1), d(16777217.0)]
    fv = [0, 1 << 31, f(1.0), f(-1.0), f(0.5), f(1.5), f(-2.5), 0x7f800000, 0xff800000, 0x7fc00000, 1, 0x00800000, 0x7f7fffff,
          f(1.0) + 1, f(9.2e18), f(-9.2e18), f(4294967296.0), f(16777217.0), f(3.999999), f(0.1)]
    # 80-bit long doubles as hhhhllllllllllllllll : sign/exponent, mantissa with explicit integer bit
    lv = ["00000000000000000000", "80000000000000000000", "3fff8000000000000000", "bfff8000000000000000", "3fffc000000000000000",
          "4000a000000000000000", "7fff8000000000000000", "ffff8000000000000000", "7fffc000000000000000", "3ffeffffffffffffffff",
          "403e8000000000000000", "c03e8000000000000000", "401f8000000000000000", "00018000000000000000", "7ffeffffffffffffffff",
          "3ffbcccccccccccccccd", "4005f6e978d4fdf3b646"]
    for _ in range(3 if quick else 12):
        dv.append(d((ck.rng.below(2000001) - 1000000) / 7.0))
        fv.append(f((ck.rng.below(2000001) - 1000000) / 7.0))
    return dv, fv, lv


def canon_fp(cls, r):
    """NaN payload / sign propagation is not part of the comparison"""
    if r.startswith("!"):
        return r
    v = int(r, 16)
    if cls == "f" and (v & 0x7f800000) == 0x7f800000 and (v & 0x7fffff):
        return "nan"
    if cls == "d" and (v & 0x7ff0000000000000) == 0x7ff0000000000000 and (v & 0xfffffffffffff):
        return "nan"
    if cls == "l" and ((v >> 64) & 0x7fff) == 0x7fff and (v & M64) != (1 << 63):
        return "nan"
    return f"{v:x}"


def agree_py(name, r, d):
    base, short = base_of(name)
    if short and base not in CMPS:
        return (r & M32) == (d & M32)
    return r == d


class Stage:
    def __init__(self, ck, run, work):
        self.ck, self.run, self.work = ck, run, work
        os.environ["C20_RUN"] = run

    def engine(self, text, plan, tag, engs=ENGS, timeout=300, quiet=True, std=None):
        env_old = os.environ.get("C20_STD")
        if std is not None:
            os.environ["C20_STD"] = std
        try:
            return progtie.run_engine(ENGINE, engs, text, plan, self.work, tag, timeout=timeout, quiet=quiet)
        finally:
            if std is not None:
                if env_old is None:
                    os.environ.pop("C20_STD", None)
                else:
                    os.environ["C20_STD"] = env_old


def parse_R(lines, neng):
    """R lines -> list of (fname, [args], [result per engine])"""
    out, errs = [], []
    for ln in lines:
        if ln.startswith("E "):
            errs.append(ln)
        elif ln.startswith("R "):
            left, right = ln[2:].split(" |")
            lt = left.split()
            rs = right.split()
            if len(rs) == 1 and rs[0].startswith("="):
                rs = [rs[0][1:]] * neng
            out.append((lt[0], lt[1:], rs))
    return out, errs


# ------------------------------------------------------------------------------------------------ stage A
def stage_templates(ck, st, rows, quick, viol):
    imms = [0, 1, 2, 31, 32, 63, 130, (1 << 31), (1 << 40), M64, (1 << 63), 0xFFFFFFFF80000000]
    if not quick:
        imms += [3, 33, 64, (1 << 31) - 1, (1 << 32), M64 - 1, 255, 65536]
    g = build_grid_funcs(rows, imms, ck.rng, 8 if quick else 60)
    iv = int_grid(ck, quick)
    dv, fv, lv = fp_grids(ck, quick)
    plan = ["ivals " + " ".join(f"{x:x}" for x in iv), "dvals " + " ".join(f"{x:x}" for x in dv),
            "fvals " + " ".join(f"{x:x}" for x in fv), "lvals " + " ".join(lv)]
    for fn, m in g.meta.items():
        plan.append(f"grid {fn} {m['sig']} {m['dom'] if m['fixed_b'] is None else 'any'}")
    plan += build_param_funcs(g)
    plan += conversion_calls(g)
    text = g.text()
    rc, lines, err = st.engine(text, "\n".join(plan) + "\n", "grid", timeout=600)
    errs = [l for l in lines if l.startswith("E ")]
    raw = [l for l in lines if l.startswith("R ")]
    del lines

    def evals_iter():
        for ln in raw:
            left, right = ln[2:].split(" |")
            lt = left.split()
            rs = right.split()
            if len(rs) == 1 and rs[0].startswith("="):
                rs = [rs[0][1:]] * len(ENGS)
            yield lt[0], lt[1:], rs
    evals = raw
    ck.log(f"stage A: {len(g.meta)} functions, grid {len(iv)} ints/{len(dv)} doubles/{len(fv)} floats/{len(lv)} long doubles, "
           f"{len(evals)} evaluations x {len(ENGS)} engines")
    if rc != 0 or errs or not evals:
        ck.broken_ties.append({"kind": "template-grid-run", "rc": rc, "errors": errs[:3], "stderr": err[-400:]})
        return g, {"evaluations": 0}
    # oracle requests
    req, idx = [], []
    for i, (fn, args, rs) in enumerate(evals_iter()):
        m = g.meta[fn]
        key = m["key"]
        if m["sig"].startswith("l"):
            continue
        a = int(args[0], 16)
        b = int(args[1], 16) if len(args) > 1 else (m["fixed_b"] or 0)
        if key[0] == "bin":
            x, y = (b, a) if len(key) > 2 else (a, b)
            if m["fixed_b"] is not None and not dom_ok(key[1], x, y):
                continue
            req.append(f"bin {key[1]} {x:x} {y:x}")
        elif key[0] == "br":
            req.append(f"br {key[1]} {a:x} {b:x}")
        elif key[0] in ("ext", "neg", "bt"):
            req.append(f"{key[0]} {key[1]} {a:x}")
        elif key[0] == "ov":
            req.append(f"ov {key[1]} {key[2]} {a:x} {b:x}")
        else:
            continue
        idx.append(i)
    rc, out, err = ck.drv("mirdrv_c20", [], "\n".join(req) + "\n")
    exp = out.split("\n")
    if rc != 0 or len(exp) < len(req):
        ck.broken_ties.append({"kind": "oracle-run", "rc": rc, "err": err[-500:]})
        return g, {"evaluations": 0}
    oracle = dict(zip(idx, exp))
    dist, shapes = collections.Counter(), collections.Counter()
    class _Distinct:
        """distinct non-trivial cases, counted without storing them: grid points are distinct within one
        function, so only the first function of every semantic key is counted (a lower bound)"""
        def __init__(self):
            self.first, self.n = {}, 0

        def add(self, case):
            if self.first.setdefault(case[0], self.cur) == self.cur:
                self.n += 1

        def __len__(self):
            return self.n
    nontriv = _Distinct()
    stats = collections.Counter()
    bad = collections.OrderedDict()      # (class, key) -> record

    def record(cls, fn, a, b, rs, why, model=None, doc=None, prop_fails=True):
        m = g.meta[fn]
        k = (cls, m["key"], prop_fails)
        if k not in bad:
            bad[k] = {"func": fn, "key": list(m["key"]), "shape": m["shape"], "sig": m["sig"], "a": f"{a:x}", "b": f"{b:x}",
                      "engines": ENGS, "observed": dict(zip(ENGS, rs)), "model": model, "documented": doc, "why": why,
                      "count": 0, "points": [], "mir": g.text(only={fn}), "property_fails": prop_fails}
        bad[k]["count"] += 1
        if len(bad[k]["points"]) < 12:
            bad[k]["points"].append([f"{a:x}", f"{b:x}", rs])

    for i, (fn, args, rs) in enumerate(evals_iter()):
        m = g.meta[fn]
        key = m["key"]
        nontriv.cur = fn
        a = int(args[0], 16) if not m["sig"].startswith("l") else 0
        b = int(args[1], 16) if len(args) > 1 and not m["sig"].startswith("l") else (m["fixed_b"] or 0)
        kind = key[0]
        dist[kind] += 1
        shapes[m["shape"]] += 1
        if any(r.startswith("!") for r in rs):
            if kind in ("bin", "fp") and rs[0].startswith("!"):
                stats["reference_trapped_skipped"] += 1
                continue
            record("crash", fn, a, b, rs, "an engine crashed or timed out")
            continue
        if kind in ("bin", "neg"):
            if i not in oracle:
                stats["outside_domain_skipped"] += 1
                continue
            e = oracle[i].split()
            if e[0] == "bad-line" or len(e) < 3:
                record("norow", fn, a, b, rs, "oracle does not know the opcode", prop_fails=False)
                continue
            name = key[1]
            c0, c1, doc = e[0], e[1], e[2]
            if c0 == "norow":     # the translator does not understand the row any more: judge by the documented result alone
                stats["rows_not_understood_points"] += 1
                if doc != "undef" and any(not agree_py(name, int(r, 16), int(doc, 16)) for r in rs[1:]):
                    record("template", fn, a, b, rs, "compiled C differs from the documented result (row not understood by the translator)", model=oracle[i], doc=doc)
                continue
            if doc == "undef":
                stats["outside_domain_skipped"] += 1
                continue
            nontriv.add((key, a, b))
            dv_ = int(doc, 16)
            vals = [int(r, 16) for r in rs]
            if not agree_py(name, vals[0], dv_):
                record("interp-vs-doc", fn, a, b, rs, "MIR_interp differs from the documented result (C02's concern)", doc=doc, prop_fails=False)
                continue
            for en, v in zip(ENGS[1:], vals[1:]):
                c = c1 if en == "O2w" else c0
                if c == "undef":     # emitted C undefined without -fwrapv (gap #20)
                    stats["gap_points"] += 1
                    if v != int(c1, 16):
                        stats["gap_points_where_gcc_differs"] += 1
                    if not agree_py(name, v, dv_):
                        record("gap-exploited", fn, a, b, rs, f"{en}: emitted C is undefined here (signed overflow) and gcc's result differs", model=oracle[i], doc=doc)
                    continue
                if not agree_py(name, v, dv_):
                    record("template", fn, a, b, rs, f"{en}: compiled C differs from the documented result", model=oracle[i], doc=doc)
                    break
                if v != int(c, 16):
                    record("model", fn, a, b, rs, f"{en}: compiled C differs from the Lean model of the emitted text", model=oracle[i], doc=doc, prop_fails=False)
                    break
        elif kind in ("br", "ext", "bt"):
            e = oracle[i].split()
            if e[0] == "bad-line":
                record("norow", fn, a, b, rs, "oracle does not know the opcode", prop_fails=False)
                continue
            if e[0] == "undef":
                continue
            nontriv.add((key, a, b))
            if e[0] == "norow":
                stats["rows_not_understood_points"] += 1
                e[0] = e[1]
            c, doc = int(e[0], 16), int(e[1], 16)
            vals = [int(r, 16) for r in rs]
            if vals[0] != doc:
                record("interp-vs-doc", fn, a, b, rs, "MIR_interp differs from the documented result (C02's concern)", doc=e[1], prop_fails=False)
            elif any(v != doc for v in vals[1:]):
                record("template", fn, a, b, rs, "compiled C differs from the documented result", model=oracle[i], doc=e[1])
            elif c != doc:
                record("model", fn, a, b, rs, "Lean model of the emitted text differs from the compiled C", model=oracle[i], doc=e[1], prop_fails=False)
        elif kind == "ov":
            e = oracle[i].split()
            _, o, short, what = key[:4]
            neg = key[4] if len(key) > 4 else 0
            nontriv.add((key, a, b))
            vals = [int(r, 16) for r in rs]
            if what == "res":
                mres, dres = int(e[0], 16), int(e[3], 16)
                msk = M32 if short else M64
                if (vals[0] & msk) != (dres & msk):
                    record("interp-vs-doc", fn, a, b, rs, "MIR_interp differs from the documented result", doc=e[3], prop_fails=False)
                elif any((v & msk) != (dres & msk) for v in vals[1:]):
                    record("template", fn, a, b, rs, "stored result of the overflow builtin differs from the documented result", model=oracle[i], doc=e[3])
                elif mres != dres:
                    record("model", fn, a, b, rs, "Lean model of the builtin differs", model=oracle[i], doc=e[3], prop_fails=False)
            else:
                mflag = e[1] if what == "sov" else e[2]
                dflag = e[4] if what == "sov" else e[5]
                want_doc = int(dflag)      # the functions return 1 iff the flag is set (both polarities)
                want_model = int(mflag)
                if vals[0] != want_doc:
                    record("interp-vs-doc", fn, a, b, rs, "MIR_interp differs from the documented flag", doc=dflag, prop_fails=False)
                elif any(v != want_doc for v in vals[1:]):
                    cls = "ubo-signed" if (what == "uov" and o in ("add", "sub") and all(v == want_model for v in vals[1:])) else "template"
                    record(cls, fn, a, b, rs, "the flag the compiled C branches on differs from the documented overflow flag", model=oracle[i], doc=dflag)
                elif want_model != want_doc:
                    record("model", fn, a, b, rs, "Lean model of the tested flag differs from the compiled C", model=oracle[i], doc=dflag, prop_fails=False)
        elif kind == "gap":
            nontriv.add((key, a, b))
            if any(r != rs[0] for r in rs[1:3]):
                stats["gap_probe_points_exploited"] += 1
                record("gap-exploited", fn, a, b, rs, "the value depends on signed wrap-around, which the emitted C leaves undefined: gcc without -fwrapv computes something else")
            elif rs[3] != rs[0]:
                record("template", fn, a, b, rs, "-O2 -fwrapv differs from MIR_interp")
            else:
                stats["gap_probe_points_same"] += 1
        else:   # fp, fpconst, mem, const, addr: all engines must coincide with MIR_interp
            cls = m["sig"].split("_")[1]
            got = [canon_fp(cls, r) for r in rs] if cls in "fdl" else rs
            nontriv.add((key, tuple(args)))
            if any(x != got[0] for x in got[1:]):
                record("engines", fn, a, b, rs, "compiled C differs from MIR_interp")
            elif m.get("expect_bits") is not None:
                stats["hard_fp_immediates"] += 1
                if int(rs[0], 16) != int(m["expect_bits"], 16):
                    record("model", fn, a, b, rs, f"the literal denotes {m['expect_bits']} (exact rational arithmetic) but every engine returns {rs[0]}",
                           model=m["expect_bits"], prop_fails=False)
    info = {"evaluations": len(evals) * len(ENGS), "distinct_nontrivial": len(nontriv), "by_kind": dict(dist), "by_shape_top": dict(shapes.most_common(12)),
            "functions": len(g.meta), "grid_ints": len(iv), "stats": dict(stats), "failing_classes": len(bad)}
    for (cls, key, pf), rep in bad.items():
        viol.append((cls, rep))
    return g, info


def classify_template(cls, rep, st=None):
    """signature of a known defect class, derived from the failing points of the minimised replay"""
    key = rep["key"]
    if cls in ("engines", "gap-exploited", "crash") and st is not None:
        pts = [p[2] for p in rep["points"]]
        if all(p[1] == p[0] and p[3] == p[0] and p[2] != p[0] for p in pts):
            sigs = attribute_ub(st, rep["mir"], rep["case"]["plan"], False)
            if len(sigs) == 1:
                return sigs[0]
    if cls == "ubo-signed":
        return SIG_UBO
    if cls == "gap-exploited":
        return SIG_WRAP
    if cls == "template" and key[0] == "bin" and key[1] == "UGE":
        # `>` instead of `>=` differs exactly where the operands are equal, and yields 0 there
        if all(p[0] == p[1] or len(key) > 2 for p in rep["points"]) and all(int(r, 16) == 0 for p in rep["points"] for r in p[2][1:]):
            return SIG_UGE
    return None


def attribute_ub(st, text, plan, is_prog):
    """a case where only the optimised build WITHOUT -fwrapv -fno-strict-aliasing differs: which option repairs it?
    -> list of signatures (derived from the observed behaviour of the four builds)"""
    engs = ["interp", "O2", "O2v", "O2a"]
    rc, lines, err = st.engine(text, plan, "ubq", engs=engs)
    if is_prog:
        res, errs = progtie.parse(lines)
        rows_ = [r["results"] if not r["same"] else ["", "", "", ""] for r in res]
        rows_ = [[x.endswith("*") or x.startswith("!") for x in r] for r in rows_]
    else:
        ev, errs = parse_R(lines, 4)
        rows_ = [[x != rs[0] for x in rs] for _, _, rs in ev]
    if rc != 0 or errs or not rows_ or not any(r[1] for r in rows_):
        return []
    v_ok = not any(r[2] for r in rows_)
    a_ok = not any(r[3] for r in rows_)
    if v_ok and not a_ok:
        return [SIG_WRAP]
    if a_ok and not v_ok:
        return [SIG_ALIAS]
    return [SIG_WRAP, SIG_ALIAS]


def _isnan64(w):
    return (w >> 52) & 0x7ff == 0x7ff and (w & ((1 << 52) - 1)) != 0


def _mem_equal_mod_nan(a, b):
    """buffer dumps equal except for the sign bit of 8-byte slots (relative to the buffer start, offset 32
    of the dump) that hold a NaN in both"""
    if a == b:
        return True
    if len(a) != len(b):
        return False
    for off in range(len(a) // 2):
        if a[2 * off:2 * off + 2] == b[2 * off:2 * off + 2]:
            continue
        slot = 32 + ((off - 32) // 8) * 8
        wa = int.from_bytes(bytes.fromhex(a[2 * slot:2 * slot + 16]), "little")
        wb = int.from_bytes(bytes.fromhex(b[2 * slot:2 * slot + 16]), "little")
        if not (_isnan64(wa) and _isnan64(wb) and (wa ^ wb) == 1 << 63):
            return False
    return True


def _log_canon(entries):
    """call-log entries `id:a,b,c,d`; extd (id 5) logs the bits of its double argument: NaN sign dropped"""
    out = []
    for e in entries:
        i, _, rest = e.partition(":")
        f = rest.split(",")
        if i == "5" and f and _isnan64(int(f[0], 16)):
            f[0] = "nan"
        out.append(i + ":" + ",".join(f))
    return out


def observe(st, text, plan, engs, tag="obs"):
    """run one program on all engines (not quiet) -> list of per-input dicts eng -> (value, log, mem); an engine
    the harness printed no M/L line for observed exactly what MIR_interp observed"""
    rc, lines, err = st.engine(text, plan, tag, engs=engs, quiet=False)
    errs = [l for l in lines if l.startswith("E ")]
    if rc != 0 or errs:
        return None, (errs + [err[-200:]])[0]
    recs, cur = [], None
    for l in lines:
        t = l.split()
        if l.startswith("P "):
            right = l.split(" | ")[1].split()
            if right[0].startswith("="):
                vals = [right[0][1:]] * len(engs)
            else:
                vals = [x.rstrip("*") for x in right]
            cur = {"vals": dict(zip(engs, vals)), "mem": {}, "log": {}}
            recs.append(cur)
        elif l.startswith("M ") and cur is not None and len(t) >= 4:
            cur["mem"][t[2]] = t[3]
        elif l.startswith("L ") and cur is not None and len(t) >= 3:
            cur["log"][t[2]] = t[3:]
    return recs, None


def engine_verdicts(recs, engs):
    """per engine: 'same' | 'nan-sign' (differs only by the sign of NaNs stored/logged) | 'differs'"""
    out = {}
    for e in engs[1:]:
        v = "same"
        for r in recs:
            if r["vals"][e] != r["vals"]["interp"]:
                v = "differs"
                break
            rm, em = r["mem"].get("interp"), r["mem"].get(e)
            rl, el = r["log"].get("interp"), r["log"].get(e)
            if em is None and el is None:
                continue
            if _log_canon(el or []) != _log_canon(rl or []) or not _mem_equal_mod_nan(rm or "", em or ""):
                v = "differs"
                break
            if em != rm or el != rl:
                v = "nan-sign"
        out[e] = v
    return out


# ------------------------------------------------------------------------------------------------ stage B
def rewrite_known(P):
    """keep the random stream inside what mir2c translates correctly today: the two listed template defects
    are replaced by equivalent instructions (they are re-found by stage A and replayed from corpus/C20)"""
    n = 0
    for fi, (name, header, locs, insns) in enumerate(P.funcs):
        out = []
        for ins in insns:
            if ins[0] == "uge":
                ins = ("ule", ins[1], ins[3], ins[2]); n += 1
            if ins[0] in ("ubo", "ubno") and out and out[-1][0] in ("addo", "subo", "addos", "subos"):
                ins = ({"ubo": "bo", "ubno": "bno"}[ins[0]],) + ins[1:]; n += 1
            out.append(ins)
        P.funcs[fi] = (name, header, locs, out)
    return n


def stage_programs(ck, st, nprogs, per_batch, viol, known_present):
    opts = dict(switch=not ck.is_known(SIG_MISSING))
    progs, stats = [], {}
    nrew = 0
    for k in range(nprogs):
        P, es = mirgen.gen_program(ck.rng, f"m{k}", opts=opts)
        if known_present:
            nrew += rewrite_known(P)
        for s, v in P.stats.items():
            stats[s] = stats.get(s, 0) + v
        progs.append((P, es))
    batches = [progs[i:i + per_batch] for i in range(0, len(progs), per_batch)]
    fails, nev = [], 0
    with ThreadPoolExecutor(max_workers=8) as ex:
        futs = [ex.submit(progtie.check_batch, ENGINE, ENGS, b, mirgen.ARGSETS, st.work, f"pb{i}") for i, b in enumerate(batches)]
        for f in futs:
            fl, n = f.result()
            fails += fl
            nev += n
    # every failing program is re-run alone on six builds and judged per engine
    byprog = collections.OrderedDict()
    for f in fails:
        byprog.setdefault(f["entry"], []).append(f)
    ALL = ["interp", "O0", "O2", "O2w", "O2v", "O2a"]
    ub_counts, n_nan, n_wrap = {}, 0, 0
    classes = collections.OrderedDict()

    def judge(entry):
        fl = byprog[entry]
        f = fl[0]
        text = f["prog"].text()
        plan = progtie.plan_for([entry], mirgen.ARGSETS)
        if f["kind"] == "engine-abort":
            return entry, "abort", None, text, plan
        recs, e = observe(st, text, plan, ALL, tag="obs_" + entry)
        if recs is None:
            return entry, "abort", e, text, plan
        return entry, "judged", engine_verdicts(recs, ALL), text, plan
    with ThreadPoolExecutor(max_workers=8) as ex:
        judged = list(ex.map(judge, list(byprog)))
    for entry, how, verd, text, plan in judged:
        f = byprog[entry][0]
        sigs = []
        if how == "judged":
            if verd["O0"] != "differs" and verd["O2w"] != "differs":
                if verd["O2"] == "differs":
                    # only the optimised build without -fwrapv -fno-strict-aliasing differs: which option repairs it?
                    v_ok, a_ok = verd["O2v"] != "differs", verd["O2a"] != "differs"
                    sigs = [SIG_WRAP] if v_ok and not a_ok else [SIG_ALIAS] if a_ok and not v_ok else [SIG_WRAP, SIG_ALIAS]
                    n_wrap += 1
                    for s_ in sigs:
                        ub_counts[s_] = ub_counts.get(s_, 0) + 1
                else:
                    n_nan += 1     # nothing but NaN signs
                    continue
            key = ("ub", tuple(sigs)) if sigs else ("differ", tuple(sorted(verd.items())))
        else:
            key = ("abort", str(verd or f["results"])[:60])
        classes.setdefault(key, []).append((f, text, plan, verd, sigs))
    for key, lst in classes.items():
        f, text, plan, verd, sigs = lst[0]
        rep = {"stage": "programs", "kind": f["kind"], "entry": f["entry"], "plan": plan, "engines": ENGS,
               "results_per_engine": f["results"], "verdict_per_build": verd, "same_class_count": len(lst),
               "how_to_rerun": "./check C20 --replay <this file>"}
        if not sigs:
            try:
                text = progtie.shrink_text(ENGINE, ["interp", "O0", "O2w"], text, plan, f["entry"], st.work, kind=f["kind"], budget=40)
            except Exception as ex:
                ck.log("shrink failed:", ex)
        rep["mir"] = text
        rep["case"] = {"kind": "prog", "mir": text, "plan": plan, "engines": ENGS if sigs else ["interp", "O0", "O2w"]}
        what = ((f"compiled translation and MIR_interp disagree on a well-defined program ({f['entry']}): per build {verd}; "
                 + " ".join(f"{e}={r}" for e, r in zip(ENGS, f["results"])))[:400] if f["kind"] == "engines-differ"
                else f"translation pipeline aborted on a well-defined program: {str(verd or f['results'])[:240]}")
        for sg in (sigs or [None]):
            viol.append(("program:" + (sg or "unlisted"), dict(rep, signature=sg, what=what)))
    return {"programs": nprogs, "evaluations": nev * len(ENGS), "constructs": stats, "rewritten_known_defect_insns": nrew,
            "failing_programs": len(byprog), "failure_classes": len(classes),
            "programs_where_only_the_O2_build_without_fwrapv_fno_strict_aliasing_differs": n_wrap,
            "of_these_repaired_by": ub_counts, "programs_differing_only_in_the_sign_of_stored_NaNs": n_nan, "options": opts}


# ------------------------------------------------------------------------------------------------ stage C
DTYPES = [("i8", 1), ("u8", 1), ("i16", 2), ("u16", 2), ("i32", 4), ("u32", 4), ("i64", 8), ("u64", 8)]


def gen_data_module(rng, name, allow_anon, scalar_ok=False, allow_refs=True):
    """module with data sections and a reader  i64 f (i64 k)  returning a hash of all section bytes"""
    items, lines, sections = [], [], []   # sections: (head name, total bytes)
    nsec = 1 + rng.below(4)
    for s in range(nsec):
        head = f"{name}_s{s}"
        nmem = 1 + (rng.below(3) if allow_anon else 0)
        tot = 0
        for j in range(nmem):
            kind = rng.below(6)
            label = f"{head}: " if j == 0 else "    "
            if kind == 5:
                ln = 1 + rng.below(9)
                lines.append(f"{label}bss {ln}")
                items.append(("N" if j == 0 else "A") + "b")
                tot += ln
            else:
                t, sz = DTYPES[rng.below(len(DTYPES))]
                nel = (2 if not scalar_ok else 1) + rng.below(3)
                vals = [str(rng.below(1 << (8 * sz - 1)) if sz < 8 else rng.below(1 << 62)) for _ in range(nel)]
                lines.append(f"{label}{t} " + ", ".join(vals))
                items.append(("N" if j == 0 else "A") + "d")
                tot += sz * nel
        sections.append((head, tot))
    body = ["  mov acc, k"]
    for head, tot in sections:
        body.append(f"  mov p, {head}")
        for off in range(tot):
            body.append(f"  mov t, u8:{off}(p)")
            body.append("  mul acc, acc, 31")
            body.append("  xor acc, acc, t")
    # ref data: sections of stored addresses `ref <section head>, <disp>` (named heads and anonymous members,
    # mixed with plain data members); displacements positive, negative, inside and beyond the target's first
    # member / the whole target; targets are multi-item sections, scalars and bss.  The stored address is read
    # back: its distance to the target's address enters the result, and so does the byte it points to when
    # it lies inside the target.
    refsecs = []
    if allow_refs:
        for s_ in range(1 + rng.below(3)):
            head = f"{name}_r{s_}"
            nmem = 1 + (rng.below(3) if allow_anon else 0)
            off = 0
            for j in range(nmem):
                label = f"{head}: " if j == 0 else "    "
                if j > 0 and rng.below(3) == 0:
                    v = rng.below(1 << 15)
                    lines.append(f"{label}u16 {v}, {v ^ 0x55}")
                    body += [f"  mov p, {head}", f"  mov t, u16:{off}(p)", "  mul acc, acc, 31", "  xor acc, acc, t",
                             f"  mov t, u16:{off + 2}(p)", "  mul acc, acc, 31", "  xor acc, acc, t"]
                    off += 4
                    continue
                thead, ttot = sections[rng.below(len(sections))]
                disp = [8, 1, -8, -3, 0, ttot - 1, ttot, ttot + 5, 40, 2, 16, -1][rng.below(12)]
                lines.append(f"{label}ref {thead}, {disp}")
                body += [f"  mov p, {head}", f"  mov q, i64:{off}(p)", f"  mov p, {thead}", "  sub t, q, p",
                         "  mul acc, acc, 1000003", "  xor acc, acc, t"]
                if 0 <= disp < ttot:
                    body += ["  mov t, u8:(q)", "  mul acc, acc, 31", "  xor acc, acc, t"]
                off += 8
            refsecs.append((head, off))
    # write through the pointer into every data section and read back (data must be writable memory)
    for head, tot in sections:
        body += [f"  mov p, {head}", "  mov u8:(p), k", "  mov t, u8:(p)", "  add acc, acc, t",
                 f"  mov u8:{tot - 1}(p), acc", f"  mov t, u8:{tot - 1}(p)", "  mul acc, acc, 31", "  xor acc, acc, t"]
    body.append("  ret acc")
    fname = f"{name}_f"
    func = f"{fname}: func i64, i64:k\n  local i64:acc, i64:p, i64:q, i64:t\n" + "\n".join(body) + "\n  endfunc"
    heads = [h for h, _ in sections + refsecs]
    # where the items are declared relative to the function that takes their addresses: the reference operand
    # then goes through a forward item, an export item, or the definition itself
    layout = [0, 1, 1, 3, 4, 4, 2][rng.below(7)]
    data = "\n".join(lines)
    if layout == 0:
        parts = [data, func]
    elif layout == 1:
        parts = ["\n".join(f"forward {h}" for h in heads), func, data]
    elif layout == 2:
        parts = ["\n".join(f"export {h}" for h in heads), func, data]
    elif layout == 3:
        parts = [data, "\n".join(f"export {h}" for h in heads), func]
    else:
        parts = ["\n".join(f"forward {h}" for h in heads), func, data, "\n".join(f"export {h}" for h in heads[::2])]
    text = f"{name}: module\nexport {fname}\n" + "\n".join(parts) + "\n  endmodule\n"
    sections = sections + refsecs
    return text, fname, items + ["No"] * 0, sections


def stage_sections(ck, st, nmods, loop_fixed, viol):
    info = collections.Counter()
    samples = []
    mods = []
    for k in range(nmods):
        allow_anon = k % 2 == 1
        text, fname, items, sections = gen_data_module(ck.rng, f"d{k}", allow_anon, scalar_ok=not ck.is_known(SIG_REF))
        mods.append((text, fname, items, sections))

    def one(k):
        text, fname, items, sections = mods[k]
        mir = os.path.join(st.work, f"sec{k}.mir")
        cfile = os.path.join(st.work, f"sec{k}.c")
        open(mir, "w").write(text)
        rc, out, err = c20_engine.emit(st.run, mir, cfile, maxbytes=4 * 1024 * 1024, secs=5)
        enc = [l.split()[2] for l in out.split("\n") if l.startswith("M ") and len(l.split()) > 2]
        ctext = open(cfile, errors="replace").read()[:200000] if os.path.exists(cfile) else ""
        ccerr = ""
        if rc == 0:
            q = subprocess.run(["gcc", "-fsyntax-only", "-w", cfile], stdout=subprocess.PIPE, stderr=subprocess.STDOUT, text=True)
            if q.returncode != 0:
                ccerr = "\n".join([l for l in q.stdout.split("\n") if ": error: " in l][:40]) or q.stdout[-300:]
        try:
            os.remove(cfile)
        except OSError:
            pass
        return rc, enc[0] if enc else "", ctext, ccerr
    with ThreadPoolExecutor(max_workers=8) as ex:
        emitted = list(ex.map(one, range(nmods)))
    # model verdicts
    req = [f"sect {1 if loop_fixed else 0} 200 {enc}" for rc, enc, _, _ in emitted]
    rc, out, err = ck.drv("mirdrv_c20", [], "\n".join(req) + "\n")
    model = out.split("\n")
    runnable = []
    for k, ((erc, enc, ctext, ccerr), (text, fname, items, sections)) in enumerate(zip(emitted, mods)):
        mv = model[k].split() if k < len(model) else []
        model_div = "DIVERGE" in mv
        real_div = erc in (41, 42, -99)
        info["modules"] += 1
        info["model_diverges" if model_div else "model_terminates"] += 1
        if erc not in (0, 41, 42, -99):
            viol.append(("section:crash", {"stage": "sections", "mir": text, "rc": erc, "items": enc, "signature": None,
                                          "case": {"kind": "emit", "mir": text},
                                          "what": f"MIR_module2c crashed (rc {erc}) on a module with data sections ({enc})"}))
            continue
        if model_div != real_div:
            ck.broken_ties.append({"kind": "correspondence", "name": "section-printer termination",
                                   "first_diff": {"items": enc, "model": model[k] if k < len(model) else None, "emit_rc": erc, "mir": text}})
            continue
        if real_div:
            info["translator_does_not_terminate"] += 1
            viol.append(("section:loop", {"stage": "sections", "mir": text, "rc": erc, "items": enc, "model": model[k], "signature": SIG_LOOP,
                                          "case": {"kind": "emit", "mir": text},
                                          "what": "MIR_module2c does not terminate on a module whose named data item is followed by an anonymous one "
                                                  f"(items {enc}; watchdog: {'output limit' if erc == 41 else 'alarm'}); the Lean model of the loop diverges too"}))
            continue
        # member lists: the declaration pass of every section head
        heads = [i for i, e in enumerate(enc.split(",")) if e[0] == "N" and e[1] in "drb"]
        exp_members = []
        for i in heads:
            m = re.match(r"\[\[([\d,]*)\]", mv[i]) if i < len(mv) else None
            exp_members.append(len(m.group(1).split(",")) if m and m.group(1) else 0)
        got_members = []
        for head, _ in sections:
            m = re.search(r"struct[^{;]*\{([^}]*)\} " + re.escape(head) + r"\b", ctext)
            if m:
                got_members.append(len([x for x in m.group(1).split(";") if x.strip()]))
            else:
                got_members.append(1 if re.search(r"\b" + re.escape(head) + r"\b", ctext) else 0)
        if exp_members != got_members:
            ck.broken_ties.append({"kind": "correspondence", "name": "section-printer members",
                                   "first_diff": {"items": enc, "model": exp_members, "emitted": got_members, "mir": text}})
            continue
        info["member_lists_equal"] += 1
        if ccerr:
            kinds = cc_kinds(ccerr)
            info["rejected_by_gcc"] += 1
            for sg in (sorted(kinds) if kinds and None not in kinds else [None]):
                viol.append(("section:rejected", {"stage": "sections", "mir": text, "items": enc, "signature": sg, "cc_error": ccerr[:600],
                                                 "case": {"kind": "emit", "mir": text, "compile": True},
                                                 "what": f"translation of a data-section module is rejected by gcc: {ccerr[:300]}"}))
            continue
        if len(samples) < 2:
            samples.append({"items": enc, "model": model[k], "members": got_members})
        runnable.append(k)
    # run the translations that exist
    nrun = 0
    for i in range(0, len(runnable), 10):
        ks = runnable[i:i + 10]
        text = "".join(mods[k][0] for k in ks)
        plan = "".join(f"call {mods[k][1]} i_i {a:x}\n" for k in ks for a in (0, 1, 0x1234567))
        rc, lines, err = st.engine(text, plan, f"secrun{i}")
        ev, errs = parse_R(lines, len(ENGS))
        nrun += len(ev)
        if errs or rc != 0:
            viol.append(("section:abort", {"stage": "sections", "mir": text, "plan": plan, "errors": errs[:3], "signature": None,
                                          "case": {"kind": "grid", "mir": text, "plan": plan, "engines": ENGS},
                                          "what": f"translation of a data-section module is not compiled/run: {(errs + [err[-200:]])[0][:300]}"}))
            continue
        for fn, args, rs in ev:
            if any(r != rs[0] for r in rs):
                k = [k for k in ks if mods[k][1] == fn][0]
                viol.append(("section:bytes", {"stage": "sections", "mir": mods[k][0], "plan": f"call {fn} i_i {args[0]}\n", "engines": ENGS,
                                              "observed": dict(zip(ENGS, rs)), "signature": None,
                                              "case": {"kind": "grid", "mir": mods[k][0], "plan": f"call {fn} i_i {args[0]}\n", "engines": ENGS},
                                              "what": f"data read back through the compiled translation differs from MIR_interp: {dict(zip(ENGS, rs))}"}))
                break
    info["read_back_evaluations"] = nrun * len(ENGS)
    return dict(info), samples


# ------------------------------------------------------------------------------------------------ stage D
def corpus_texts(ck, quick):
    texts = []
    for f in sorted(glob.glob(os.path.join(REPO, "mir-tests", "*.mir"))):
        texts.append(("mir-tests/" + os.path.basename(f), open(f, "rb").read().decode("latin-1")))
    srcs = [os.path.join(REPO, p) for p in ("c2mir/c2mir-driver.c", "c2mir/c2mir.c", "mir.c", "mir-gen.c")]
    c2m = ck.cc("c10_c2m", srcs, flags=["-O1", "-DNDEBUG", "-w"])
    if c2m is None:
        ck.broken_ties.append({"kind": "harness-compile", "name": "c2m", "log": ck.last_cc_log[-800:]})
        return texts
    cfiles = []
    for d in ("new", "lacc", "andrewchambers_c", "gcc", "mir", "havoc"):
        cfiles += sorted(glob.glob(os.path.join(REPO, "c-tests", d, "*.c")))
    if quick:
        pick = sorted({ck.rng.below(len(cfiles)) for _ in range(60)})
        cfiles = [cfiles[i] for i in pick]
    tmp = tempfile.mkdtemp(prefix="c20c_", dir=os.path.join(VERIF, ".cache"))

    def one(f):
        out = os.path.join(tmp, "%x.mir" % (hash(f) & 0xFFFFFFFF))
        try:
            p = subprocess.run([c2m, "-S", os.path.basename(f), "-o", out], cwd=os.path.dirname(f), stdout=subprocess.DEVNULL,
                               stderr=subprocess.DEVNULL, timeout=60)
            if p.returncode == 0 and os.path.exists(out):
                d = open(out, "rb").read()
                os.remove(out)
                if b"\0" not in d and len(d) < 2_000_000:
                    return (os.path.relpath(f, REPO), d.decode("latin-1"))
        except subprocess.TimeoutExpired:
            pass
        return None
    with ThreadPoolExecutor(max_workers=14) as ex:
        for r in ex.map(one, cfiles):
            if r is not None:
                texts.append(r)
    shutil.rmtree(tmp, ignore_errors=True)
    return texts


MULTI_RE = re.compile(r"^\s*\w+:\s*(func|proto)\s+((i8|u8|i16|u16|i32|u32|i64|u64|f|d|ld|p)\s*,\s*)+(i8|u8|i16|u16|i32|u32|i64|u64|f|d|ld|p)\s*(,\s*\w+:|$)", re.M)


def features(text):
    f = set()
    if re.search(r"^\s*switch\b", text, re.M):
        f.add("switch")
    if re.search(r"^\s*ldmov\b", text, re.M):
        f.add("ldmov")
    if re.search(r":\s*proto\s+(\w+\s*,\s*)?\.\.\.", text) or re.search(r":\s*proto\s+\.\.\.", text):
        f.add("variadic-noname")
    if re.search(r"\b(blk|rblk)\d*:\d+\(", text):
        f.add("block-arg")
    return f


def cc_kinds(errtext):
    """gcc's error lines -> set of finding signatures (None for an unlisted kind of error)"""
    kinds = set()
    for l in errtext.split("\n"):
        if ": error: " not in l:
            continue
        if "requires a named argument before" in l:
            kinds.add(SIG_VARIADIC)
        elif re.search(r"before ‘\.’ token|before '\.' token|stray ‘\.’|expected .* before numeric constant", l):
            kinds.add(SIG_NAME)
        elif re.search(r"redefinition of parameter|conflicting types for|type of formal parameter \d+ is incomplete", l):
            kinds.add(SIG_DUPPARAM)
        elif "undeclared (first use in this function)" in l:
            kinds.add(SIG_UNDECL)
        elif "follows non-static declaration" in l:
            kinds.add(SIG_STATIC)
        elif "redeclared as different kind of symbol" in l:
            kinds.add(SIG_HDR)
        else:
            kinds.add(None)
    return kinds


def stage_corpus(ck, st, quick, viol):
    texts = corpus_texts(ck, quick)
    info = collections.Counter()

    def one(item):
        cid, text = item
        tag = "%x" % (hash(cid) & 0xFFFFFFFF)
        mir = os.path.join(st.work, f"c{tag}.mir")
        cfile = os.path.join(st.work, f"c{tag}.c")
        open(mir, "w").write(text)
        rc, out, err = c20_engine.emit(st.run_assert, mir, cfile, maxbytes=24 * 1024 * 1024, secs=10)
        res = {"id": cid, "emit_rc": rc, "err": (out + err)[-300:]}
        if rc == 0:
            for std, nm in (("", "default"), ("-std=gnu2x", "gnu2x")):
                p = subprocess.run(["gcc", "-fsyntax-only", "-w", *std.split(), cfile], stdout=subprocess.PIPE, stderr=subprocess.STDOUT, text=True)
                res["cc_" + nm] = p.returncode
                if p.returncode != 0:
                    res["cc_err_" + nm] = "\n".join([l for l in p.stdout.split("\n") if ": error: " in l][:60])
                else:
                    break
        for p_ in (mir, cfile):
            try:
                os.remove(p_)
            except OSError:
                pass
        return res
    with ThreadPoolExecutor(max_workers=14) as ex:
        results = list(ex.map(one, texts))
    classes = collections.OrderedDict()
    for (cid, text), r in zip(texts, results):
        info["modules"] += 1
        fe = features(text)
        rc = r["emit_rc"]
        ccerr = (r.get("cc_err_gnu2x") or "") + "\n" + (r.get("cc_err_default") or "")
        if rc in (41, 42, -99):
            cls, sig = "no-termination(section loop)", SIG_LOOP
        elif rc == 3 and "multiple result" in r["err"].lower():
            cls, sig = "multi-result (outside C20's quantifier)", "skip"
        elif rc == 3 and "expr data" in r["err"]:
            cls, sig = "explicit refusal: expr data item", SIG_EXPR
        elif rc != 0 and "out_insn: Assertion `0'" in r["err"] and (fe & {"switch", "ldmov"}):
            cls, sig = "assert: opcode without template", SIG_MISSING
        elif rc != 0 and "out_type: Assertion `MIR_blk_type_p (t)'" in r["err"]:
            cls, sig = "assert: rblk-typed parameter", SIG_BLK
        elif rc != 0 and "out_item: Assertion `item->item_type == MIR_func_item'" in r["err"] and re.search(r":\s*lref\s", text):
            cls, sig = "assert: lref data item", SIG_LREF
        elif rc == 3 and re.search(r"undeclared name (inf|nan)", r["err"]):
            cls, sig = "input not scannable: c2m -S printed an inf/nan literal (not a module of C20's domain)", "skip"
        elif rc != 0:
            cls, sig = f"emit-fails rc={rc} {sorted(fe)}", None
        elif r.get("cc_default") == 0:
            cls, sig = "translated+accepted", "ok"
        else:
            kinds = cc_kinds(ccerr)
            if kinds and None not in kinds:
                cls, sig = "rejected by gcc: " + "+".join(sorted(k.split(":")[1] for k in kinds)), tuple(sorted(kinds))
            else:
                cls, sig = "translated, rejected by gcc", None
        info[cls] += 1
        classes.setdefault((cls, sig), []).append((cid, text, r))
    for (cls, sig0), lst in classes.items():
        if sig0 in ("ok", "skip"):
            continue
        cid, text, r = min(lst, key=lambda x: len(x[1]))
        for sig in (sig0 if isinstance(sig0, tuple) else (sig0,)):
          viol.append(("corpus:" + cls, {"stage": "corpus", "module": cid, "class": cls, "count": len(lst), "emit_rc": r["emit_rc"],
                                       "detail": r.get("err", "")[-300:], "cc_error": (r.get("cc_err_gnu2x") or r.get("cc_err_default") or "")[:600],
                                       "signature": sig, "mir": text if len(text) < 60000 else text[:60000],
                                       "case": {"kind": "emit", "mir": text if len(text) < 200000 else None, "compile": True,
                                                "std": "" if sig != SIG_VARIADIC else ""},
                                       "what": f"repository module {cid}: {cls} ({len(lst)} modules of this class)"}))
    return dict(info)


# ------------------------------------------------------------------------------------------------ replay of saved cases
def run_case(ck, st, case):
    """-> (fails, detail). A case is {"kind": "grid"|"prog", mir, plan, engines} (fails = engines differ / abort)
    or {"kind": "emit", mir, compile?, std?} (fails = translator does not finish, or gcc rejects the text)."""
    if case["kind"] in ("grid", "prog"):
        engs = case.get("engines", ENGS)
        rc, lines, err = st.engine(case["mir"], case["plan"], "case", engs=engs, timeout=120, quiet=False)
        errs = [l for l in lines if l.startswith("E ")]
        if rc != 0 or errs:
            return True, (errs + [err[-200:]])[0][:300]
        ev, _ = parse_R(lines, len(engs))
        pr, _ = progtie.parse(lines)
        cls = case.get("fp_class")
        for fn, args, rs in ev:
            got = [canon_fp(cls, r) for r in rs] if cls else rs
            if any(x != got[0] for x in got[1:]):
                return True, f"{fn} {args}: " + " ".join(f"{e}={r}" for e, r in zip(engs, rs))
        for r in pr:
            if not r["same"]:
                return True, f"{r['entry']}: " + " ".join(f"{e}={x}" for e, x in zip(engs, r["results"]))
        if not ev and not pr:
            return True, "no evaluation was produced"
        return False, f"{len(ev) + len(pr)} evaluations agree"
    if case["kind"] == "emit":
        mir = os.path.join(st.work, "case.mir")
        cfile = os.path.join(st.work, "case.c")
        open(mir, "w").write(case["mir"])
        run = st.run_assert if case.get("assert", True) else st.run
        rc, out, err = c20_engine.emit(run, mir, cfile, maxbytes=8 * 1024 * 1024, secs=8)
        if rc != 0:
            why = {41: "output limit reached (non-terminating printer)", 42: "watchdog alarm (non-terminating printer)"}.get(rc, f"translator failed rc={rc} {(out + err)[-200:]}")
            return True, why
        if case.get("compile"):
            p = subprocess.run(["gcc", "-fsyntax-only", "-w", *case.get("std", "").split(), cfile], stdout=subprocess.PIPE, stderr=subprocess.STDOUT, text=True)
            if p.returncode != 0:
                return True, "gcc rejects the translation: " + " | ".join(l for l in p.stdout.split("\n") if "error" in l)[:300]
        return False, "translated" + (" and accepted by gcc" if case.get("compile") else "")
    return True, "unknown case kind"


def main():
    ck = Check("C20")
    quick = ck.tier == "quick"
    proof_ok = ck.proof_gate(["MirVerif.Props.C20"],
                             support_modules=["MirVerif.Model.Mir2C", "MirVerif.Model.Mir2CKnown", "MirVerif.Model.Mir2COvf",
                                              "MirVerif.Model.Mir2CSection", "MirVerif.Model.Mir2CPinned",
                                              "MirVerif.Lemmas.Mir2C", "MirVerif.Lemmas.Mir2CSection"],
                             bridge_modules=["MirVerif.Lemmas.BridgeC20"], exes=["mirdrv_c20"], translators=["c20_tables.py"])
    if not proof_ok:
        # the search stage needs the model evaluated on the table regenerated from the current source
        ck.lake(["mirdrv_c20"])
    elif not quick:
        ck.leanchecker(["MirVerif.Props.C20"])
    srcs = ["harness/c20_run.c", os.path.join(REPO, "mir.c"), os.path.join(REPO, "mir-gen.c"), os.path.join(REPO, "mir2c/mir2c.c")]
    deps = [os.path.join(VERIF, "harness", "engine.c")]
    exes = {}
    with ThreadPoolExecutor(max_workers=2) as ex:
        f1 = ex.submit(ck.cc, "c20_run", srcs, ["-O1", "-g", "-DNDEBUG", "-w", "-rdynamic"], deps)
        f2 = ex.submit(ck.cc, "c20_run_assert", srcs, ["-O1", "-g", "-w", "-rdynamic"], deps)
        exes["run"], exes["assert"] = f1.result(), f2.result()
    if exes["run"] is None or exes["assert"] is None:
        ck.broken_ties.append({"kind": "harness-compile", "name": "c20_run", "log": getattr(ck, "last_cc_log", "")[-1500:]})
        ck.finish()
    work = os.path.join(VERIF, ".cache", f"c20_{os.getpid()}")
    os.makedirs(work, exist_ok=True)
    st = Stage(ck, exes["run"], work)
    st.run_assert = exes["assert"]
    try:
        body(ck, st, quick)
    finally:
        shutil.rmtree(work, ignore_errors=True)
    ck.finish()


def body(ck, st, quick):
    if ck.replay:
        rep = json.load(open(ck.replay))
        case = rep.get("case") or rep
        fails, detail = run_case(ck, st, case)
        ck.log(f"replay: fails={fails} {detail}")
        ck.cov.update(evaluations=1, distinct_nontrivial=1, rule="replay of one saved case")
        ck.sample({"replay": ck.replay, "fails": fails, "detail": detail})
        if fails:
            ck.violation(dict(rep, observed_now=detail), what="replayed case still fails: " + detail, signature=rep.get("signature"))
        return
    rc, out, err = ck.drv("mirdrv_c20", [], "rows\n")
    rows = {}
    for part in out.strip().split(" "):
        k, _, v = part.partition("=")
        rows[k] = v.split(",") if v else []
    rows["other"] = [tuple(x.split(":", 2)) for x in rows.get("other", [])]
    rows["other"] = [(a, b, c.replace("_", " ")) for a, b, c in rows["other"]]
    listed = set(rows.get("known", []))
    loop_fixed = rows.get("loopFixed", ["0"])[0] == "1"
    if rc != 0 or not rows.get("int"):
        ck.broken_ties.append({"kind": "oracle-run", "name": "mirdrv_c20 rows", "rc": rc, "err": err[-300:]})
        return
    viol = []       # (class, record)
    # ---- corpus of minimised findings first
    ncorp = 0
    kf_state = {}
    for f in sorted(glob.glob(os.path.join(VERIF, "corpus", "C20", "*.json"))):
        rep = json.load(open(f))
        fails, detail = run_case(ck, st, rep["case"])
        ncorp += 1
        sig = rep.get("signature")
        kf_state[os.path.basename(f)] = {"fails": fails, "detail": detail[:160], "signature": sig}
        if fails:
            viol.append(("corpus-replay", dict(rep, stage="corpus-replay", file=os.path.relpath(f, VERIF), observed_now=detail,
                                               what=rep.get("what", "saved case") + " — " + detail[:200],
                                               how_to_rerun=f"./check C20 --replay {os.path.relpath(f, VERIF)}")))
    ck.stage("corpus-replay", cases=ncorp, failing=sum(1 for v in kf_state.values() if v["fails"]))
    only = os.environ.get("C20_ONLY", "ABCD")   # development aid: run a subset of the stages
    # ---- A
    g, infoA = stage_templates(ck, st, rows, quick, viol) if "A" in only else (None, {})
    ck.stage("templates", **{k: v for k, v in infoA.items() if k in ("evaluations", "functions", "failing_classes")})
    # ---- B
    known_present = bool(listed & {SIG_UGE, SIG_UBO})
    infoB = stage_programs(ck, st, (300 if quick else 3000) if "B" in only else 0, 10 if quick else 20, viol, known_present)
    ck.stage("programs", programs=infoB["programs"], failure_classes=infoB["failure_classes"])
    # ---- C
    infoC, sampC = stage_sections(ck, st, (40 if quick else 400) if "C" in only else 0, loop_fixed, viol)
    ck.stage("sections", **infoC)
    # ---- D
    infoD = stage_corpus(ck, st, quick, viol) if "D" in only else {}
    ck.stage("repository-corpus", **infoD)
    # ---- verdicts
    reported = set()
    for cls, rep in viol:
        sig = rep.get("signature")
        if cls in ("template", "ubo-signed", "gap-exploited", "crash", "engines", "norow", "model", "interp-vs-doc"):
            if not rep.get("property_fails", True):
                ck.broken_ties.append({"kind": "correspondence", "name": cls + ":" + ":".join(map(str, rep["key"])), "first_diff": {k: rep[k] for k in ("a", "b", "observed", "model", "documented", "why")}})
                continue
            m = g.meta[rep["func"]]
            plan = "".join(f"call {rep['func']} {rep['sig']} " + " ".join(p[:2] if rep['sig'].index('_') == 2 else p[:1]) + "\n" for p in rep["points"][:6])
            rep["case"] = {"kind": "grid", "mir": rep["mir"], "plan": plan, "engines": ENGS,
                           "fp_class": rep["sig"].split("_")[1] if rep["sig"].split("_")[1] in "fdl" else None}
            sig = classify_template(cls, rep, st)
            rep["how_to_rerun"] = "./check C20 --replay <this file>"
            rep["what"] = (f"{':'.join(map(str, rep['key']))} shape {rep['shape']}: {rep['why']} (a={rep['a']} b={rep['b']} observed={rep['observed']} "
                           f"documented={rep['documented']}, {rep['count']} grid points)")
        key = (cls, sig) if sig else (cls, rep.get("what", "")[:80])
        if key in reported and sig:
            continue
        reported.add(key)
        if len([k for k in reported if not k[1] or not str(k[1]).startswith("C20:")]) > 10 and not sig:
            continue
        ck.violation(rep, what=rep["what"], signature=sig)
    ck.cov["evaluations"] = infoA.get("evaluations", 0) + infoB["evaluations"] + infoC.get("read_back_evaluations", 0) + infoC.get("modules", 0) + infoD.get("modules", 0) + ncorp
    ck.cov["distinct_nontrivial"] = infoA.get("distinct_nontrivial", 0) + infoB["programs"] + infoC.get("modules", 0) + infoD.get("modules", 0)
    ck.cov["rule"] = ("A: one-instruction MIR functions per (row of the regenerated table, operand shape) over a boundary-value grid, engines "
                      + ",".join(ENGS) + " (gcc flag sets of checks/c20_engine.py); a case = (semantic key, a, b), non-trivial = documented result defined; "
                      "each compiled result is compared with the Lean model of the emitted text and with the documented result.  B: random "
                      "well-defined programs (lib/mirgen.py, switch off; uge/ubo-after-addo rewritten to equivalents while listed as known), "
                      f"{len(mirgen.ARGSETS)} argument sets each; every program distinct and non-trivial (arithmetic, memory, control flow, calls).  "
                      "C: random data-section modules: termination verdict and member lists vs the Lean section-printer model, bytes read back "
                      "through the compiled C.  D: repository modules (mir-tests, c2m -S of c-tests): translation outcome classes.")
    ck.cov["distribution"] = {"templates": infoA, "programs": infoB, "sections": infoC, "repository_corpus": infoD,
                              "corpus_replay": kf_state, "listed_deviations": sorted(listed), "loop_fixed": loop_fixed}
    for s in sampC:
        ck.sample({"section_module": s})
    if g is not None:
      ck.sample({"template_function": g.funcs[0].split("\n"), "rows": {k: len(v) for k, v in rows.items() if isinstance(v, list)}})
    ck.cov["exhaustive"] = False
    ck.cov["corpus_replayed"] = ncorp
    ck.assumptions += ["gcc 12 on x86-64 is the C implementation: conversions modulo 2^N, arithmetic right shift, `<<` on negative values defined (gcc manual), "
                       "__builtin_*_overflow as documented; cSem transcribes these rules",
                       "whole-function translation (declarations, labels, calls, memory operands, alloca, laddr/jmpi) is exercised by compile-and-run, not modelled",
                       "floating point and long double rows are compared with MIR_interp bit for bit (NaN payloads ignored), not with a Lean theorem",
                       "non-finite fp constants cannot be written in MIR text and are not exercised",
                       "the interpreter and translator are built as shipped (-DNDEBUG) for running; an assert-enabled translator is used to classify repository modules",
                       "repository modules (mir-tests, c2m -S of c-tests) are translated and offered to gcc -fsyntax-only; they are not linked and run "
                       "(they need libc and a main); end-to-end execution is decided on generated modules",
                       "MIR_UNSPEC is outside C20's vocabulary (Model/Mir2CKnown.outsideVocabulary)"]


main()
