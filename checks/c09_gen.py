"""C09 generators and token utilities (used by checks/c09.py).

A *case* is a list of lines; a line is a dict:
   {"k":"define","name":N,"params":None|[p..],"variadic":bool,"repl":[tok..]}
   {"k":"undef","name":N}
   {"k":"text","toks":[tok..]}
   {"k":"if"|"elif","toks":[tok..]}   {"k":"ifdef"|"ifndef","name":N}   {"k":"else"}   {"k":"endif"}
a tok is (spelling, ws) where ws = 1 iff white space precedes the token in the source line.
Text lines may contain the pseudo token ("\\n", 0): a line break inside a macro invocation.
"""
import re

# ------------------------------------------------------------------ pp-token lexer (for gcc output)
PUNCT = ["%:%:", "...", "<<=", ">>=", "->", "++", "--", "<<", ">>", "<=", ">=", "==", "!=", "&&", "||",
         "*=", "/=", "%=", "+=", "-=", "&=", "^=", "|=", "##", "<:", ":>", "<%", "%>", "%:",
         "[", "]", "(", ")", "{", "}", ".", "&", "*", "+", "-", "~", "!", "/", "%", "<", ">", "^", "|",
         "?", ":", ";", "=", ",", "#"]
_ID = re.compile(r"[A-Za-z_][A-Za-z_0-9]*")
_NUM = re.compile(r"\.?[0-9](?:[eEpP][+-]|[A-Za-z_0-9.])*")
_STR = re.compile(r'(?:u8|u|U|L)?"(?:[^"\\\n]|\\.)*"')
_CHR = re.compile(r"(?:u|U|L)?'(?:[^'\\\n]|\\.)*'")


def pp_tokenize(text):
    """split C text into pp-token spellings (comments are not expected: output of a preprocessor)"""
    out, i, n = [], 0, len(text)
    while i < n:
        c = text[i]
        if c in " \t\n\r\f\v":
            i += 1
            continue
        m = _STR.match(text, i) or _CHR.match(text, i)
        if m:
            out.append(m.group(0)); i = m.end(); continue
        m = _NUM.match(text, i)
        if m:
            out.append(m.group(0)); i = m.end(); continue
        m = _ID.match(text, i)
        if m:
            out.append(m.group(0)); i = m.end(); continue
        for p in PUNCT:
            if text.startswith(p, i):
                out.append(p); i += len(p); break
        else:
            out.append(c); i += 1
    return out


def tok_kind(s):
    if _ID.fullmatch(s): return "id"
    if _NUM.fullmatch(s): return "num"
    if _STR.fullmatch(s): return "str"
    if _CHR.fullmatch(s): return "chr"
    return "punct"


# ------------------------------------------------------------------ rendering
WS_FORMS = {1: " ", 2: "  ", 3: "/**/", 4: "\t", 5: " /* c */ "}


def render_toks(toks, first_ws=False):
    s = ""
    for j, (sp, ws) in enumerate(toks):
        if sp == "\n":
            s += "\n"
            continue
        if ws and (j > 0 or first_ws):
            s += WS_FORMS.get(ws, " ")
        s += sp
    return s


def render_line(l):
    """optional layout fields: "pre" (text before `#`), "sp" (between `#` and the directive name),
    "trail" (appended to the line: white space / comment); kind "blank": a line without tokens ("raw")"""
    if l["k"] == "blank":
        return l.get("raw", "")
    r = _render_line(l) + l.get("trail", "")
    if l["k"] != "text" and (l.get("pre") or l.get("sp")):
        r = l.get("pre", "") + "#" + l.get("sp", "") + r[1:]
    return r


def _render_line(l):
    k = l["k"]
    if k == "define":
        h = "#define " + l["name"]
        if l["params"] is not None:
            ps = list(l["params"])
            if l["variadic"]:
                ps.append("...")
            h += "(" + ",".join(ps) + ")"
        r = render_toks(l["repl"])
        return h + (" " + r if r else "")
    if k == "undef":
        return "#undef " + l["name"]
    if k == "text":
        return render_toks(l["toks"])
    if k in ("if", "elif"):
        return "#" + k + " " + render_toks(l["toks"])
    if k in ("ifdef", "ifndef"):
        return "#" + k + " " + l["name"]
    return "#" + k


def render_case(lines):
    return "\n".join(render_line(l) for l in lines) + "\n"


def hx(s):
    return s.encode().hex() if s else "-"


def proto_toks(toks):
    out, nl = [], False
    for sp, ws in toks:
        if sp == "\n":
            nl = True
            continue
        out.append(("w" if (ws or nl) else "n") + hx(sp))
        nl = False
    return " ".join(out)


def tok_match(spec, got):
    """spec spelling may contain \x01 = white-space position C11 leaves open"""
    if "\x01" not in spec:
        return spec == got
    return re.fullmatch(" ?".join(re.escape(p) for p in spec.split("\x01")), got) is not None


def toks_match(spec, got):
    return len(spec) == len(got) and all(tok_match(a, b) for a, b in zip(spec, got))


def glued_match(spec, text_toks):
    """`gcc -E` prints an identifier and a following pp-number that is not identifier-like (`tx` `1.`)
    without a separating space when they come from different macro expansions, so the re-tokenised text
    shifts a token boundary (`tx1` `.`).  Accept the reference iff every place where the two token
    sequences differ is exactly of that kind: the spec has [identifier, pp-number] (or [identifier,
    literal with an encoding prefix]) where the text has
    the same characters split differently."""
    if toks_match(spec, text_toks):
        return True
    i = j = 0
    while i < len(spec) and j < len(text_toks):
        if tok_match(spec[i], text_toks[j]):
            i += 1; j += 1
            continue
        if i + 1 >= len(spec):
            return False
        k1, k2 = tok_kind(spec[i]), tok_kind(spec[i + 1])
        # (gcc does not separate an identifier or pp-number from a following prefixed literal either:
        #  `xF` `L"w"` -> `xFL"w"`, `0x1F` `L"w"` -> `0x1FL "w"`)
        if not ((k1 == "id" and k2 == "num")
                or (k1 in ("id", "num") and k2 in ("str", "chr") and spec[i + 1][0] in "uUL")):
            return False
        want = spec[i] + spec[i + 1]
        acc, jj = "", j
        while jj < len(text_toks) and len(acc) < len(want):
            acc += text_toks[jj]; jj += 1
        if acc != want:
            return False
        i += 2; j = jj
    return i == len(spec) and j == len(text_toks)


def proto_case(cid, lines):
    """line protocol for mirdrv_c09 pp"""
    out = [f"CASE {cid}"]
    for l in lines:
        k = l["k"]
        if k == "blank":
            continue
        if k == "define":
            if l["params"] is None:
                out.append(f"DEFOBJ {l['name']} {proto_toks(l['repl'])}".rstrip())
            else:
                ps = ",".join(l["params"]) or "-"
                out.append(f"DEFFUN {l['name']} {ps} {1 if l['variadic'] else 0} {proto_toks(l['repl'])}".rstrip())
        elif k == "undef":
            out.append(f"UNDEF {l['name']}")
        elif k == "text":
            out.append(f"TEXT {proto_toks(l['toks'])}".rstrip())
        elif k in ("if", "elif"):
            out.append(f"{k.upper()} {proto_toks(l['toks'])}".rstrip())
        elif k in ("ifdef", "ifndef"):
            out.append(f"{k.upper()} {l['name']}")
        else:
            out.append(k.upper())
    out.append("END")
    return "\n".join(out) + "\n"


# ------------------------------------------------------------------ macro-set generator
OBJ_NAMES = ["P", "Q", "PQ", "R", "E0"]
FUN_NAMES = ["F", "G", "FG", "H", "V", "S", "C2"]
# ordinary names + names that begin like a string/character-literal prefix (u8 u U L)
PLAIN = ["x", "y", "n", "x1", "t", "u8", "u8x", "u8_t", "u", "L1", "Ux", "u_", "U8"]
NUMS = ["1", "2", "0", "7u", "0x1F"]
PUNCTS = ["+", "-", "*", "<", ">", "=", "!", "&", "|", ".", "[", "]"]
SAFE_STRS = ['"s"', "'c'", '"a b"', '"%d"', 'L"w"', "u'c'", 'u8"s"', "L'c'", 'U"s"']
ESC_STRS = ['"s"', '"a\\n"', '"q\\"r"', "'c'", "'\\\\'", '"\\\\"', "'\\''", '"a b"']
PUNCT_PASTES = [("+", "+"), ("-", ">"), ("<", "<"), ("<<", "="), ("&", "&"), ("|", "="), ("-", "-"),
                (">", ">"), ("!", "="), (".", "5"), ("1", "."), ("%:", "%:")]


def glue_ok(a, b):
    """True iff spelling a directly followed by b lexes back to exactly [a, b]"""
    return pp_tokenize(a + b) == [a, b]


def fix_ws(toks):
    """force white space between tokens that would otherwise lex differently"""
    out = []
    for sp, ws in toks:
        if out and not ws and sp != "\n" and out[-1][0] != "\n":
            if not glue_ok(out[-1][0], sp):
                ws = 1
            elif (len(out) >= 2 and not out[-1][1] and out[-2][0] != "\n"
                  and pp_tokenize(out[-2][0] + out[-1][0] + sp) != [out[-2][0], out[-1][0], sp]):
                ws = 1          # e.g. `.` `.` `.` would lex as `...`
        out.append((sp, ws))
    return out


class MacroGen:
    """random macro-definition sets and invocation texts.  Parameters have a *role*:
       'n' ordinary, 'p' operand of ## (its arguments are a single identifier/number or empty, so that
       every paste gives a valid token)."""

    def __init__(self, rng, profile=None):
        self.r = rng
        self.profile = profile or {}
        self.defs = {}
        self.stats = {}
        self.budget = self.profile.get("budget", 40)

    def hit(self, k, n=1):
        self.stats[k] = self.stats.get(k, 0) + n

    def ws(self):
        return 1 if self.r.chance(3, 5) else 0

    def plain_tok(self):
        r = self.r
        c = r.below(10)
        if c < 4: return r.choice(PLAIN)
        if c < 6: return r.choice(NUMS)
        if c < 9: return r.choice(PUNCTS)
        return r.choice(SAFE_STRS)

    # ---- definitions
    def gen_defs(self):
        r = self.r
        lines = []
        nobj = 1 + r.below(4)
        nfun = 1 + r.below(5)
        objs = OBJ_NAMES[:]
        funs = FUN_NAMES[:]
        names = []
        for _ in range(nobj):
            nm = objs.pop(r.below(len(objs)))
            names.append((nm, None, False, "", "n"))
        for _ in range(nfun):
            nm = funs.pop(r.below(len(funs)))
            np_ = r.choice([0, 1, 1, 1, 2, 2, 3])
            var = r.chance(1, 4)
            roles = "".join(r.choice("nnnp") for _ in range(np_))
            names.append((nm, ["a", "b", "c"][:np_], var, roles, r.choice("nnnp")))
        for i in range(len(names) - 1, 0, -1):
            j = r.below(i + 1)
            names[i], names[j] = names[j], names[i]
        self.sigs = {nm: (ps, var, roles, varole) for nm, ps, var, roles, varole in names}
        for nm, ps, var, roles, varole in names:
            repl = fix_ws(self.gen_repl(nm, ps, var, roles, varole))
            d = {"k": "define", "name": nm, "params": ps, "variadic": var, "repl": repl}
            self.defs[nm] = d
            lines.append(d)
        return lines

    def macro_ref(self, depth, env, allow_unparen=True):
        """tokens for a reference to some macro of the set; env = (normal params, paste params) in scope"""
        r = self.r
        nm = r.choice(list(self.sigs))
        ps = self.sigs[nm][0]
        if ps is None:
            self.hit("ref_obj")
            return [(nm, self.ws())]
        if allow_unparen and r.chance(1, 6):
            self.hit("fun_name_no_paren")
            return [(nm, self.ws())]
        return self.call(nm, depth, env)

    def simple_arg(self, env):
        """argument for a parameter that is an operand of ##"""
        r = self.r
        k = r.below(10)
        if k == 0:
            self.hit("arg_empty_paste")
            return []
        if k < 3 and env[1]:
            return [(r.choice(env[1]), self.ws())]
        if k < 7:
            return [(r.choice(PLAIN + ["P", "F", "Q", "G", "PQ", "FG"]), self.ws())]
        return [(r.choice(["1", "2", "0x1", "7"]), self.ws())]

    def call(self, nm, depth, env):
        r = self.r
        ps, var, roles, varole = self.sigs[nm]
        toks = [(nm, self.ws()), ("(", 1 if r.chance(1, 6) else 0)]
        kinds = list(roles)
        if var:
            extra = r.choice([1, 1, 2, 3]) if ps else r.choice([0, 1, 2, 3])
            kinds += [varole] * extra
        self.budget -= 1
        if not kinds:
            toks.append((")", self.ws()))
            self.hit("call0")
            return toks
        for i, kd in enumerate(kinds):
            if i:
                toks.append((",", self.ws()))
            toks += self.simple_arg(env) if kd == "p" else self.arg(depth + 1, env)
        toks.append((")", self.ws()))
        self.hit("call")
        self.hit(f"depth{depth}")
        return toks

    def arg(self, depth, env):
        r = self.r
        c = r.below(12)
        if c == 0:
            self.hit("arg_empty")
            return []
        n = 1 if c < 7 else (2 if c < 10 else 3)
        out = []
        for _ in range(n):
            k = r.below(12)
            if k < 4 and depth < self.profile.get("max_depth", 6) and self.budget > 0:
                out += self.macro_ref(depth, env)
            elif k < 5 and env[0]:
                out.append((r.choice(env[0]), self.ws()))
            elif k == 5:
                self.hit("arg_paren_comma")
                out += [("(", self.ws()), (r.choice(PLAIN), 0), (",", 0), (r.choice(NUMS), self.ws()), (")", 0)]
            else:
                out.append((self.plain_tok(), self.ws()))
        return out

    def gen_repl(self, nm, ps, var, roles, varole):
        r = self.r
        normal = [p for p, ro in zip(ps or [], roles) if ro == "n"]
        pastep = [p for p, ro in zip(ps or [], roles) if ro == "p"]
        if var:
            (pastep if varole == "p" else normal).append("__VA_ARGS__")
        env = (normal, pastep)
        allp = normal + pastep
        n = r.choice([0, 1, 2, 2, 3, 3, 4, 5])
        out = []
        self.budget = 6
        for i in range(n):
            k = r.below(20)
            if k < 4:
                out += self.macro_ref(4, env)       # nested calls inside replacement lists
            elif k < 9 and normal:
                out.append((r.choice(normal), self.ws()))
            elif k < 11 and allp:
                self.hit("op_stringify")
                out += [("#", self.ws()), (r.choice(allp), self.ws())]
            elif k < 14:
                out += self.paste(pastep, ps is None)
            elif k == 14:
                self.hit("self_ref")
                if ps is None or r.chance(1, 2):
                    out.append((nm, self.ws()))
                else:
                    out += self.call(nm, 5, env)
            else:
                out.append((self.plain_tok(), self.ws()))
        if out:
            out[0] = (out[0][0], 0)
        return out

    def paste_operand(self, pastep, left):
        r = self.r
        k = r.below(10)
        if pastep and k < 6:
            return r.choice(pastep)
        if k < 8:
            return r.choice(PLAIN + ["P", "F", "Q", "G"])
        return r.choice(["x", "1", "P", "F"]) if left else r.choice(["1", "2", "0x", "7"])

    def paste(self, pastep, objlike):
        r = self.r
        self.hit("op_paste")
        if r.chance(1, 8):
            self.hit("op_paste_punct")
            a, b = r.choice(PUNCT_PASTES if objlike else PUNCT_PASTES[:-1])
            return [(a, self.ws()), ("##", self.ws()), (b, self.ws())]
        if objlike and r.chance(1, 10):
            self.hit("op_paste_hash_hash")
            return [("#", self.ws()), ("##", self.ws()), ("#", self.ws())]
        out = [(self.paste_operand(pastep, True), self.ws()), ("##", self.ws()),
               (self.paste_operand(pastep, False), self.ws())]
        if r.chance(1, 6):
            self.hit("op_paste_chain")
            out += [("##", self.ws()), (self.paste_operand(pastep, False), self.ws())]
        return out

    def deep_chain(self, depth=6):
        """an invocation nested `depth` deep: every level passes the inner invocation as an argument"""
        r = self.r
        funs = [nm for nm, sg in self.sigs.items()
                if sg[0] is not None and ("n" in sg[2] or (sg[1] and sg[3] == "n"))]
        if not funs:
            return [(r.choice(PLAIN), 1)]
        inner = [(r.choice(PLAIN + NUMS), self.ws())]
        for _ in range(depth):
            nm = r.choice(funs)
            ps, var, roles, varole = self.sigs[nm]
            kinds = list(roles) + ([varole] if var else [])
            toks = [(nm, self.ws()), ("(", 0)]
            placed = False
            for i, kd in enumerate(kinds):
                if i:
                    toks.append((",", self.ws()))
                if kd == "n" and not placed:
                    toks += inner
                    placed = True
                elif kd == "p":
                    toks += self.simple_arg(([], []))
                else:
                    toks.append((r.choice(PLAIN + NUMS), self.ws()))
            toks.append((")", self.ws()))
            inner = toks if placed or not kinds else toks
        self.hit("deep_chain_%d" % depth)
        return inner

    # ---- invocation text
    def gen_text(self, nlines=None):
        r = self.r
        lines = []
        for _ in range(nlines or (1 + r.below(3))):
            toks = []
            n = 1 + r.below(3)
            self.budget = self.profile.get("budget", 12)
            for _ in range(n):
                k = r.below(10)
                if k == 0:
                    toks += self.deep_chain(r.choice([4, 5, 6]))
                elif k < 7:
                    t = self.macro_ref(0, ([], []))
                    if r.chance(1, 8) and len(t) > 3:
                        j = 2 + r.below(len(t) - 2)
                        t = t[:j] + [("\n", 0)] + t[j:]
                        self.hit("multiline_call")
                    toks += t
                else:
                    toks.append((self.plain_tok(), self.ws()))
            toks.append((";", 0))
            lines.append({"k": "text", "toks": fix_ws(toks)})
        return lines

    def gen_case(self):
        lines = self.gen_defs()
        lines += self.gen_text()
        if self.r.chance(1, 4):
            nm = self.r.choice(list(self.sigs))
            lines.append({"k": "undef", "name": nm})
            self.hit("undef")
            lines += self.gen_text(1)
        return lines


# ------------------------------------------------------------------ #if expression generator
I64MIN, I64MAX, U64MAX = -(1 << 63), (1 << 63) - 1, (1 << 64) - 1
LITS = ["0", "1", "2", "3", "63", "64", "0u", "1u", "2U", "63u", "0x7fffffff", "0x80000000", "0xffffffff",
        "2147483647", "2147483648", "4294967295", "4294967296", "037777777777", "020000000000",
        "9223372036854775807", "0x7fffffffffffffff", "0x8000000000000000", "0xffffffffffffffff",
        "18446744073709551615u", "9223372036854775808u", "9223372036854775807u", "1L", "1UL", "2LL", "3ull",
        "0x80000000L", "0xffffffffu", "0xffffffffffffffffULL", "'a'", "'\\0'", "'\\377'", "10", "100", "0x10"]
UNOPS = ["-", "+", "~", "!"]
BINOPS = ["*", "/", "%", "+", "-", "<<", ">>", "<", "<=", ">", ">=", "==", "!=", "&", "^", "|", "&&", "||"]
PREC = {"*": 10, "/": 10, "%": 10, "+": 9, "-": 9, "<<": 8, ">>": 8, "<": 7, "<=": 7, ">": 7, ">=": 7,
        "==": 6, "!=": 6, "&": 5, "^": 4, "|": 3, "&&": 2, "||": 1}


class ExprGen:
    """expression trees: ("lit", s) | ("un", op, e) | ("bin", op, a, b) | ("cond", c, a, b) | ("id", name)"""

    def __init__(self, rng):
        self.r = rng

    def tree(self, depth):
        r = self.r
        if depth <= 0 or r.chance(1, 4):
            return ("lit", r.choice(LITS))
        k = r.below(10)
        if k < 2:
            return ("un", r.choice(UNOPS), self.tree(depth - 1))
        if k < 9:
            return ("bin", r.choice(BINOPS), self.tree(depth - 1), self.tree(depth - 1))
        return ("cond", self.tree(depth - 1), self.tree(depth - 1), self.tree(depth - 1))

    def render(self, e, full_parens=False):
        """token list; minimal parentheses unless full_parens"""
        return self._r(e, 0, full_parens)

    def _r(self, e, ctx, fp):
        k = e[0]
        if k in ("lit", "id"):
            return [e[1]]
        if k == "un":
            inner = self._r(e[2], 11, fp)
            # avoid gluing "- -" into "--": spaces are inserted by the renderer between all tokens
            out = [e[1]] + inner
            return ["("] + out + [")"] if (fp or ctx > 11) else out
        if k == "bin":
            p = PREC[e[1]]
            out = self._r(e[2], p, fp) + [e[1]] + self._r(e[3], p + 1, fp)
            return ["("] + out + [")"] if (fp or ctx > p) else out
        out = self._r(e[1], 1, fp) + ["?"] + self._r(e[2], 0, fp) + [":"] + self._r(e[3], 0, fp)
        return ["("] + out + [")"] if (fp or ctx > 0) else out


def expr_prefix(e):
    """prefix serialisation for `mirdrv_c09 tree` (operators as names)"""
    k = e[0]
    if k == "lit":
        return "L" + hx(e[1])
    if k == "un":
        return f"U{hx(e[1])} {expr_prefix(e[2])}"
    if k == "bin":
        return f"B{hx(e[1])} {expr_prefix(e[2])} {expr_prefix(e[3])}"
    return f"C {expr_prefix(e[1])} {expr_prefix(e[2])} {expr_prefix(e[3])}"


# ------------------------------------------------------------------ family B: direct stringification
ESC_NEXT = ["n", "x1", "t", "a", "b", "f", "r", "v", "e", "0", "7u", "x", "X1", "\\"]


class StrGen:
    """#define S(x) #x / XS(x) S(x): exact C11 6.10.3.2 spelling incl. escapes and white space"""

    def __init__(self, rng):
        self.r = rng
        self.stats = {}

    def hit(self, k):
        self.stats[k] = self.stats.get(k, 0) + 1

    def gen_case(self):
        r = self.r
        lines = [
            {"k": "define", "name": "S", "params": ["x"], "variadic": False, "repl": [("#", 0), ("x", r.below(2))]},
            {"k": "define", "name": "XS", "params": ["x"], "variadic": False,
             "repl": [("S", 0), ("(", 0), ("x", r.below(2)), (")", r.below(2))]},
            {"k": "define", "name": "SV", "params": [], "variadic": True,
             "repl": [("#", 0), ("__VA_ARGS__", 0)]},
            {"k": "define", "name": "E0", "params": None, "variadic": False, "repl": []},
            {"k": "define", "name": "ID", "params": ["x"], "variadic": False, "repl": [("x", 0)]},
        ]
        for _ in range(1 + r.below(4)):
            m = r.choice(["S", "S", "S", "XS", "SV"])
            toks = [(m, 0), ("(", 0)]
            n = r.below(6)
            prev_esc = False
            for i in range(n):
                k = r.below(12)
                ws = r.choice([0, 0, 1, 1, 2, 3, 4, 5])
                if prev_esc and r.chance(1, 2):
                    # the trigger of C09:stringify-backslash-next-token: no white space after a literal
                    # containing a backslash, next token starts with an "escape letter"
                    toks.append((r.choice(ESC_NEXT[:-1]), 0))
                    self.hit("esc_literal_glued_to_escape_letter")
                    prev_esc = False
                    continue
                prev_esc = False
                if k < 4:
                    lit = r.choice(ESC_STRS)
                    toks.append((lit, ws))
                    prev_esc = "\\" in lit
                    self.hit("literal")
                elif k < 7:
                    toks.append((r.choice(PLAIN + NUMS), ws))
                elif k < 9:
                    toks.append((r.choice(PUNCTS + [","] if m == "SV" else PUNCTS), ws))
                elif k == 9 and m == "XS":
                    toks.append(("E0", ws)); self.hit("empty_macro_in_arg")
                elif k == 10 and m == "XS":
                    toks += [("ID", ws), ("(", 0), (r.choice(PLAIN), r.below(2)), (")", r.below(2))]
                    self.hit("call_in_arg")
                else:
                    toks.append((r.choice(PLAIN), ws))
            toks.append((")", r.choice([0, 1, 3])))
            toks.append((";", 0))
            lines.append({"k": "text", "toks": fix_ws(toks)})
            self.hit("stringify_" + m)
        return lines


# ------------------------------------------------------------------ family C: `# p` followed by a parameter
class SharpGen:
    def __init__(self, rng):
        self.r = rng
        self.stats = {}

    def gen_case(self):
        r = self.r
        np_ = 1 + r.below(3)
        ps = ["a", "b", "c"][:np_]
        repl = []
        for _ in range(1 + r.below(3)):
            repl += [("#", 1), (r.choice(ps), r.below(2))]
            for _ in range(r.below(3)):
                repl.append((r.choice(PLAIN), 1))
            k = r.below(4)
            if k == 0:
                repl.append((r.choice(PUNCTS), 1))
            if k < 3:
                repl.append((r.choice(ps), 1))
        repl[0] = (repl[0][0], 0)
        lines = [{"k": "define", "name": "M", "params": ps, "variadic": False, "repl": fix_ws(repl)}]
        toks = [("M", 0), ("(", 0)]
        for i in range(np_):
            if i:
                toks.append((",", 0))
            for _ in range(r.below(3)):
                toks.append((r.choice(PLAIN + NUMS + SAFE_STRS), r.below(2)))
        toks += [(")", 0), (";", 0)]
        lines.append({"k": "text", "toks": fix_ws(toks)})
        self.stats["sharp_then_param"] = self.stats.get("sharp_then_param", 0) + 1
        return lines


# ------------------------------------------------------------------ family E: conditional inclusion with macros
class CondGen:
    """#if/#ifdef/#ifndef/#elif/#else/#endif sections (nested), controlling expressions using
    object-like and function-like macros, `defined X`, `defined(X)` and undefined identifiers"""

    SMALL = ["0", "1", "2", "3", "0u", "1u", "10", "0x10", "-1", "(-1)", "7"]

    def __init__(self, rng):
        self.r = rng
        self.stats = {}
        self.n = 0

    def hit(self, k):
        self.stats[k] = self.stats.get(k, 0) + 1

    def expr_toks(self, depth, in_arg=False):
        r = self.r
        if depth <= 0 or r.chance(1, 3):
            k = r.below(10)
            if in_arg and 6 <= k < 8:
                k = 0       # `defined` inside macro arguments is not portable (6.10.1p4)
            if k < 3:
                return [r.choice(self.SMALL)]
            if k < 5:
                self.hit("if_obj_macro"); return [r.choice(self.objs)]
            if k < 6:
                self.hit("if_undefined_ident"); return [r.choice(["zz", "UNDEF1", "q9"])]
            if k < 8:
                nm = r.choice(self.objs + self.funs + ["zz", "NOPE"])
                self.hit("if_defined")
                return ["defined", nm] if r.chance(1, 2) else ["defined", "(", nm, ")"]
            self.hit("if_fun_macro")
            f = r.choice(self.funs)
            return [f, "("] + self.expr_toks(depth - 1, True) + [","] + self.expr_toks(depth - 1, True) + [")"]
        op = r.choice(["+", "-", "*", "<", "<=", ">", ">=", "==", "!=", "&&", "||", "&", "|", "^", "<<"])
        a, b = self.expr_toks(depth - 1, in_arg), self.expr_toks(depth - 1, in_arg)
        if op == "<<":
            b = [r.choice(["0", "1", "3"])]
        if r.chance(1, 6):
            return ["("] + a + [")", "?", "("] + b + [")", ":", "("] + self.expr_toks(depth - 1, in_arg) + [")"]
        if r.chance(1, 8):
            return ["!", "("] + a + [op] + b + [")"]
        return ["("] + a + [op] + b + [")"]

    def toks(self, sps):
        flat = [t for s in sps for t in pp_tokenize(s)]
        return fix_ws([(s, 1 if i else 0) for i, s in enumerate(flat)])

    def section(self, depth):
        r = self.r
        lines = []
        k = r.below(6)
        if k == 0:
            nm = r.choice(self.objs + self.funs + ["zz"])
            lines.append({"k": r.choice(["ifdef", "ifndef"]), "name": nm}); self.hit("ifdef")
        else:
            lines.append({"k": "if", "toks": self.toks(self.expr_toks(2))})
        lines += self.body(depth)
        for _ in range(r.choice([0, 0, 1, 1, 2])):
            lines.append({"k": "elif", "toks": self.toks(self.expr_toks(2))}); self.hit("elif")
            lines += self.body(depth)
        if r.chance(2, 3):
            lines.append({"k": "else"}); self.hit("else")
            lines += self.body(depth)
        lines.append({"k": "endif"})
        return lines

    def body(self, depth):
        r = self.r
        self.n += 1
        lines = [{"k": "text", "toks": [(f"g{self.n}", 0), (";", 0)]}]
        if r.chance(1, 5):
            nm = r.choice(self.objs)
            if r.chance(1, 2):
                lines.append({"k": "undef", "name": nm}); self.hit("undef_in_group")
            else:
                lines.append({"k": "define", "name": nm, "params": None, "variadic": False,
                              "repl": [(r.choice(self.SMALL[:9]), 0)]}); self.hit("redefine_in_group")
                lines.insert(-1, {"k": "undef", "name": nm})
        if depth < 3 and r.chance(1, 3):
            self.hit(f"nested_depth{depth + 1}")
            lines += self.section(depth + 1)
        return lines

    def gen_case(self):
        r = self.r
        self.objs = ["A", "B", "C"]
        self.funs = ["ADD", "SEL"]
        lines = []
        for nm in self.objs:
            v = r.choice(self.SMALL[:9] + ["B", "(A+1)", "1 + 1"])
            if v == nm:
                v = "1"
            lines.append({"k": "define", "name": nm, "params": None, "variadic": False,
                          "repl": fix_ws([(t, 1 if i else 0) for i, t in enumerate(pp_tokenize(v))])})
        lines.append({"k": "define", "name": "ADD", "params": ["a", "b"], "variadic": False,
                      "repl": self.toks(["(", "(", "a", ")", r.choice(["+", "-", "*", "|"]), "(", "b", ")", ")"])})
        lines.append({"k": "define", "name": "SEL", "params": ["a", "b"], "variadic": False,
                      "repl": self.toks(["(", "(", "a", ")", "?", "(", "b", ")", ":", "0u", ")"])})
        for _ in range(1 + r.below(3)):
            lines += self.section(1)
        lines.append({"k": "text", "toks": [("end", 0), (";", 0)]})
        return lines


# ------------------------------------------------------------------ stringified pastes with empty operands
class StrPasteGen:
    """`#define M(p,q,r) ...` whose replacement mixes tokens, parameters and `##` (operands: parameters
    and identifier/number tokens, so every paste is valid); arguments are empty with probability 1/2; the
    expansion is stringified through `XS(M(..))` (argument macro-replaced, then `#`), which shows the white
    space the expansion carries between its tokens, and is also used directly."""

    def __init__(self, rng):
        self.r = rng
        self.stats = {}

    def hit(self, k):
        self.stats[k] = self.stats.get(k, 0) + 1

    def gen_case(self):
        r = self.r
        lines = [{"k": "define", "name": "S", "params": ["a"], "variadic": False, "repl": [("#", 0), ("a", 0)]},
                 {"k": "define", "name": "XS", "params": ["a"], "variadic": False,
                  "repl": [("S", 0), ("(", 0), ("a", 0), (")", 0)]}]
        names = []
        for mi in range(1 + r.below(2)):
            nm = "M%d" % mi
            np_ = 1 + r.below(3)
            ps = ["p", "q", "r"][:np_]
            repl, n_items, prev_operand = [], 2 + r.below(5), False
            for j in range(n_items):
                k = r.below(10)
                if k < 4:
                    repl.append((r.choice(ps), r.below(2))); operand = True
                elif k < 7:
                    repl.append((r.choice(["x", "z", "w", "1", "v2"]), r.below(2))); operand = True
                else:
                    repl.append((r.choice(["[", "]", "+", ";"]), r.below(2))); operand = False
                if operand and j + 1 < n_items and r.chance(1, 2):
                    # `##` followed by another operand
                    repl.append(("##", r.below(2)))
                    repl.append((r.choice(ps) if r.chance(2, 3) else r.choice(["x", "z", "7"]), r.below(2)))
                    self.hit("paste")
            lines.append({"k": "define", "name": nm, "params": ps, "variadic": False, "repl": fix_ws(repl)})
            names.append((nm, np_))
        for _ in range(1 + r.below(3)):
            nm, np_ = r.choice(names)
            call = [(nm, 0), ("(", 0)]
            for i in range(np_):
                if i:
                    call.append((",", 0))
                k = r.below(6)
                if k < 3:
                    self.hit("empty_arg")
                elif k < 5:
                    call.append((r.choice(["a", "b", "5"]), r.below(2)))
                else:
                    call += [(r.choice(["a", "b"]), r.below(2)), (r.choice(["c", "9"]), 1)]
            call.append((")", r.below(2)))
            form = r.below(4)
            if form == 0:
                toks = [("XS", 0), ("(", 0)] + call + [(")", 0)]
            elif form == 1:
                toks = [("XS", 0), ("(", 0), (call[0][0], 1)] + call[1:] + [(")", 1)]
            elif form == 2:
                toks = [("XS", 0), ("(", 0), ("k", 0)] + [(call[0][0], 1)] + call[1:] + [("k", 1), (")", 0)]
            else:
                toks = call
            lines.append({"k": "text", "toks": fix_ws(toks + [(";", 0)])})
        return lines


# ------------------------------------------------------------------ pp-numbers (6.4.8) glued to names and operators
class PPNumGen:
    """character sequences built from every ingredient of the pp-number grammar -- digits, `.`, identifier
    characters, e+ e- E+ E- p+ p- P+ P- after decimal AND hexadecimal beginnings, suffixes, and spellings that
    are no valid constants but single pp-tokens (0xe+x, 1.2.3, 1e+, .5e-x, 12_ab) -- written without white space
    next to macro names and + - operators.  Where the pp-number ends decides which identifiers are separate
    tokens and therefore macro-replaced; the result is observed directly, through # and through
    macro-replacement followed by #.  The case is the text; its tokens are those of the tokenizer above, which
    the check compares with the Lean function `ppNumberLen` (proved maximal munch of the 6.4.8 grammar)."""
    STARTS = ["0", "1", "9", "12", ".5", ".0", "0x", "0X", "0xe", "0xE", "0x1", "0xf", "1e", "1E", "0xep", "1.", "0b1"]
    ATOMS = ["e+", "e-", "E+", "E-", "p+", "p-", "P+", "P-", "x", "y", "e", "p", "ab", "_ab", "_", "1", "9", "0",
             ".", "f", "u", "L", "ll", "+x", "-y", "+e", "-ab", "+", "-", "+1", "-.5", "e+x", "E-y", "p+ab", "..", "x+"]

    def __init__(self, rng):
        self.r = rng
        self.stats = {}
        self.chunks = []

    def hit(self, k):
        self.stats[k] = self.stats.get(k, 0) + 1

    def chunk(self):
        r = self.r
        c = r.choice(self.STARTS) if r.chance(5, 6) else r.choice(["x", "ab", ".", "e", "+", "-"])
        for _ in range(r.below(5)):
            c += r.choice(self.ATOMS)
        self.chunks.append(c)
        m = _NUM.match(c)
        if m and m.end() < len(c):
            self.hit("number_ends_inside_chunk")
        if m and re.search(r"[eEpP][+-]", m.group(0)):
            self.hit("hex_exponent_sign" if c[:2] in ("0x", "0X") else "exponent_sign")
        return c

    def gen_case(self):
        r = self.r
        text = ("#define x 5\n#define y (7)\n#define e 2\n#define ab 3\n#define p 9\n"
                "#define S(a) #a\n#define XS(a) S(a)\n")
        for _ in range(1 + r.below(3)):
            body = self.chunk()
            for _ in range(r.below(3)):
                body += r.choice(["", " ", "+", "-", " + ", "*"]) + self.chunk()
            form = r.below(4)
            text += {0: body + ";", 1: "S(" + body + ");", 2: "XS(" + body + ");", 3: "[" + body + "]"}[form] + "\n"
        return parse_source(text)


# ------------------------------------------------------------------ argument lists closed outside a replacement list
class OpenCallGen:
    """an invocation `callee ( args )` is cut at a random place: the first part ends the replacement list of
    an object-like macro O1, reached through 1-3 levels (O2 -> O1, O3 -> O2, optionally with other tokens before
    and after, or through a function-like macro without parameters), the rest follows in the text
    (6.10.3.4p1: the replacement is rescanned together with the rest of the source file).  The Lean
    specification does not cover this form; the reference is gcc alone."""

    def __init__(self, rng):
        self.r = rng
        self.stats = {}

    def hit(self, k):
        self.stats[k] = self.stats.get(k, 0) + 1

    def simple_arg(self):
        r = self.r
        k = r.below(6)
        if k == 0:
            return []
        if k < 3:
            return [r.choice(["1", "2", "n", "x"])]
        if k == 3:
            return ["neg", "(", r.choice(["3", "y"]), ")"]
        if k == 4:
            return ["(", "1", ",", "2", ")"]
        return [r.choice(["n", "4"]), r.choice(["+", "*"]), r.choice(["y", "5"])]

    def gen_case(self):
        r = self.r

        def D(nm, repl, params=None, variadic=False):
            return {"k": "define", "name": nm, "params": params, "variadic": variadic,
                    "repl": fix_ws([(sp, 1 if i else 0) for i, sp in enumerate(repl)])}
        lines = [D("add", ["[", "a", "+", "b", "]"], ["a", "b"]), D("neg", ["<", "a", ">"], ["a"]),
                 D("var", ["{", "a", "|", "__VA_ARGS__", "}"], ["a"], True)]
        callee, nargs = r.choice([("add", 2), ("neg", 1), ("var", 2 + r.below(2))])  # (C11: a variable argument is required)
        inv = [callee, "("]
        for i in range(nargs):
            if i:
                inv.append(",")
            inv += self.simple_arg()
        inv.append(")")
        cut = 1 + r.below(len(inv) - 1)
        self.hit("cut_after_name" if cut == 1 else ("cut_after_paren" if cut == 2 else "cut_inside_args"))
        head, rest = inv[:cut], inv[cut:]
        lead = [r.choice(["p", "7"])] if r.chance(1, 3) else []
        lines.append(D("O1", lead + head))
        depth = 1 + r.below(3)
        self.hit("levels_%d" % depth)
        top = "O1"
        for lv in range(2, depth + 1):
            before = [r.choice(["q", "8"])] if r.chance(1, 3) else []
            after = [r.choice(["m", "6"])] if (cut > 2 and r.chance(1, 4)) else []   # becomes part of the argument
            if r.chance(1, 5):
                lines.append(D("O%d" % lv, before + [top] + after, []))
                top_use = ["O%d" % lv, "(", ")"]
            else:
                lines.append(D("O%d" % lv, before + [top] + after))
                top_use = ["O%d" % lv]
            top = "O%d" % lv
        use = top_use if depth > 1 else ["O1"]
        tail = r.choice([[";"], ["t", ";"], ["(", "0", ")", ";"], ["neg", "(", "1", ")", ";"]])
        toks = [(sp, 1 if i else 0) for i, sp in enumerate(["s"] + use + rest + tail)]
        if r.chance(1, 4) and len(rest) > 1:
            j = len(use) + 1 + 1 + r.below(len(rest) - 1)
            toks = toks[:j] + [("\n", 0)] + toks[j:]
            self.hit("rest_on_next_line")
        lines.append({"k": "text", "toks": fix_ws(toks)})
        return lines


# ------------------------------------------------------------------ line ends x directives (small scope, enumerated)
def line_end_cases(full):
    """every kind of line end (function-like macro name without a call -- directly, as the end of an
    object-like or function-like macro's replacement, as a macro argument --, a call that ends the line or
    spans lines, results of #, with trailing white space / comments) immediately followed by every kind of
    directive, with blank / comment lines in between, differently laid-out `#` lines, directly after the
    definitions (start of the text), after other text, inside an active #if group, inside an #else group and
    with the directive as the last line of the file.  The text after the directive shows whether it was
    processed.  quick: E x D x I with position and layout cycling; thorough: E x D x I x P."""
    def T(*sps, trail=""):
        l = {"k": "text", "toks": fix_ws([(sp, 1 if i else 0) for i, sp in enumerate(sps)])}
        if trail:
            l["trail"] = trail
        return [l]

    def D(nm, repl, params=None):
        return {"k": "define", "name": nm, "params": params, "variadic": False,
                "repl": fix_ws([(sp, 1 if i else 0) for i, sp in enumerate(repl)])}
    prelude = [D("f", ["<", "a", "|", "b", ">"], ["a", "b"]), D("OBJ", ["y", "f"]), D("W", ["a", "f"], ["a"]),
               D("S", ["#", "a"], ["a"]), D("ID", ["a"], ["a"])]
    ends = [T("x", "f"), T("OBJ"), T("W", "(", "1", ")"),
            [{"k": "text", "toks": [("f", 0), ("(", 0), ("1", 0), (",", 0), ("\n", 0), ("2", 1), (")", 0)]}],
            T("f", "(", "1", ",", "2", ")"), T("S", "(", "q", ")"), T("S", "(", "f", ")"), T("ID", "(", "f", ")"),
            [{"k": "text", "toks": [("ID", 0), ("(", 0), ("f", 1), (")", 1)]}], T("x", "y"), T("f"),
            T("ID", "(", "OBJ", ")"), T("f", "f"), T("x", "f") + T("f")]
    for tr in (" ", " /* c */", " // c"):
        ends += [T("x", "f", trail=tr), T("OBJ", trail=tr), T("f", trail=tr)]
    IF1 = {"k": "if", "toks": [("1", 0)]}
    IF0 = {"k": "if", "toks": [("0", 0)]}
    ELIF1 = {"k": "elif", "toks": [("1", 0)]}
    # (lines before the line end, directive lines, text after)
    dirs = [
        ([], [D("N", ["1"])], T("N", "z", ";")),
        ([], [D("G", ["[", "a", "]"], ["a"])], T("G", "(", "2", ")", "z", ";")),
        ([], [{"k": "undef", "name": "f"}], T("z", "f", "(", "3", ",", "4", ")", ";")),
        ([], [{"k": "undef", "name": "OBJ"}], T("z", "OBJ", ";")),
        ([], [dict(IF1)] + T("t1", ";") + [{"k": "endif"}], T("z", ";")),
        ([], [dict(IF0)] + T("t1", ";") + [{"k": "else"}] + T("t2", ";") + [{"k": "endif"}], T("z", ";")),
        ([], [{"k": "ifdef", "name": "f"}] + T("t1", ";") + [{"k": "else"}] + T("t2", ";") + [{"k": "endif"}], T("z", ";")),
        ([], [{"k": "ifndef", "name": "f"}] + T("t1", ";") + [{"k": "endif"}], T("z", ";")),
        ([dict(IF1)], [dict(ELIF1)] + T("bad", ";") + [{"k": "else"}] + T("bad2", ";") + [{"k": "endif"}], T("z", ";")),
        ([dict(IF1)], [{"k": "else"}] + T("bad", ";") + [{"k": "endif"}], T("z", ";")),
        ([dict(IF1)], [{"k": "endif"}], T("z", ";")),
        ([dict(IF0)] + T("skip", ";") + [dict(ELIF1)], [{"k": "endif"}], T("z", ";")),
        ([], [{"k": "undef", "name": "f"}, D("f", ["{", "a", "}"], ["a"])], T("z", "f", "(", "5", ")", ";")),
    ]
    between = [[], [{"k": "blank", "raw": ""}], [{"k": "blank", "raw": "   "}], [{"k": "blank", "raw": "/* c */"}],
               [{"k": "blank", "raw": "// c"}], [{"k": "blank", "raw": "/* a"}, {"k": "blank", "raw": "   b */"}]]
    layouts = [("", ""), ("  ", " "), ("/* c */ ", ""), ("\t", "\t")]
    NP = 5
    out = []
    n = 0
    for e in ends:
        for before, dl, after in dirs:
            for btw in between:
                for pos in (range(NP) if full else [n % NP]):
                    n += 1
                    pre, sp = layouts[n % len(layouts)]
                    dl2 = [dict(x) for x in dl]
                    if pre or sp:
                        dl2[0]["pre"], dl2[0]["sp"] = pre, sp
                    core = [dict(x) for x in before] + [dict(x) for x in e] + [dict(x) for x in btw] + dl2
                    tail = [dict(x) for x in after]
                    if pos == 0:
                        lines = core + tail
                    elif pos == 1:
                        lines = T("a0", ";") + core + tail
                    elif pos == 2:
                        lines = [dict(IF1)] + core + tail + [{"k": "endif"}]
                    elif pos == 3:
                        lines = [dict(IF0)] + T("skip0", ";") + [{"k": "else"}] + core + tail + [{"k": "endif"}]
                    else:
                        lines = T("a0", ";") + core          # the directive ends the file
                    out.append([dict(x) for x in prelude] + lines)
    return out


# ------------------------------------------------------------------ C text -> case (corpus entries, replays)
_COMMENT = re.compile(r"/\*.*?\*/", re.S)


def pp_tokenize_ws(text):
    """[(spelling, ws)] for one logical line (comments count as white space)"""
    out, i, n, ws = [], 0, len(text), 0
    while i < n:
        c = text[i]
        if c in " \t\r\f\v":
            ws = 1; i += 1; continue
        if text.startswith("/*", i):
            j = text.find("*/", i + 2)
            i = n if j < 0 else j + 2
            ws = 1
            continue
        m = _STR.match(text, i) or _CHR.match(text, i) or _NUM.match(text, i) or _ID.match(text, i)
        if m:
            out.append((m.group(0), ws)); i = m.end(); ws = 0; continue
        for p in PUNCT:
            if text.startswith(p, i):
                out.append((p, ws)); i += len(p); break
        else:
            out.append((c, ws)); i += 1
        ws = 0
    return out


def parse_source(text):
    lines = []
    for raw in text.replace("\\\n", " ").split("\n"):
        toks = pp_tokenize_ws(raw)
        if not toks:
            continue
        if toks[0][0] in ("#", "%:"):
            if len(toks) == 1:
                continue
            d = toks[1][0]
            rest = toks[2:]
            if d == "define":
                name = rest[0][0]
                params, variadic, k = None, False, 1
                if len(rest) > 1 and rest[1][0] == "(" and rest[1][1] == 0:
                    params, k = [], 2
                    while rest[k][0] != ")":
                        if rest[k][0] == "...":
                            variadic = True
                        elif rest[k][0] != ",":
                            params.append(rest[k][0])
                        k += 1
                    k += 1
                repl = [(sp, ws) for sp, ws in rest[k:]]
                if repl:
                    repl[0] = (repl[0][0], 0)
                lines.append({"k": "define", "name": name, "params": params, "variadic": variadic, "repl": repl})
            elif d == "undef":
                lines.append({"k": "undef", "name": rest[0][0]})
            elif d in ("if", "elif"):
                lines.append({"k": d, "toks": rest})
            elif d in ("ifdef", "ifndef"):
                lines.append({"k": d, "name": rest[0][0]})
            elif d in ("else", "endif"):
                lines.append({"k": d})
            else:
                raise ValueError("unsupported directive " + d)
        else:
            if lines and lines[-1]["k"] == "text":
                toks[0] = (toks[0][0], 1)
            lines.append({"k": "text", "toks": toks})
    return lines
