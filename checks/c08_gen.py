"""C08: random C type declarations, their rendering to C and to the Lean driver's prefix syntax.

type  := ('sc', name) | ('arr', n, type) | ('agg', is_union, [member])
member:= ('p', type) | ('b', width, named, type) | ('a', type)        # plain / bit-field / anonymous
"""

SC_C = {"bool": "_Bool", "char": "char", "schar": "signed char", "uchar": "unsigned char",
        "short": "short", "ushort": "unsigned short", "int": "int", "uint": "unsigned int",
        "long": "long", "ulong": "unsigned long", "llong": "long long", "ullong": "unsigned long long",
        "float": "float", "double": "double", "ldouble": "long double", "ptr": "void *",
        "enum4": "enum c08_e4", "enum8": "enum c08_e8"}
SC_SIZE = {"bool": 1, "char": 1, "schar": 1, "uchar": 1, "short": 2, "ushort": 2, "int": 4, "uint": 4,
           "long": 8, "ulong": 8, "llong": 8, "ullong": 8, "float": 4, "double": 8, "ldouble": 16,
           "ptr": 8, "enum4": 4, "enum8": 8}
INT_SC = ["bool", "char", "schar", "uchar", "short", "ushort", "int", "uint", "long", "ulong",
          "llong", "ullong", "enum4", "enum8"]
ALL_SC = list(SC_C)
PRELUDE = ("enum c08_e4 { C08_E4A = -1, C08_E4B = 100 };\n"
           "enum c08_e8 { C08_E8A = 0, C08_E8B = 0x100000000 };\n")

# enumerated types whose extreme enumerators sit on the int / unsigned int / long boundaries, with and
# without a negative enumerator.  Scalar name (also the driver's token): "E:<least>:<greatest>".
INT_MAX, UINT_MAX, INT_MIN = 2147483647, 4294967295, -2147483648
BOUND_ENUMS = [(0, INT_MAX - 1), (0, INT_MAX), (0, INT_MAX + 1), (0, UINT_MAX), (0, UINT_MAX + 1),
               (-1, INT_MAX - 1), (-1, INT_MAX), (-1, INT_MAX + 1), (-1, UINT_MAX), (-1, UINT_MAX + 1),
               (INT_MIN + 1, 5), (INT_MIN, 0), (INT_MIN, INT_MAX), (INT_MIN - 1, 0), (INT_MIN - 1, INT_MAX + 1)]


def enum_name(mn, mx):
    return f"E:{mn}:{mx}"


def enum_size(mn, mx):
    """the platform compiler's rule (GCC manual, implementation-defined behaviour of enumerations)"""
    if mn >= 0:
        return 4 if mx <= UINT_MAX else 8
    return 4 if (INT_MIN <= mn and mx <= INT_MAX) else 8


def c_int(v):
    if v == INT_MIN:
        return "(-2147483647 - 1)"
    if v > 2 ** 63 - 1:
        return f"{v}UL"
    return f"({v}L)" if v < INT_MIN or v > INT_MAX else str(v)


ENUM_NAMES = []
for _i, (_mn, _mx) in enumerate(BOUND_ENUMS):
    _n = enum_name(_mn, _mx)
    ENUM_NAMES.append(_n)
    SC_C[_n] = f"enum c08_eb{_i}"
    SC_SIZE[_n] = enum_size(_mn, _mx)
    PRELUDE += f"enum c08_eb{_i} {{ C08_EB{_i}A = {c_int(_mn)}, C08_EB{_i}B = {c_int(_mx)} }};\n"
ENUM_SC = ["enum4", "enum8"] + ENUM_NAMES


def is_enum(sc):
    return sc in ("enum4", "enum8") or sc.startswith("E:")


def to_tokens(t):
    """prefix syntax understood by mirdrv_c08"""
    if t[0] == "sc":
        return [t[1]]
    if t[0] == "arr":
        return ["A", str(t[1])] + to_tokens(t[2])
    out = ["U" if t[1] else "S"]
    for m in t[2]:
        if m[0] == "p":
            out += ["p"] + to_tokens(m[1])
        elif m[0] == "a":
            out += ["a"] + to_tokens(m[1])
        else:
            out += ["b", str(m[1]), "1" if m[2] else "0"] + to_tokens(m[3])
    return out + ["."]


def from_tokens(toks):
    def ty(i):
        t = toks[i]
        if t == "A":
            e, j = ty(i + 2)
            return ("arr", int(toks[i + 1]), e), j
        if t in ("S", "U"):
            ms, j = [], i + 1
            while toks[j] != ".":
                k = toks[j]
                if k == "p":
                    e, j = ty(j + 1)
                    ms.append(("p", e))
                elif k == "a":
                    e, j = ty(j + 1)
                    ms.append(("a", e))
                else:
                    e, j2 = ty(j + 3)
                    ms.append(("b", int(toks[j + 1]), toks[j + 2] == "1", e))
                    j = j2
            return ("agg", t == "U", ms), j + 1
        return ("sc", t), i + 1
    r, j = ty(0)
    assert j == len(toks)
    return r


def to_str(t):
    return " ".join(to_tokens(t))


def has_bf(t):
    if t[0] == "sc":
        return False
    if t[0] == "arr":
        return has_bf(t[2])
    return any(m[0] == "b" or has_bf(m[-1]) for m in t[2])


def features(t, acc=None):
    """syntactic features of a declaration (used to name the class of a shrunk mismatch)"""
    acc = acc if acc is not None else set()
    if t[0] == "arr":
        acc.add("array")
        features(t[2], acc)
    elif t[0] == "agg":
        acc.add("union" if t[1] else "struct")
        sizes = set()
        first = True
        for m in t[2]:
            if m[0] == "b":
                acc.add("bf")
                sizes.add(SC_SIZE[m[3][1]])
                if m[1] == 0:
                    acc.add("bf-zero")
                    if first:
                        acc.add("bf-zero-leading")
                elif not m[2]:
                    acc.add("bf-unnamed")
            else:
                if m[0] == "a":
                    acc.add("anon")
                if m[1][0] == "agg":
                    acc.add("nested")
                features(m[1], acc)
            first = False
        if len(sizes) > 1:
            acc.add("bf-mixed-sizes")
    else:
        if t[1] == "ldouble":
            acc.add("ldouble")
    return acc


class Renderer:
    """renders types to C.  Every non-anonymous aggregate becomes `typedef struct {...} <prefix><n>;`"""

    def __init__(self, prefix="T"):
        self.prefix = prefix
        self.decls = []        # C text of typedefs, in dependency order
        self.names = {}        # to_str(type) -> typedef name
        self.fld = 0

    def spec(self, t):
        """(specifier, declarator-suffix) for declaring an object of type t"""
        if t[0] == "sc":
            return SC_C[t[1]], ""
        if t[0] == "arr":
            s, suf = self.spec(t[2])
            return s, f"[{t[1]}]" + suf
        return self.typedef(t), ""

    def body(self, t, indent="  "):
        lines = []
        for m in t[2]:
            if m[0] == "p":
                s, suf = self.spec(m[1])
                self.fld += 1
                lines.append(f"{indent}{s} f{self.fld}{suf};")
            elif m[0] == "b":
                s, _ = self.spec(m[3])
                if m[2]:
                    self.fld += 1
                    lines.append(f"{indent}{s} f{self.fld} : {m[1]};")
                else:
                    lines.append(f"{indent}{s} : {m[1]};")
            else:
                a = m[1]
                lines.append(f"{indent}{'union' if a[1] else 'struct'} {{")
                lines += self.body(a, indent + "  ")
                lines.append(f"{indent}}};")
        return lines

    def typedef(self, t):
        key = to_str(t)
        if key in self.names:
            return self.names[key]
        # members first (their typedefs must precede); field names are local to each typedef
        saved = self.fld
        self.fld = 0
        lines = self.body(t)
        self.fld = saved
        name = f"{self.prefix}{len(self.names)}"
        self.names[key] = name
        self.decls.append(f"typedef {'union' if t[1] else 'struct'} {{\n" + "\n".join(lines) + f"\n}} {name};\n")
        return name

    def text(self):
        return PRELUDE + "".join(self.decls)


def member_paths(t):
    """nameable members of aggregate t through anonymous members: [(c_path, kind, sc_or_None)], in the
    order of Lean's flatMems; field names follow Renderer.body numbering"""
    out = []
    cnt = [0]

    def walk(a):
        for m in a[2]:
            if m[0] == "p":
                cnt[0] += 1
                out.append((f"f{cnt[0]}", "p", m[1]))
            elif m[0] == "b":
                if m[2]:
                    cnt[0] += 1
                    out.append((f"f{cnt[0]}", "b", m[3]))
            else:
                walk(m[1])
    walk(t)
    return out


def leaf_paths(t, rend, base="", out=None):
    """scalar leaves of a value of type t: [(c_lvalue_suffix, scalar name, bit-width or None)]"""
    out = out if out is not None else []
    if t[0] == "sc":
        out.append((base, t[1], None))
    elif t[0] == "arr":
        for i in range(t[1]):
            leaf_paths(t[2], rend, f"{base}[{i}]", out)
    else:
        cnt = [0]

        def walk(a):
            for m in a[2]:
                if m[0] == "p":
                    cnt[0] += 1
                    leaf_paths(m[1], rend, f"{base}.f{cnt[0]}", out)
                elif m[0] == "b":
                    if m[2]:
                        cnt[0] += 1
                        out.append((f"{base}.f{cnt[0]}", m[3][1], m[1]))
                else:
                    walk(m[1])
        walk(t)
    return out


# ------------------------------------------------------------------------------------- generation
def gen_scalar(rng, allow_ld=True):
    r = rng.below(100)
    if r < 55:
        return ("sc", rng.choice(["char", "schar", "uchar", "short", "ushort", "int", "uint", "long",
                                  "ulong", "llong", "ullong", "bool"]))
    if r < 80:
        return ("sc", rng.choice(["float", "double"]))
    if r < 88 and allow_ld:
        return ("sc", "ldouble")
    if r < 94:
        return ("sc", "ptr")
    return ("sc", rng.choice(ENUM_SC))


def gen_bf(rng, hint=None):
    """a bit-field member; `hint` = scalar name to prefer (same-type runs)"""
    sc = hint if hint and rng.chance(2, 3) else rng.choice(INT_SC)
    mx = 1 if sc == "bool" else 8 * SC_SIZE[sc]
    r = rng.below(100)
    if r < 8:
        return ("b", 0, False, ("sc", sc))
    if r < 20:
        w = mx
    elif r < 60:
        w = 1 + rng.below(min(mx, 9))
    else:
        w = 1 + rng.below(mx)
    named = not rng.chance(1, 8)
    return ("b", w, named, ("sc", sc))


def gen_agg(rng, depth, bf_rate, small=False):
    is_union = rng.chance(1, 5)
    n = 1 + rng.below(3 if small else 6)
    ms = []
    hint = None
    for _ in range(n):
        r = rng.below(100)
        if r < bf_rate:
            m = gen_bf(rng, hint)
            hint = m[3][1]
            ms.append(m)
        elif r < bf_rate + 12 and depth > 0:
            ms.append(("a", gen_agg(rng, depth - 1, bf_rate, small=True)))
        else:
            ms.append(("p", gen_type(rng, depth - 1, bf_rate, small)))
    # at least one member that is not a zero-width bit-field
    if all(m[0] == "b" and m[1] == 0 for m in ms):
        ms.append(("p", gen_scalar(rng)))
    return ("agg", is_union, ms)


def gen_type(rng, depth, bf_rate, small=False):
    r = rng.below(100)
    if depth <= 0 or r < 50:
        t = gen_scalar(rng)
    elif r < 85:
        t = gen_agg(rng, depth, bf_rate, small)
    else:
        t = gen_type(rng, depth - 1, bf_rate, small)
    if rng.chance(1, 6):
        t = ("arr", 1 + rng.below(4), t)
        if rng.chance(1, 6):
            t = ("arr", 1 + rng.below(3), t)
    return t


def gen_decl(rng, kind=None):
    """one top-level struct/union declaration.  kind: 'plain' (no bit-fields), 'bf', 'small'"""
    kind = kind or rng.choice(["plain", "bf", "bf", "small"])
    if kind == "plain":
        return gen_agg(rng, 2 + rng.below(2), 0)
    if kind == "small":
        return gen_small(rng)
    return gen_agg(rng, 1 + rng.below(2), 30 + rng.below(50))


def gen_small(rng, bf_rate=None):
    """aggregates of at most 16..32 bytes (interesting for register passing)"""
    bf_rate = rng.choice([0, 0, 0, 25]) if bf_rate is None else bf_rate
    for _ in range(200):
        t = gen_agg(rng, 2, bf_rate, small=True)
        if approx_size(t) <= (16 if rng.chance(5, 6) else 40):
            return t
    return ("agg", False, [("p", ("sc", "int"))])


def approx_size(t):
    """upper estimate of sizeof (natural alignment, no packing of bit-fields)"""
    if t[0] == "sc":
        return SC_SIZE[t[1]]
    if t[0] == "arr":
        return t[1] * approx_size(t[2])
    tot = 0
    al = 1
    for m in t[2]:
        s = approx_size(m[-1])
        a = min(16, s) if m[-1][0] == "sc" else 8
        al = max(al, a)
        if t[1]:
            tot = max(tot, s)
        else:
            tot = (tot + a - 1) // a * a + s
    return (tot + al - 1) // al * al


# ------------------------------------------------------------------------------------- shrinking
def shrink_candidates(t):
    """strictly smaller variants of an aggregate declaration"""
    out = []
    if t[0] != "agg":
        return out
    ms = t[2]
    # a member of aggregate type on its own
    for m in ms:
        e = m[-1]
        while e[0] == "arr":
            e = e[2]
        if e[0] == "agg" and m[0] != "b":
            out.append(e)
    # drop one member
    if len(ms) > 1:
        for i in range(len(ms)):
            r = ms[:i] + ms[i + 1:]
            if not all(m[0] == "b" and m[1] == 0 for m in r):
                out.append(("agg", t[1], r))
    # union -> struct
    if t[1]:
        out.append(("agg", False, ms))
    # simplify one member
    for i, m in enumerate(ms):
        reps = []
        if m[0] == "p":
            e = m[1]
            if e[0] == "arr":
                reps.append(("p", e[2]))
                if e[1] > 1:
                    reps.append(("p", ("arr", e[1] - 1, e[2])))
            if e[0] == "agg":
                reps += [("p", c) for c in shrink_candidates(e)]
            if e[0] == "sc" and e[1] not in ("char", "int"):
                reps.append(("p", ("sc", "char" if SC_SIZE[e[1]] == 1 else "int")))
        elif m[0] == "a":
            reps.append(("p", m[1]))
            reps += [("a", c) for c in shrink_candidates(m[1]) if c[0] == "agg"]
        else:
            w, nm, sc = m[1], m[2], m[3][1]
            if not nm and w > 0:
                reps.append(("b", w, True, m[3]))
            if w > 1:
                reps.append(("b", w // 2, nm, m[3]))
                reps.append(("b", w - 1, nm, m[3]))
            for s2 in ("uint", "uchar"):
                if sc != s2 and w <= 8 * SC_SIZE[s2] and sc not in ("int", "char", "uint", "uchar"):
                    reps.append(("b", w, nm, ("sc", s2)))
        for r in reps:
            out.append(("agg", t[1], ms[:i] + [r] + ms[i + 1:]))
    return out


def type_weight(t):
    """shrinking order: fewer tokens, then fewer unnamed bit-fields, then smaller widths / array sizes"""
    toks = to_tokens(t)
    w, i = len(toks) * 1000, 0
    while i < len(toks):
        if toks[i] == "b":
            w += int(toks[i + 1]) + (0 if toks[i + 2] == "1" else 200)
            i += 3
        elif toks[i] == "A":
            w += int(toks[i + 1])
            i += 2
        else:
            w += {"U": 3, "ldouble": 2, "char": 0, "int": 0, "uint": 0, "uchar": 0, "S": 0, "p": 0, "a": 5, ".": 0}.get(toks[i], 1)
            i += 1
    return w
