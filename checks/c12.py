"""C12 — the binary-MIR compression layer (mir-reduce.h) is lossless and never trusts a damaged stream.

Proof gate : lake build MirVerif.Props.C12 (+ bridge Lemmas/BridgeC12 against constants regenerated
             from the current header by translate/c12_consts.py), forbidden-word grep, axiom audit.
Tie gate   : harness/c12_reduce.c (real encoder/decoder, ASan+UBSan, with and without -DNDEBUG)
             against the Lean driver mirdrv_c12 (model encoder `encode mirCfg`, model decoder
             `decodeF mirCfg` which is proved equal to `decode mirCfg`):
               * encoder output must be byte-identical,
               * decoding the real encoder's output with the real decoder must give the input back,
               * on arbitrary streams both decoders must agree on (ok, bytes),
               * no sanitizer report / assert / crash on any stream.
             harness/c12_mirread.c: the same layer under mir.c's reader (MIR_read_with_func): modules whose
             uncompressed stream is exactly k x 262144 (+-1) bytes, damaged trailer/body must be rejected.
Verdicts   : crash, failed round trip, an accepted corrupted stream with different output, or a
             debug/NDEBUG behaviour difference on the real code = VIOLATION with replay;
             real code consistent but different from the model = broken tie (no-failing-input-found).
"""
import glob
import json
import os
import shutil
import subprocess
import sys
import time
from concurrent.futures import ThreadPoolExecutor

import vf
from vf import Check, VERIF, REPO
import c12_gen as G

SUPPORT = ["MirVerif.Model.Hash", "MirVerif.Model.Reduce", "MirVerif.Model.ReduceFast",
           "MirVerif.Lemmas.ReduceCodec", "MirVerif.Lemmas.ReduceDecode", "MirVerif.Lemmas.ReduceDict",
           "MirVerif.Lemmas.ReduceEncode", "MirVerif.Lemmas.ReduceRoundtrip", "MirVerif.Lemmas.ReduceFast"]
BRIDGE = ["MirVerif.Lemmas.BridgeC12"]
FLAGS = ["-O1", "-g", "-fsanitize=address,undefined", "-fno-sanitize=alignment", "-fno-sanitize-recover=all"]
DRV = os.path.join(vf.LEAN, ".lake", "build", "bin", "mirdrv_c12")
WORKERS = 14
B = G.BUF_LEN
MAX_VIOL = 4


def hx(b):
    return b.hex() if b else "-"


def unhx(s):
    return b"" if s == "-" else bytes.fromhex(s)


def _env():
    e = dict(os.environ)
    e["ASAN_OPTIONS"] = "detect_leaks=1:abort_on_error=0:allocator_may_return_null=1"
    e["UBSAN_OPTIONS"] = "print_stacktrace=1:halt_on_error=1"
    return e


def run_lines(cmd, lines, timeout=900):
    """feed protocol lines to a line-protocol process; returns a list with one answer per line.
    An answer is a string, or {"crash": stderr-tail} when the process died on that line
    (the rest is re-run in a fresh process)."""
    res = []
    todo = list(lines)
    while todo:
        try:
            p = subprocess.run(cmd, input="".join(l + "\n" for l in todo), stdout=subprocess.PIPE,
                               stderr=subprocess.PIPE, text=True, timeout=timeout, env=_env())
            out = [l for l in p.stdout.split("\n") if l]
            rc, err = p.returncode, p.stderr
        except subprocess.TimeoutExpired as ex:
            o = ex.stdout or b""
            o = o.decode("utf-8", "replace") if isinstance(o, bytes) else o
            out = [l for l in o.split("\n") if l]
            rc, err = -999, "timeout"
        if len(out) >= len(todo) and rc == 0:
            res += out[:len(todo)]
            break
        # died (or reported a leak at exit): attribute to the first unanswered line
        k = min(len(out), len(todo))
        res += out[:k]
        if k == len(todo):
            # all answered but non-zero exit status (e.g. leak report at exit)
            res[-1] = {"crash": f"exit status {rc} after last line: " + err[-1500:], "answer": res[-1]}
            break
        res.append({"crash": f"rc={rc} " + err[-1500:]})
        todo = todo[k + 1:]
    return res


def run_par(cmd, lines, workers=WORKERS):
    """like run_lines, split over several processes (order preserved)"""
    if len(lines) < 64:
        return run_lines(cmd, lines)
    n = min(workers, max(1, len(lines) // 32))
    step = (len(lines) + n - 1) // n
    parts = [lines[i:i + step] for i in range(0, len(lines), step)]
    with ThreadPoolExecutor(max_workers=n) as ex:
        outs = list(ex.map(lambda p: run_lines(cmd, p), parts))
    return [x for o in outs for x in o]


class Tie:
    def __init__(self, ck, exes):
        self.ck = ck
        self.exes = exes        # {"asan": path, "ndebug": path}
        self.n_eval = 0
        self.nontrivial = set()
        self.dist = {"kinds": {}, "sizes": {}, "reject_why": {}, "features": {}, "verdicts": {}}
        self.alt_valid = {}          # kind -> count of accepted altered streams with unchanged output
        self.alt_valid_sample = None
        self.first_tie_diff = None

    # ------------------------------------------------------------------ bookkeeping
    def bump(self, table, key, n=1):
        d = self.dist[table]
        d[key] = d.get(key, 0) + n

    def size_bucket(self, n):
        for lim in (0, 4, 12, 64, 512, 4096, 65536, B - 1, B, 2 * B):
            if n <= lim:
                return f"<={lim}"
        return f">{2 * B}"

    def too_many(self):
        return self.ck.n_viol >= MAX_VIOL

    def all3(self, lines):
        """run the same lines through the harness flavours and the model, concurrently.
        Returns (asan answers, ndebug answers, model answers); a crash of the MSan flavour
        (clang -fsanitize=memory: use of an uninitialised value) is folded into the asan answer
        as a crash record, since it is a memory-safety report about the same line."""
        with ThreadPoolExecutor(max_workers=4) as ex:
            fa = ex.submit(run_par, [self.exes["asan"]], lines, 5)
            fn = ex.submit(run_par, [self.exes["ndebug"]], lines, 4)
            fm = ex.submit(run_par, [DRV], lines, 4)
            fs = ex.submit(run_par, [self.exes["msan"]], lines, 4) if self.exes.get("msan") else None
            ra, rn, rm = fa.result(), fn.result(), fm.result()
            if fs is not None:
                rs = fs.result()
                for i, (a, sres) in enumerate(zip(ra, rs)):
                    if isinstance(sres, dict) and not isinstance(a, dict):
                        ra[i] = dict(sres, flavour="msan")
                    elif isinstance(sres, str) and isinstance(a, str) and sres != a:
                        ra[i] = {"crash": "MSan flavour answers differently: " + sres[:300] + " vs " + a[:300], "flavour": "msan"}
            return ra, rn, rm

    def rerun_cmd(self, path):
        return f"cd /verif && ./check C12 --replay {path}"

    def viol(self, case, what, signature, impl, model, extra=None):
        if self.too_many():
            return
        rep = {"stage": "tie", "theorem_or_correspondence": "c12_reduce harness vs mirdrv_c12",
               "input": {"op": case["op"], "arg": case["arg"] if len(case["arg"]) < 20000 else case["arg"][:20000] + "…",
                         "kind": case.get("kind"), "orig": case.get("orig")},
               "impl_output": impl, "model_output": model, "spec_verdict": what}
        if len(case["arg"]) >= 20000:
            # keep the full input beside the replay
            rep["input"]["arg_file"] = True
        if extra:
            rep.update(extra)
        path = self.ck._next_replay()
        rep["how_to_rerun"] = self.rerun_cmd(path)
        if rep["input"].get("arg_file"):
            with open(path + ".arg", "w") as f:
                f.write(case["arg"])
        self.ck.violation(rep, what=what, signature=signature)

    def tie_diff(self, case, impl, model, what):
        self.bump("verdicts", "model!=code")
        if self.first_tie_diff is None:
            self.first_tie_diff = True
            self.ck.broken_ties.append({"kind": "correspondence", "name": "c12_reduce vs Model.Reduce: " + what,
                                        "first_diff": {"op": case["op"], "arg": case["arg"][:4000], "kind": case.get("kind"),
                                                       "impl": str(impl)[:2000], "model": str(model)[:2000]}})

    # ------------------------------------------------------------------ shrinking
    def shrink(self, data, bad):
        """greedy block deletion; bad(list of candidates) -> list of bool (still failing)"""
        evals = 0
        n = 2
        while len(data) > 1 and evals < 400:
            step = max(1, len(data) // n)
            cands = [data[:i] + data[i + step:] for i in range(0, len(data), step)]
            cands = [c for c in cands if len(c) < len(data)][:40]
            if not cands:
                break
            r = bad(cands)
            evals += len(cands)
            hit = [c for c, b in zip(cands, r) if b]
            if hit:
                data = min(hit, key=len)
                n = max(2, n - 1)
            else:
                if step == 1:
                    break
                n = min(len(data), n * 2)
        return data

    # ------------------------------------------------------------------ encoder side
    def roundtrip_bad(self, datas):
        """which of these inputs fail the round trip (or crash) on the real code (asan flavour)"""
        r = run_par([self.exes["asan"]], ["X " + "rep:%d:%s" % (len(d), hx(d)) if d else "X rep:0:61" for d in datas], 8)
        return [not (isinstance(x, str) and x.startswith("X 1 1 1")) for x in r]

    def encode_cases(self, cases):
        """cases: list of {"op": "E"|"G", "arg", "kind"}.  Returns {arg: C encoding bytes} for E cases."""
        if not cases:
            return {}
        lines = [c["op"] + " " + c["arg"] for c in cases]
        ra, rn, rm = self.all3(lines)
        encs = {}
        for c, a, n, m in zip(cases, ra, rn, rm):
            self.n_eval += 1
            self.bump("kinds", c["kind"])
            if self.too_many():
                break
            crashed = [x for x in (a, n) if isinstance(x, dict)]
            if crashed:
                self.viol(c, "the real encoder crashed / raised a sanitizer report or assert", "C12:encoder-crash", crashed[0], m)
                continue
            if a != n:
                self.viol(c, "encoder output differs between debug and NDEBUG builds", "C12:ndebug-diff", {"asan": a[:400], "ndebug": n[:400]}, str(m)[:400])
                continue
            if not a.startswith("E 1 "):
                self.viol(c, "real encoder reported failure", "C12:encoder-fail", a[:200], str(m)[:200])
                continue
            enc = unhx(a[4:])
            if c["op"] == "E":
                encs[c["arg"]] = enc
                self.bump("sizes", self.size_bucket(len(unhx(c["arg"]))))
            if isinstance(m, dict) or m != a:
                # model != code: does the property fail on the real code?  (round trip)
                c["_mismatch"] = (a, m)
        # properties of the encodings (python parser): features, non-triviality
        for c in cases:
            if c["op"] == "E" and c["arg"] in encs:
                ok, d, info = G.py_decode(encs[c["arg"]])
                if info["refs"] > 0:
                    self.nontrivial.add(("E", c["arg"]))
                for k in ("long_sym", "long_ref", "chunks"):
                    if info[k]:
                        self.bump("features", "enc_" + k)
        return encs

    def settle_mismatches(self, cases):
        for c in cases:
            if "_mismatch" not in c or self.too_many():
                continue
            a, m = c.pop("_mismatch")
            if c["op"] == "E":
                data = unhx(c["arg"])
                if self.roundtrip_bad([data])[0]:
                    small = self.shrink(data, self.roundtrip_bad)
                    cc = dict(c, arg=hx(small), kind=c["kind"] + "+shrunk")
                    out = run_lines([self.exes["asan"]], ["E " + hx(small), "X rep:%d:%s" % (len(small), hx(small)) if small else "X rep:0:61"])
                    self.viol(cc, "round trip fails on the real code: decode(encode(d)) != d or not ok", "C12:roundtrip", out, str(m)[:300])
                    continue
            self.tie_diff(c, a[:2000], m if isinstance(m, dict) else m[:2000], "encoder bytes differ")

    # ------------------------------------------------------------------ decoder side
    def decode_cases(self, cases):
        """cases: {"op": "D", "arg": hex stream, "kind", optional "orig": hex of the data whose encoding
        was corrupted, "enc": hex of the unmodified encoding, "expect": (ok, hex)}"""
        if not cases:
            return
        lines = ["D " + c["arg"] for c in cases]
        ra, rn, rm = self.all3(lines)
        for c, a, n, m in zip(cases, ra, rn, rm):
            self.n_eval += 1
            self.bump("kinds", c["kind"])
            if self.too_many():
                break
            crashed = [x for x in (a, n) if isinstance(x, dict)]
            if crashed:
                self.viol(c, "the real decoder crashed / raised a sanitizer report or assert on this stream",
                          "C12:decoder-crash", crashed[0], m)
                continue
            if a != n:
                self.viol(c, "decoder result differs between debug and NDEBUG builds", "C12:ndebug-diff",
                          {"asan": a[:400], "ndebug": n[:400]}, str(m)[:400])
                continue
            w = a.split(" ")
            ok = w[1] == "1"
            out = unhx(w[2]) if ok else None
            stream = unhx(c["arg"])
            if len(stream) < 70000:
                pok, pd, info = G.py_decode(stream)
                if info["refs"] > 0 or info["why"] in ("ref-ind", "ref-bounds"):
                    self.nontrivial.add(("D", c["arg"]))
                if not pok:
                    self.bump("reject_why", info["why"])
                for k in ("long_sym", "long_ref", "chunks"):
                    if info[k]:
                        self.bump("features", "dec_" + k)
            self.bump("verdicts", "accepted" if ok else "rejected")
            # property verdicts on the real code
            if "orig" in c:
                orig = unhx(c["orig"])
                if ok and c["arg"] != c.get("enc"):
                    if out != orig:
                        self.viol(c, "a corrupted stream was ACCEPTED and decoded to data different from the original",
                                  "C12:accepted-corrupt", a[:2000], str(m)[:2000])
                        continue
                    self.alt_valid[c["kind"]] = self.alt_valid.get(c["kind"], 0) + 1
                    if self.alt_valid_sample is None or (c["kind"] == "substitution" and self.alt_valid_sample["kind"] != "substitution"):
                        self.alt_valid_sample = {"orig": c["orig"], "encoding": c.get("enc"), "altered": c["arg"], "kind": c["kind"]}
                if c["arg"] == c.get("enc") and not (ok and out == orig):
                    self.viol(c, "round trip fails on the real code: the decoder does not return the encoded data",
                              "C12:roundtrip", a[:2000], str(m)[:2000])
                    continue
            if "expect" in c:
                eok, ehex = c["expect"]
                if ok != eok or (ok and hx(out) != ehex):
                    # the python reference disagrees with the real code; the model arbitrates below
                    self.bump("verdicts", "pyref!=code")
            # tie
            if isinstance(m, dict):
                self.tie_diff(c, a[:2000], m, "model driver crashed")
                continue
            if m.startswith("D oob"):
                self.tie_diff(c, a[:2000], m, "model reports oob (contradicts theorem no_oob)")
                continue
            mw = m.split(" ")
            mok = mw[1] == "1"
            if ok and not mok:
                self.viol(c, "the real decoder ACCEPTS a stream that the verified decoder model (the format rules of the fixed code) rejects",
                          "C12:accepted-malformed", a[:2000], m[:2000])
            elif mok != ok or (ok and mw[2] != w[2]):
                self.tie_diff(c, a[:2000], m[:2000], "decoder (ok, bytes) differ")

    # ------------------------------------------------------------------ large inputs
    def big_cases(self, specs):
        """G (encoder bytes C vs model) and X (decode of the encoding) on generated large data"""
        lines = ["G " + s for s in specs] + ["X " + s for s in specs]
        ra, rn, rm = self.all3(lines)
        k = len(specs)
        for i, s in enumerate(specs):
            self.n_eval += 2
            self.bump("kinds", "big:" + s.split(":")[0])
            n = int(s.split(":")[1])
            self.bump("sizes", self.size_bucket(n))
            c = {"op": "G", "arg": s, "kind": "big"}
            ga, gn, gm = ra[i], rn[i], rm[i]
            xa, xn, xm = ra[k + i], rn[k + i], rm[k + i]
            crashed = [x for x in (ga, gn, xa, xn) if isinstance(x, dict)]
            if crashed:
                self.viol(c, "real encoder/decoder crashed / sanitizer report on generated data", "C12:encoder-crash", crashed[0], str(gm)[:200])
                continue
            if not (xa.startswith("X 1 1 1") and xn.startswith("X 1 1 1")):
                self.viol(dict(c, op="X"), "round trip fails on the real code for generated data", "C12:roundtrip", {"asan": xa, "ndebug": xn}, str(xm)[:200])
                continue
            if ga != gn:
                self.viol(c, "encoder output differs between debug and NDEBUG builds", "C12:ndebug-diff", {"asan": ga[:200], "ndebug": gn[:200]}, "")
                continue
            self.nontrivial.add(("G", s))
            if isinstance(gm, dict) or gm != ga:
                self.tie_diff(c, ga[:300] + "…", gm if isinstance(gm, dict) else gm[:300] + "…", "encoder bytes differ on generated data")
            if isinstance(xm, dict) or not xm.startswith("X 1 1 1"):
                self.tie_diff(dict(c, op="X"), xa, xm, "model round trip on generated data")
        # feed the real encodings of the first few to both decoders as D lines (decoder tie on big streams)
        dl = []
        for i, s in enumerate(specs[:6]):
            if isinstance(ra[i], str) and ra[i].startswith("E 1 "):
                dl.append({"op": "D", "arg": ra[i][4:], "kind": "big-decode"})
        self.decode_cases(dl)


def mirread_cases(tie, targets, only_case=None):
    """the layer as mir.c uses it: MIR_read_with_func over damaged copies of a written module whose
    uncompressed stream is exactly <target> bytes (harness/c12_mirread.c)"""
    exe = tie.exes.get("mirread")
    if exe is None:
        return
    try:
        p = subprocess.run([exe] + [str(t) for t in targets], stdout=subprocess.PIPE, stderr=subprocess.PIPE, text=True, timeout=600)
        out, rc, err = p.stdout, p.returncode, p.stderr
    except subprocess.TimeoutExpired:
        out, rc, err = "", -999, "timeout"
    seen = set()
    for line in out.split("\n"):
        w = line.split()
        if not w:
            continue
        if w[0] == "?":
            tie.ck.broken_ties.append({"kind": "correspondence", "name": "c12_mirread: " + line})
            continue
        if w[0] == "S":
            seen.add(int(w[1]))
            tie.bump("sizes", tie.size_bucket(int(w[2])))
            continue
        if w[0] != "C":
            continue
        target, name = int(w[1]), w[2]
        if only_case and name != only_case:
            continue
        f = dict(x.split("=") for x in w[3:])
        tie.n_eval += 1
        tie.bump("kinds", "mirread:" + ("unmodified" if name == "unmodified" else name.rstrip("0123456789-").rstrip("-") if not name.startswith("body") else "body-byte-flipped"))
        c = {"op": "R", "arg": f"{target}:{name}", "kind": "mirread"}
        if name == "unmodified":
            if f != {"dec": "1", "read": "1", "same": "1"}:
                tie.viol(c, "a module written by MIR_write_with_func is not read back unchanged by MIR_read_with_func "
                         f"(uncompressed size {target})", "C12:mirread-roundtrip", line, "")
        elif f["read"] == "1" and f["dec"] == "0":
            tie.viol(c, f"MIR_read_with_func ACCEPTS a damaged binary ({name}, uncompressed size {target} = a multiple of the 262144-byte "
                     "buffer) although reduce_decode reports failure on the same bytes: the decoder's failure after the last data "
                     "byte (check hash wrong/missing) is not looked at" + ("; the module read differs from the one written" if f["same"] == "0" else ""),
                     "C12:mirread-ignores-decode-finish", line, "reduce_decode ok=0")
            tie.nontrivial.add(("R", c["arg"]))
    if rc != 0:
        tie.viol({"op": "R", "arg": ",".join(map(str, targets)), "kind": "mirread"}, "c12_mirread harness crashed", "C12:mirread-crash", err[-1500:], "")
    for t in targets:
        if t not in seen and rc == 0:
            tie.ck.broken_ties.append({"kind": "correspondence", "name": f"c12_mirread: no answer for target {t}"})


# ---------------------------------------------------------------------------------- generators
def corruptions(tie, rng, data, enc, subst_vals, all_trunc=True):
    """every truncation, 1-byte extensions, every single-byte substitution (several values)"""
    out = []
    base = {"orig": hx(data), "enc": hx(enc)}
    out.append(dict(base, op="D", arg=hx(enc), kind="roundtrip"))
    if all_trunc:
        for k in range(len(enc)):
            out.append(dict(base, op="D", arg=hx(enc[:k]), kind="truncation"))
    for v in (0, 0x61, 0xff):
        out.append(dict(base, op="D", arg=hx(enc + bytes([v])), kind="extension"))
    for i in range(len(enc)):
        vals = set()
        for f in subst_vals:
            vals.add(f(enc[i], rng))
        vals.discard(enc[i])
        for v in sorted(vals):
            out.append(dict(base, op="D", arg=hx(enc[:i] + bytes([v]) + enc[i + 1:]), kind="substitution"))
    return out


def structured(tie, rng, data, enc):
    """field-aware mutations of a well-formed stream"""
    out = []
    base = {"orig": hx(data), "enc": hx(enc)}
    fields = G.parse_fields(enc)

    def put(s, kind):
        out.append(dict(base, op="D", arg=hx(bytes(s)), kind="struct:" + kind))
    for kind, a, b in fields:
        if kind == "tag":
            t = enc[a]
            for nt in {(t & 31) | (7 << 5), (t & 0xe0) | 31, (t & 0xe0), (t & 31), t ^ 0x20, t ^ 1, (t & 0xe0) | ((t & 31) + 1) % 32}:
                if nt != t:
                    put(enc[:a] + bytes([nt]) + enc[a + 1:], "tag")
        elif kind in ("symlen", "reflen", "refoff"):
            v, _ = G.uint_read(enc, a)
            for nv in {0, 1, v + 1, max(0, v - 1), 2047, 2048, B - 1, B, B + 1, (1 << 28) - 1}:
                for form in (None, 4):
                    try:
                        put(enc[:a] + G.uint_write(nv, form) + enc[b:], kind)
                    except Exception:
                        pass
            for first in (0x00, 0x03, 0x08, 0x0f):      # malformed uint prefix (pre-fix: assert / 5-byte form)
                put(enc[:a] + bytes([first, 0, 0, 0, 1]) + enc[b:], kind + "-badprefix")
            put(enc[:a] + G.uint_write(v, 4) + enc[b:], kind + "-noncanonical")
        elif kind == "hash":
            put(enc[:a] + bytes(8), "hash-zero")
            put(enc[:a] + enc[a:b - 1], "hash-short")
        elif kind == "trailertag":
            put(enc[:a] + enc, "stream-twice")
    return out


def crafted(tie, rng, n_parses, max_bytes, n_near=2):
    """streams built from scratch with the python serialiser"""
    out = []

    def put(s, kind, expect=None, orig=None):
        c = {"op": "D", "arg": hx(bytes(s)), "kind": "craft:" + kind}
        if expect is not None:
            c["expect"] = expect
        out.append(c)
    T = G.trailer
    # prefix problems / tiny streams
    for s in (b"", b"M", b"MI", b"MIR", b"MIS" + T(b""), b"MIR" + T(b""), b"MIR\0", b"MIR" + T(b"") + b"\0",
              b"XYZ" + G.ser_el(b"abc", None) + T(b"abc")):
        ok, d, _ = G.py_decode(s)
        put(s, "prefix", (ok, hx(d) if ok else "-"))
    # ref_ind = 0, ref beyond symbols, ref reaching pos exactly / one too far, overlapping source
    lit = b"abcdefgh"
    for ref, note in [((4, 0), "refind0"), ((4, 9), "refind>cur"), ((4, 8), "src0"), ((8, 8), "reach-pos"),
                      ((9, 8), "past-pos"), ((4, 5), "mid"), ((5, 5), "overlap1"), ((4, 1), "last-sym-short"),
                      ((1 << 20, 8), "huge-len"), ((B, 8), "len=buf"), ((34, 8), "escape-len")]:
        s = b"MIR" + G.ser_el(lit, ref)
        okp, dp, info = G.py_decode(s + b"\0" + bytes(8))
        if info["why"] == "hash-mismatch":       # element part is well-formed: give it the right trailer
            put(s + T(info["data"]), "ref-" + note, (True, hx(info["data"])))
        else:
            put(s + T(lit), "ref-" + note, (False, "-"))
    # sym_len forms: 0 through the escape code, non-canonical small, > MAX, more than available
    for n, form, note in [(0, None, "sym0-long"), (3, None, "sym3-long"), (3, 4, "sym3-long4"), (2047, None, "sym-max"),
                          (2048, None, "sym>max")]:
        lits = bytes((i * 7 + 1) & 0xff for i in range(n))
        s = b"MIR" + bytes([7 << 5]) + G.uint_write(n, form) + lits
        ok, d, _ = G.py_decode(s + T(lits))
        put(s + T(lits), note, (ok, hx(d) if ok else "-"))
    put(b"MIR" + bytes([0xe0]) + G.uint_write(100) + b"short", "sym-missing-bytes", (False, "-"))
    # pos + len against the end of the buffer: 128 literal elements of 2047 bytes, then a reference
    big = bytearray(b"MIR")
    blk = bytes(2047)
    for _ in range(128):
        big += G.ser_el(blk, None)
    pos = 128 * 2047        # 262016, 128 bytes below the end
    for ln, note, okx in [(128, "exact-end", True), (129, "one-past-end", False), (328, "prefix-overflow", False),
                          (127, "one-short", True)]:
        s = bytes(big) + G.ser_el(b"", (ln, 4549))
        data = bytes(pos + ln)
        put(s + (T(data) if okx else T(bytes(pos))), "bufend-" + note, (okx, hx(data) if okx else "-"))
    # a second buffer after an exactly full one, and a literal run crossing the end
    s = bytes(big) + G.ser_el(bytes(128), None) + G.ser_el(b"xyz", None)
    put(s + T(bytes(B) + b"xyz"), "two-buffers", (True, hx(bytes(B) + b"xyz")))
    s = bytes(big) + G.ser_el(bytes(129), None)
    put(s + T(bytes(B)), "lits-past-end", (False, "-"))
    # references may not reach into the previous buffer
    s = bytes(big) + G.ser_el(bytes(128), None) + G.ser_el(b"q", (4, 1))
    put(s + T(bytes(B) + b"q"), "ref-into-previous-buffer", (False, "-"))
    # malformed element parts whose trailer matches what a decoder WITHOUT the respective check would produce
    # (so that a decoder that lost the check accepts them; the fixed decoder must reject whatever the trailer)
    lit = b"abcdefgh"
    for ref, datas, note in [((4, 0), [lit + b"abcd", lit + bytes(4)], "refind0"),
                             ((9, 8), [lit + lit + b"a", lit + lit + b"\0"], "overlap-src0"),
                             ((5, 5), [lit + b"defgh"[:4] + b"d", lit + b"defgh"[:4] + b"\0"], "overlap-mid"),
                             ((4, 1), [lit + b"h" * 4, lit + b"h\0\0\0"], "overlap-last")]:
        for d in datas:
            put(b"MIR" + G.ser_el(lit, ref) + T(d), "lenient-" + note, (False, "-"))
    full = bytes(big) + G.ser_el(bytes(128), None)
    for ref, d2, note in [((4, 1), b"qq\0\0\0", "stale-buf"), ((4, 0), b"q\0\0\0\0", "stale-ind2pos")]:
        put(full + G.ser_el(b"q", ref) + T(bytes(B) + d2), "lenient-" + note, (False, "-"))
    # blocks WITH back references (so curr_ind < pos) filled to bufLen - k, then a literal run of every length class:
    # the run fits iff its length <= k; a decoder that bounds literal runs by anything but the byte position
    # writes past data->buf here (buf is the last member of the heap object, so ASan sees it)
    seed_lits = bytes((i * 37 + 11) & 0xff for i in range(2047))
    ks = [1, 2, 5, 6, 7, 100, 127, 128, 129, 1000, 2046, 2047, 2048, 3000] + [1 + rng.below(2047) for _ in range(n_near)]
    for k in ks:
        target = B - k
        s = bytearray(b"MIR") + G.ser_el(seed_lits, None)
        data = bytearray(seed_lits)
        nsym = 2047
        while len(data) < target:
            ln = min(len(data), target - len(data))
            if ln >= 4:
                s += G.ser_el(b"", (ln, nsym))          # offset nsym = symbol 0 = position 0
                data += data[:ln]
                nsym += 1
            else:
                fill = bytes([0xee]) * (target - len(data))
                s += G.ser_el(fill, None)
                data += fill
                nsym += len(fill)
        for n in sorted({k, k + 1, k - 1, 2047, 7, 6, 1, k + 2047} - {0}):
            if n > 2047:
                continue
            run = bytes((j * 5 + 3) & 0xff for j in range(n))
            st = bytes(s) + G.ser_el(run, None)
            if n == k:
                full = bytes(data) + run
                put(st + T(full), "nearfull-fits-exactly", (True, hx(full)))
            elif n < k:
                full = bytes(data) + run
                put(st + T(full), "nearfull-fits", (True, hx(full)))
            else:
                put(st + T(bytes(data)), "nearfull-lits-past-end", (False, "-"))
                put(st + run[:1] * 0 + bytes(n) + T(bytes(data)), "nearfull-lits-past-end+more-input", (False, "-"))
    # random valid parses (any referenceable symbol, every uint form)
    for i in range(n_parses):
        els, data = G.random_parse(rng, 1 + rng.below(max_bytes))
        s = G.ser_parse(els, rng if i % 2 else None)
        put(s + T(data), "valid-parse" + ("-noncanon" if i % 2 else ""), (True, hx(data)))
    return out


def small_inputs(rng, n, maxlen):
    out = []
    for _ in range(n):
        k = rng.below(6)
        ln = rng.below(maxlen)
        if k == 0:
            d = bytes(rng.choice((97, 98)) for _ in range(ln))
        elif k == 1:
            pat = bytes(rng.below(256) for _ in range(1 + rng.below(9)))
            d = (pat * (ln // len(pat) + 1))[:ln]
        elif k == 2:
            d = bytes(rng.below(256) for _ in range(ln))
        elif k == 3:
            d = bytearray()
            while len(d) < ln:
                if d and rng.chance(1, 2):
                    a = rng.below(len(d))
                    d += d[a:a + 4 + rng.below(60)]
                else:
                    d += bytes(rng.below(4) + 97 for _ in range(1 + rng.below(12)))
            d = bytes(d[:ln])
        elif k == 4:
            d = bytes([rng.below(256)]) * ln
        else:
            d = bytes(rng.below(3) for _ in range(ln))
        out.append(d)
    return out


SUBST = {
    "quick": [lambda b, r: b ^ 1, lambda b, r: b ^ 0x80, lambda b, r: r.below(256)],
    "thorough": [lambda b, r: b ^ 1, lambda b, r: b ^ 0x80, lambda b, r: r.below(256), lambda b, r: (b + 1) & 255,
                 lambda b, r: 0, lambda b, r: 0xff, lambda b, r: b ^ 0x20, lambda b, r: (b - 1) & 255],
}


# ---------------------------------------------------------------------------------- main
def load_corpus_case(path):
    j = json.load(open(path))
    if "hex_parts" in j:
        j["hex"] = "".join(h * n for n, h in j["hex_parts"])
    return j


def main():
    ck = Check("C12")
    thorough = ck.tier == "thorough"
    if not ck.replay:
        ok = ck.proof_gate(["MirVerif.Props.C12"], support_modules=SUPPORT, bridge_modules=BRIDGE,
                           exes=["mirdrv_c12"], translators=["c12_consts.py"])
        if ok and thorough:
            ck.leanchecker(["MirVerif.Props.C12"])
    jobs = [("c12_reduce_asan", ["harness/c12_reduce.c"], FLAGS),
            ("c12_reduce_ndebug", ["harness/c12_reduce.c"], FLAGS + ["-DNDEBUG"])]
    jobs.append(("c12_mirread", ["harness/c12_mirread.c"], ["-O1", "-g", "-w"]))
    have_clang = vf.sh(["clang", "--version"])[0] == 0 if shutil.which("clang") else False
    if have_clang:
        jobs.append(("c12_reduce_msan", ["harness/c12_reduce.c"], ["-O1", "-g", "-fsanitize=memory", "-fno-omit-frame-pointer"], None, "clang"))
    exes = ck.cc_par(jobs)
    if have_clang and exes.get("c12_reduce_msan") is None:
        ck.assumptions.append("MSan flavour could not be built; uninitialised-read detection not active in this run")
        exes.pop("c12_reduce_msan", None)
    msan = exes.pop("c12_reduce_msan", None)
    mirread = exes.pop("c12_mirread", None)
    if mirread is None:
        ck.broken_ties.append({"kind": "harness-compile", "name": "c12_mirread", "log": getattr(ck, "last_cc_log", "")[-1500:]})
    for k, v in exes.items():
        if v is None:
            ck.broken_ties.append({"kind": "harness-compile", "name": k, "log": getattr(ck, "last_cc_log", "")[-1500:]})
    if None in exes.values() or not os.path.exists(DRV):
        if not os.path.exists(DRV):
            ck.broken_ties.append({"kind": "driver-missing", "name": "mirdrv_c12"})
        ck.finish()
    tie = Tie(ck, {"asan": exes["c12_reduce_asan"], "ndebug": exes["c12_reduce_ndebug"], "msan": msan, "mirread": mirread})
    if msan is None:
        ck.assumptions.append("clang/MSan not available: reads of never-written decoder memory are checked by the model only")
    rng = ck.rng

    # ---- replay of one saved case
    if ck.replay:
        j = json.load(open(ck.replay))
        inp = j["input"]
        arg = inp["arg"]
        if inp.get("arg_file"):
            arg = open(ck.replay + ".arg").read()
        c = {"op": inp["op"], "arg": arg, "kind": "replay:" + str(inp.get("kind"))}
        for k in ("orig", "enc"):
            if inp.get(k):
                c[k] = inp[k]
        if c["op"] in ("E",):
            cs = [c]
            encs = tie.encode_cases(cs)
            tie.settle_mismatches(cs)
            for a, e in encs.items():
                tie.decode_cases([{"op": "D", "arg": hx(e), "kind": "replay-roundtrip", "orig": a, "enc": hx(e)}])
        elif c["op"] == "R":
            t, _, nm = arg.partition(":")
            mirread_cases(tie, [int(x) for x in t.split(",")], nm or None)
        elif c["op"] in ("G", "X"):
            tie.big_cases([arg])
        else:
            tie.decode_cases([c])
        ck.cov["evaluations"] = tie.n_eval
        ck.cov["distribution"] = tie.dist
        ck.finish()

    # ---- corpus first
    t0 = time.time()
    ncorp = 0
    for p in sorted(glob.glob(os.path.join(VERIF, "corpus", "C12", "*.json"))):
        j = load_corpus_case(p)
        ncorp += 1
        if j["kind"] == "decode":
            c = {"op": "D", "arg": j["hex"], "kind": "corpus:" + j["name"], "expect": (bool(j["expect_ok"]), j.get("expect_hex", "-"))}
            before = ck.n_viol
            tie.decode_cases([c])
            r = run_lines([tie.exes["asan"]], ["D " + j["hex"]])[0]
            if j.get("known_signature") and isinstance(r, str) and r.split(" ")[1] == "1" and r.split(" ")[2] == j["orig"] and j["hex"] != j["enc"]:
                # pinned replay of a listed known finding: still reproduces
                tie.viol(dict(c, orig=j["orig"], enc=j["enc"]), j["note"], j["known_signature"], r[:300], "")
            if not j.get("known_signature") and ck.n_viol == before and isinstance(r, str) and (r.split(" ")[1] == "1") != bool(j["expect_ok"]):
                tie.viol(c, "corpus regression: stream %s must %s" % (j["name"], "be accepted" if j["expect_ok"] else "be rejected"),
                         "C12:corpus-" + j["name"], r[:300], "")
        elif j["kind"] == "mirread":
            mirread_cases(tie, [j["target"]], j.get("case"))
        elif j["kind"] == "encode":
            cs = [{"op": "E", "arg": j["hex"], "kind": "corpus:" + j["name"]}]
            encs = tie.encode_cases(cs)
            tie.settle_mismatches(cs)
            tie.decode_cases([{"op": "D", "arg": hx(e), "kind": "corpus-roundtrip", "orig": a, "enc": hx(e)} for a, e in encs.items()])
    ck.cov["corpus_replayed"] = ncorp
    ck.stage("corpus", n=ncorp, t_s=round(time.time() - t0, 1))

    # ---- exhaustive small alphabet: encoder identity + round trip (+ corruptions)
    t0 = time.time()
    N = 12 if thorough else 10
    strs = G.all_strings((97, 98), N)
    ecs = [{"op": "E", "arg": hx(s), "kind": "exhaustive-ab"} for s in strs]
    encs = tie.encode_cases(ecs)
    tie.settle_mismatches(ecs)
    ck.stage("exhaustive-encode", n=len(ecs), t_s=round(time.time() - t0, 1))
    t0 = time.time()
    dcs = []
    sub = SUBST["thorough" if thorough else "quick"]
    # all corruptions for every string in thorough; for a spread of them in quick
    pick = strs if thorough else [s for i, s in enumerate(strs) if len(s) <= 6 or i % 29 == ck.seed % 29]
    pickset = set(pick)
    for s in strs:
        e = encs.get(hx(s))
        if e is None:
            continue
        if s in pickset:
            dcs += corruptions(tie, rng, s, e, sub[:3] if thorough else sub)
        else:
            dcs.append({"op": "D", "arg": hx(e), "kind": "roundtrip", "orig": hx(s), "enc": hx(e)})
    tie.decode_cases(dcs)
    ck.stage("exhaustive-corruptions", n=len(dcs), strings=len(pick), t_s=round(time.time() - t0, 1))

    # ---- structured small/medium inputs: runs, periodic (long matches, escape codes), incompressible
    t0 = time.time()
    fixed = [b"a" * n for n in (1, 3, 4, 5, 7, 8, 33, 34, 35, 37, 38, 130, 131, 135, 300, 2046, 2047, 2048, 2051, 4094, 4095, 4100, 16390, 16500)]
    fixed += [(b"abcdefg" * 3000)[:n] for n in (7, 11, 14, 40, 41, 45, 141, 2047 + 7, 16384 + 20)]
    fixed += [bytes((i * 131 + 7) & 0xff for i in range(n)) for n in (5, 6, 7, 8, 2046, 2047, 2048, 4095, 6000)]   # no 4-byte repeats for a while
    fixed += [bytes(range(256)) * 9 + b"tail", b"abcd" * 2 + bytes(range(200)) + b"abcd" * 3]
    # uint boundaries: reference lengths l-3 and symbol offsets around 31, 2^7, 2^14; literal runs around 7, 2^7, 2047
    def rb(n):
        return bytes(rng.below(256) for _ in range(n))
    for L in (33, 34, 35, 36, 129, 130, 131, 132, 133, 16385, 16386, 16387, 16388):
        P = rb(L)
        fixed.append(P + b"#" + P + b"$")
    for off in (126, 127, 128, 129, 130, 16382, 16383, 16384, 16385, 16386):
        P = rb(40)
        fixed.append(P + rb(off - 40) + P + b"!")
    for L in (126, 127, 128, 129, 130):
        fixed.append(rb(L) + b"abcdabcdabcd" + rb(L))
    rnd = small_inputs(rng, 600 if thorough else 120, 700 if thorough else 300)
    ecs = [{"op": "E", "arg": hx(s), "kind": "fixed"} for s in fixed] + [{"op": "E", "arg": hx(s), "kind": "random-small"} for s in rnd]
    encs = tie.encode_cases(ecs)
    tie.settle_mismatches(ecs)
    dcs = []
    srcs = fixed + rnd
    for i, s in enumerate(srcs):
        e = encs.get(hx(s))
        if e is None:
            continue
        if len(e) <= (120 if thorough else 60) and (thorough or i % 3 == 0):
            dcs += corruptions(tie, rng, s, e, sub)
        else:
            dcs.append({"op": "D", "arg": hx(e), "kind": "roundtrip", "orig": hx(s), "enc": hx(e)})
            # a few random corruptions of longer encodings
            for _ in range(12 if thorough else 4):
                k = rng.below(len(e))
                v = rng.below(256)
                if v != e[k]:
                    dcs.append({"op": "D", "arg": hx(e[:k] + bytes([v]) + e[k + 1:]), "kind": "substitution", "orig": hx(s), "enc": hx(e)})
            dcs.append({"op": "D", "arg": hx(e[:rng.below(len(e))]), "kind": "truncation", "orig": hx(s), "enc": hx(e)})
        if len(e) <= 400 and (thorough or i % 4 == 0):
            dcs += structured(tie, rng, s, e)
    tie.decode_cases(dcs)
    ck.stage("structured-inputs", encodes=len(ecs), decodes=len(dcs), t_s=round(time.time() - t0, 1))

    # ---- crafted streams (python serialiser): boundary conditions of every decoder check
    t0 = time.time()
    dcs = crafted(tie, rng, 400 if thorough else 80, 200, 40 if thorough else 3)
    tie.decode_cases(dcs)
    ck.stage("crafted", n=len(dcs), t_s=round(time.time() - t0, 1))

    # ---- large inputs: buffer boundary, multi-buffer, free-list exhaustion (> 65536 symbols per buffer)
    t0 = time.time()
    specs = [f"rep:{B}:6162636465666768696a", f"rep:{B + 1}:61", f"lcg:{B}:{rng.below(1 << 30)}:256",
             f"mix:{2 * B + 7}:{rng.below(1 << 30)}:256:300", f"lcg:{B - 1}:{rng.below(1 << 30)}:4"]
    # block boundaries that fall inside a pending literal run of p bytes (p = curr_symb_len when a NON-final block ends)
    def pend(p, extra=""):
        return f"rep:{B - p}:6162636465666768696a6b+lcg:{p}:{rng.below(1 << 30)}:256+rep:{40 + rng.below(500)}:7a79" + extra
    pends = [1, 6, 7, 128, 2047, 2048] if not thorough else \
        [1, 2, 5, 6, 7, 8, 126, 127, 128, 129, 1000, 2046, 2047, 2048, 2049, 3000, 4094, 4095, 5000] + [1 + rng.below(2047) for _ in range(10)]
    specs = [pend(p) for p in pends[:2]] + specs + [pend(p) for p in pends[2:]]
    specs.append(f"lcg:{B + 3}:{rng.below(1 << 30)}:256")          # whole first block literal, pending 128*2047 % ... at its end
    specs.append(f"rep:{B - 9}:6162636465+lcg:9:{rng.below(1 << 30)}:256+rep:{B - 300}:31323334+lcg:300:{rng.below(1 << 30)}:256+rep:77:41")   # two inner boundaries
    if thorough:
        specs += [f"rep:{B - 4}:00", f"rep:{B - 1}:6162", f"rep:{B + 4}:616263", f"rep:{2 * B + 7}:6162636465666768696a6b",
                  f"lcg:{B + 1}:{rng.below(1 << 30)}:256", f"lcg:{B + 4}:{rng.below(1 << 30)}:3", f"lcg:{B - 4}:{rng.below(1 << 30)}:16",
                  f"mix:{B}:{rng.below(1 << 30)}:256:5", f"mix:{B + 1}:{rng.below(1 << 30)}:4:40", f"mix:{2 * B + 7}:{rng.below(1 << 30)}:2:3000",
                  f"mix:{3 * B}:{rng.below(1 << 30)}:256:70000", f"lcg:{2 * B + 7}:{rng.below(1 << 30)}:256"]
        for _ in range(12):
            n = rng.choice([rng.below(70000), B - rng.below(6), B + rng.below(6), rng.below(3 * B)])
            specs.append(rng.choice([f"lcg:{n}:{rng.below(1 << 30)}:{rng.choice([2, 3, 4, 16, 256])}",
                                     f"mix:{n}:{rng.below(1 << 30)}:{rng.choice([2, 4, 256])}:{rng.choice([1, 4, 5, 33, 300, 3000])}"]))
    tie.big_cases(specs)
    ck.stage("large", n=len(specs), t_s=round(time.time() - t0, 1))

    # ---- the layer under mir.c's reader: block-boundary stream lengths with damaged trailer / body
    t0 = time.time()
    targets = [B, 2 * B, B - 1, B + 1, 4000]
    if thorough:
        targets += [3 * B, B - 2047, B + 2047, 2 * B - 1, 2 * B + 1, 20000 + rng.below(200000)]
    mirread_cases(tie, targets)
    ck.stage("mirread", targets=targets, t_s=round(time.time() - t0, 1))

    # ---- residual (b): altered streams that are a different valid encoding of the same data
    tie.dist["alt_valid_encoding_accepted"] = tie.alt_valid
    if tie.alt_valid and tie.alt_valid_sample:
        s = tie.alt_valid_sample
        n1 = tie.alt_valid.get("substitution", 0)
        tie.viol({"op": "D", "arg": s["altered"], "kind": s["kind"], "orig": s["orig"], "enc": s["encoding"]},
                 f"{sum(tie.alt_valid.values())} altered encoder outputs ({n1} of them single-byte substitutions) were accepted because "
                 "they are a different valid encoding of the SAME data (decoded output identical to the original); the statement "
                 "read literally asks for rejection of every altered stream", "C12:alt-encoding-accepted",
                 "D 1 " + s["orig"], "D 1 " + s["orig"], extra={"counts_by_kind": tie.alt_valid})

    ck.cov["evaluations"] = tie.n_eval
    ck.cov["distinct_nontrivial"] = len(tie.nontrivial)
    ck.cov["rule"] = ("evaluation = one protocol line run through both harness flavours and the model; non-trivial = distinct "
                      "encode input whose real encoding contains >= 1 back-reference, or distinct decode stream in which the "
                      "python reference parser reaches a back-reference (accepted or rejected at its checks), or a large generated input")
    ck.cov["distribution"] = tie.dist
    ck.cov["exhaustive"] = True
    ck.cov["exhaustive_scope"] = {"encoder identity + round trip: all strings over {a,b} up to length": N, "count": len(strs),
                                  "every truncation, 1-byte extension and single-byte substitution (%d values per position) of the encodings of" % (3 if thorough else len(sub)): len(pick)}
    for c in [{"op": "E", "arg": hx(strs[-3])}, {"op": "D", "arg": hx(b"MIR" + G.ser_el(b"abcdefgh", (8, 8)) + G.trailer(b"abcdefgh" * 2))}, {"op": "G", "arg": specs[2]}]:
        ck.sample(c)
    ck.assumptions += [
        "theorems are about Model/Reduce.lean; the compiled code is tied to it by execution only (byte-identical encoder output, equal (ok,bytes) of the decoder on the generated streams, sanitizer-clean), not by proof",
        "hash collisions: accepted_hash shows an altered stream is accepted only if the 64-bit mir_hash_strict chain of the decoded bytes equals the stored trailer; collision resistance is not claimed",
        "UBSan's alignment check is disabled for the harness: mir-hash.h:39 deliberately loads an unaligned uint32 on x86-64 (MIR_HASH_UNALIGNED_ACCESS)",
        "free list of the encoder's table is modelled by an allocation counter (elements are never returned to it)",
        "x86-64 little-endian build only (the strict hash is meant to be target independent; other targets not run)",
    ]
    ck.finish()


main()
