"""C09 — c2mir's preprocessor expands macros and evaluates #if as C11 requires.

Proof gate : MirVerif.Props.C09 (evaluator theorem, expander facts, stringify round trip).
Tie        : three-way differential on generated inputs
               spec  = mirdrv_c09 (Lean: C11 expander `expandList`, `c11Eval`)
               gcc   = `gcc -E -P -std=c11` re-tokenised (independent reference for the spec)
               c2m   = harness/c09_pp.c driving /repo's c2mir.c in-process (token callback), cross-checked
                       against the text printed by the public entry (`c2m -E`) and by the c2m binary
             spec != gcc           -> model bug   (broken tie, no alarm on the code)
             spec == gcc != c2m    -> violation (shrunk, replay file written)
           The 13 defects found with this check are repaired in /repo (known_findings.d/C09.json, all
           `fixed`); their witnesses in corpus/C09 are must-pass regressions.
"""
import json, os, re, shutil, subprocess, sys, time
from concurrent.futures import ThreadPoolExecutor
from vf import Check, VERIF, REPO, CACHE, sh, file_hash, repo_sources
import c09_gen as G

ck = Check("C09")
QUICK = ck.tier == "quick"
T0 = time.time()

SUPPORT = ["MirVerif.Model.PPExpr", "MirVerif.Model.PPMacro", "MirVerif.Model.PPMacroUnit",
           "MirVerif.Lemmas.PPExpr", "MirVerif.Lemmas.PPMacro", "MirVerif.Lemmas.PPMacroFuel",
           "MirVerif.Lemmas.PPNumber"]
proof_ok = ck.proof_gate(["MirVerif.Props.C09"], support_modules=SUPPORT, exes=["mirdrv_c09"])

# ------------------------------------------------------------------ builds from the current tree
HARNESS_FLAGS = ["-O1", "-DNDEBUG", "-w"]
C2M_SRCS = [os.path.join(REPO, f) for f in ("mir.c", "mir-gen.c", "c2mir/c2mir.c", "c2mir/c2mir-driver.c")]
builds = ck.cc_par([
    ("c09_pp", ["harness/c09_pp.c", os.path.join(REPO, "mir.c")], HARNESS_FLAGS),
    ("c09_c2m", C2M_SRCS, ["-O1", "-DNDEBUG", "-w"]),
])
HARNESS, C2M = builds["c09_pp"], builds["c09_c2m"]
DRV = os.path.join(VERIF, "lean", ".lake", "build", "bin", "mirdrv_c09")
for nm, exe in builds.items():
    if exe is None:
        ck.broken_ties.append({"kind": "harness-compile", "name": nm, "log": getattr(ck, "last_cc_log", "")[-1500:]})
if HARNESS is None:
    ck.finish()

# ------------------------------------------------------------------ runners
def run_gcc(src):
    rc, out, serr = run_limited(["gcc", "-E", "-P", "-std=c11", "-x", "c", "-"], src, timeout=60)
    err = rc != 0 or " error: " in serr
    return {"err": err, "t": None if err else G.pp_tokenize(out), "stderr": serr[-300:]}


def run_gcc_many(srcs):
    with ThreadPoolExecutor(16) as ex:
        return list(ex.map(run_gcc, srcs))


def parse_blocks(out):
    res, cur = {}, None
    for l in out.split("\n"):
        if l.startswith("CASE "):
            cur = int(l[5:]); res[cur] = {"t": [], "err": None, "x": None, "txt": None, "done": False}
        elif cur is None:
            continue
        elif l.startswith("T "):
            try:
                res[cur]["t"].append(bytes.fromhex(l[2:]).decode("utf-8", "replace"))
            except ValueError:       # output cut in the middle of a line (child killed): block stays "not done"
                break
        elif l.startswith("ERR "):
            res[cur]["err"] = int(l[4:])
        elif l.startswith("XCHK "):
            res[cur]["x"] = l[5:]
        elif l.startswith("TXT "):
            try:
                res[cur]["txt"] = bytes.fromhex(l[4:]).decode("utf-8", "replace")
            except ValueError:
                break
        elif l == "END":
            res[cur]["done"] = True
    return res


import threading
_tmpn = [0]
_tmp_lock = threading.Lock()
HARNESS_TIMEOUT = 20
TMPD = os.path.join(CACHE, "c09-tmp")
os.makedirs(TMPD, exist_ok=True)


def _limits():
    import resource
    resource.setrlimit(resource.RLIMIT_AS, (6 << 30, 6 << 30))
    resource.setrlimit(resource.RLIMIT_FSIZE, (256 << 20, 256 << 20))
    resource.setrlimit(resource.RLIMIT_CPU, (600, 600))


# address space 6 GB, files 256 MB, cpu 600 s -- set by the shell that execs the child (no preexec_fn: python
# forks much faster without it when many threads start children)
LIMIT_WRAP = ["/bin/sh", "-c", "ulimit -s 1000000; ulimit -v 6291456; ulimit -f 524288; ulimit -t 600; exec \"$@\"",
              "sh"]


def run_limited(cmd, inp=None, timeout=120):
    """run a child with address-space / file-size / cpu limits; stdout and stderr go to size-limited files
    (never to unbounded pipes).  -> (rc, stdout, stderr); rc = -999 on timeout"""
    with _tmp_lock:
        _tmpn[0] += 1
        base = os.path.join(TMPD, f"io{os.getpid()}_{_tmpn[0]}")
    fin = None
    try:
        if inp is not None:
            with open(base + ".in", "w") as f:
                f.write(inp)
            fin = open(base + ".in")
        with open(base + ".out", "wb") as fo, open(base + ".err", "wb") as fe:
            try:
                p = subprocess.run(LIMIT_WRAP + list(cmd), stdin=fin if fin else subprocess.DEVNULL, stdout=fo,
                                   stderr=fe, timeout=timeout)
                rc = p.returncode
            except subprocess.TimeoutExpired:
                rc = -999
        out = open(base + ".out", "rb").read(300 << 20).decode("utf-8", "replace")
        err = open(base + ".err", "rb").read(1 << 20).decode("utf-8", "replace")
        return rc, out, err
    finally:
        if fin:
            fin.close()
        for ext in (".in", ".out", ".err"):
            try:
                os.remove(base + ext)
            except OSError:
                pass


def run_harness(exe, srcs):
    """-> list of {"t","err","x"} ; a crash of the harness on a case gives err = "crash" """
    d = os.path.join(CACHE, "c09-tmp")
    os.makedirs(d, exist_ok=True)
    with _tmp_lock:
        _tmpn[0] += 1
        path = os.path.join(d, f"batch{os.getpid()}_{_tmpn[0]}.txt")

    def go(idx):
        with open(path, "w") as f:
            for i in idx:
                f.write(f"@@CASE {i}\n{srcs[i]}")
                if not srcs[i].endswith("\n"):
                    f.write("\n")
        rc, so, _ = run_limited([exe, path], None, timeout=HARNESS_TIMEOUT)
        return parse_blocks(so), rc

    out = [None] * len(srcs)
    todo = list(range(len(srcs)))
    ncrash = 0
    while todo:
        if ncrash >= 3:
            # the implementation crashes / hangs again and again: the first cases are reported, the rest of
            # the batch is not run
            for i in todo:
                out[i] = {"t": [], "err": "not-run", "x": None}
            stats["not_run_after_crashes"] = stats.get("not_run_after_crashes", 0) + len(todo)
            break
        res, rc = go(todo)
        nxt = []
        bad = None
        for i in todo:
            r = res.get(i)
            if r is not None and r["done"]:
                out[i] = r
            elif bad is None:
                bad = i
                ncrash += 1
                out[i] = {"t": r["t"] if r else [], "err": "crash", "x": None, "rc": rc}
            else:
                nxt.append(i)
        todo = nxt
    try:
        os.remove(path)
    except OSError:
        pass
    return out


def run_spec(cases, mode=("pp", "c11")):
    """C11 specification (Lean driver) on a list of cases.  A case on which the driver dies (stack / memory
    exhaustion on an exponentially growing expansion) is marked err="spec-crash" and the rest is re-run."""
    out = [None] * len(cases)
    todo = list(range(len(cases)))
    ncrash = 0
    while todo:
        inp = "".join(G.proto_case(i, cases[i]) for i in todo)
        rc, so, err = run_limited([DRV] + list(mode), inp, timeout=600)
        if "BADLINE" in so:
            ck.broken_ties.append({"kind": "driver-protocol", "name": "mirdrv_c09 pp", "first_diff": so[:300]})
        res = parse_blocks(so)
        nxt, bad = [], None
        for i in todo:
            r = res.get(i)
            if r is not None and r["done"]:
                out[i] = r
            elif bad is None:
                bad = i
                ncrash += 1
                out[i] = {"t": [], "err": "spec-crash"}
                stats["spec_crash"] = stats.get("spec_crash", 0) + 1
            else:
                nxt.append(i)
        if ncrash > 20:
            for i in nxt:
                out[i] = {"t": [], "err": "spec-crash"}
            ck.broken_ties.append({"kind": "driver-crash", "name": "mirdrv_c09 dies repeatedly", "first_diff": err[-300:]})
            break
        todo = nxt
    return out


def run_c2m_binary(src):
    if C2M is None:
        return None
    d = os.path.join(CACHE, "c09-tmp")
    os.makedirs(d, exist_ok=True)
    with _tmp_lock:
        _tmpn[0] += 1
        path = os.path.join(d, f"case{os.getpid()}_{_tmpn[0]}.c")
    with open(path, "w") as f:
        f.write(src)
    try:
        rc, pout, perr = run_limited([C2M, "-E", path], None, timeout=60)
    finally:
        os.remove(path)
    # keep the part that belongs to the case file, drop `#line` lines and white space
    keep, on = [], False
    for l in pout.split("\n"):
        ls = l.strip()
        if ls.startswith("#line "):
            m = re.search(r'"([^"]*)"', ls)
            if m:
                on = m.group(1) == path
            continue
        if on:
            keep.append(l)
    return {"rc": rc, "squeezed": re.sub(r"\s+", "", "".join(keep)), "stderr": perr[-300:]}


# ------------------------------------------------------------------ judging token cases
stats = {"cases": 0, "agree": 0, "gcc_rejects": 0, "spec_rejects_gcc_accepts": 0, "spec_ne_gcc": 0,
         "c2m_ne": 0, "xchk_bad": 0, "too_big": 0}
fam_stats = {}
seen_canon = set()
MAX_TOKS = 4000


def judge_cases(family, cases, nontrivial):
    """three-way comparison of a list of cases; returns list of failing case indices with details"""
    srcs = [G.render_case(c) for c in cases]
    g = run_gcc_many(srcs)
    # exponentially growing expansions are dropped before the (stack-hungry) spec and the harness see them
    sel = [i for i in range(len(cases)) if not g[i]["err"] and len(g[i]["t"]) <= MAX_TOKS]
    s = [{"t": [], "err": "skipped"}] * len(cases)
    c = [{"t": [], "err": "not-run", "x": None}] * len(cases)
    if sel:
        ss = run_spec([cases[i] for i in sel])
        cc = run_harness(HARNESS, [srcs[i] for i in sel])
        s, c = list(s), list(c)
        for k, i in enumerate(sel):
            s[i], c[i] = ss[k], cc[k]
    fails = []
    fs = fam_stats.setdefault(family, {"cases": 0, "agree": 0, "discarded": 0, "c2m_ne": 0, "nontrivial": 0})
    for i in range(len(cases)):
        stats["cases"] += 1
        fs["cases"] += 1
        gi, si, ci = g[i], s[i], c[i]
        if gi["err"]:
            stats["gcc_rejects"] += 1
            fs["discarded"] += 1
            if not si["err"]:
                record_model_bug(family, cases[i], srcs[i], "gcc rejects, spec accepts", gi["stderr"], si["t"])
            continue
        if si["err"]:
            stats["spec_rejects_gcc_accepts"] += 1      # gcc is lenient (variadic arity, `, ## __VA_ARGS__`)
            fs["discarded"] += 1
            continue
        if len(gi["t"]) > MAX_TOKS:
            stats["too_big"] += 1
            fs["discarded"] += 1
            continue
        if not G.toks_match(si["t"], gi["t"]):
            if G.glued_match(si["t"], gi["t"]):
                stats["gcc_text_glued"] = stats.get("gcc_text_glued", 0) + 1   # see c09_gen.glued_match
            else:
                stats["spec_ne_gcc"] += 1
                record_model_bug(family, cases[i], srcs[i], "spec != gcc", gi["t"], si["t"])
                continue
        if ci["x"] == "bad":
            stats["xchk_bad"] += 1
            ck.broken_ties.append({"kind": "correspondence", "name": "token callback vs `-E` text of c2mir_compile",
                                   "first_diff": srcs[i][:400]})
        canon = srcs[i]
        if canon not in seen_canon:
            seen_canon.add(canon)
            if nontrivial(cases[i], gi["t"]):
                fs["nontrivial"] += 1
        if ci["err"] == "not-run":
            continue
        if ci["err"] or not G.toks_match(si["t"], ci["t"]):
            stats["c2m_ne"] += 1
            fs["c2m_ne"] += 1
            fails.append({"family": family, "case": cases[i], "src": srcs[i], "spec": si["t"], "gcc": gi["t"],
                          "c2m": ci["t"], "c2m_err": ci["err"]})
        elif ci.get("txt") is not None and G.pp_tokenize(ci["txt"]) != list(ci["t"]):
            # the token stream is right but the text `c2m -E` prints does not lex back to it
            stats["text_relex_ne"] = stats.get("text_relex_ne", 0) + 1
            fs["c2m_ne"] += 1
            fails.append({"family": family, "case": cases[i], "src": srcs[i], "spec": si["t"], "gcc": gi["t"],
                          "c2m": ci["t"], "c2m_err": ci["err"], "text": ci["txt"], "kind": "text"})
        else:
            stats["agree"] += 1
            fs["agree"] += 1
    return fails


_model_bugs = []


def record_model_bug(family, case, src, what, gcc_t, spec_t):
    if len(_model_bugs) < 3:
        _model_bugs.append(1)
        ck.broken_ties.append({"kind": "correspondence", "name": f"spec-vs-gcc ({family}): {what}",
                               "first_diff": {"source": src[:1500], "gcc": gcc_t if isinstance(gcc_t, str) else " ".join(gcc_t)[:800],
                                              "spec": " ".join(spec_t)[:800] if spec_t else None}})


def fails_now(case, exe=None):
    """does the case still show  spec == gcc != c2m ?  (used by shrinking / classification)"""
    src = G.render_case(case)
    gi = run_gcc(src)
    if gi["err"]:
        return False
    si = run_spec([case])[0]
    if si["err"] or not (G.toks_match(si["t"], gi["t"]) or G.glued_match(si["t"], gi["t"])):
        return False
    ci = run_harness(exe or HARNESS, [src])[0]
    if bool(ci["err"]) or not G.toks_match(si["t"], ci["t"]):
        return "tokens"
    if ci.get("txt") is not None and G.pp_tokenize(ci["txt"]) != list(ci["t"]):
        return "text"
    return False


def shrink(case, budget=150, want="tokens"):
    """greedy: drop lines, then tokens of text lines and replacement lists; the kind of failure is kept"""
    cur = [dict(l) for l in case]
    n = [0]

    def ok(c):
        n[0] += 1
        if n[0] > budget:
            return False
        try:
            return fails_now(c) == want
        except Exception:
            return False

    def section_end(c, i):
        """index after the group that starts at directive line i (whole section for #if*, one group for
        #elif/#else)"""
        depth = 0
        opener = c[i]["k"] in ("if", "ifdef", "ifndef")
        for j in range(i + 1, len(c)):
            k = c[j]["k"]
            if k in ("if", "ifdef", "ifndef"):
                depth += 1
            elif k == "endif":
                if depth == 0:
                    return j + 1 if opener else j
                depth -= 1
            elif k in ("elif", "else") and depth == 0 and not opener:
                return j
        return None

    changed = True
    while changed and n[0] <= budget:
        changed = False
        i = 0
        while i < len(cur) and n[0] <= budget:
            if cur[i]["k"] in ("if", "elif", "else", "ifdef", "ifndef"):
                e = section_end(cur, i)
                cand = cur[:i] + cur[e:] if e else None
                if cand and ok(cand):
                    cur = cand; changed = True
                else:
                    i += 1
                continue
            if cur[i]["k"] == "endif":
                i += 1
                continue
            cand = cur[:i] + cur[i + 1:]
            if cand and ok(cand):
                cur = cand; changed = True
            else:
                i += 1
        for li in range(len(cur)):
            key = "toks" if cur[li]["k"] == "text" else ("repl" if cur[li]["k"] == "define" else None)
            if not key:
                continue
            j = 0
            while j < len(cur[li][key]) and n[0] <= budget:
                nl = dict(cur[li]); nl[key] = G.fix_ws(cur[li][key][:j] + cur[li][key][j + 1:])
                cand = cur[:li] + [nl] + cur[li + 1:]
                if ok(cand):
                    cur = cand; changed = True
                else:
                    j += 1
    return cur


n_reported = {"token": 0, "expr": 0}


_U8_ID = re.compile(r"^u8[A-Za-z0-9_]*$")


def rename_u8(case):
    """the same case with every identifier u8... renamed to v8... (causal test for C09:lexer-u8-identifier)"""
    def rn(t):
        return ("v" + t[0][1:], t[1]) if _U8_ID.match(t[0]) else t
    out = []
    for l in case:
        l = dict(l)
        for k in ("toks", "repl"):
            if k in l:
                l[k] = [rn(tuple(t)) for t in l[k]]
        if l.get("name") and _U8_ID.match(l["name"]):
            l["name"] = "v" + l["name"][1:]
        if l.get("params"):
            l["params"] = ["v" + q[1:] if _U8_ID.match(q) else q for q in l["params"]]
        out.append(l)
    return out


def batch_fail_kinds(cases):
    """fails_now for many cases at once"""
    srcs = [G.render_case(c) for c in cases]
    g = run_gcc_many(srcs)
    sel = [i for i in range(len(cases)) if not g[i]["err"]]
    out = [False] * len(cases)
    if not sel:
        return out
    ss = run_spec([cases[i] for i in sel])
    cc = run_harness(HARNESS, [srcs[i] for i in sel])
    for k, i in enumerate(sel):
        si, ci = ss[k], cc[k]
        if si["err"] or not (G.toks_match(si["t"], g[i]["t"]) or G.glued_match(si["t"], g[i]["t"])):
            continue
        if ci["err"] or not G.toks_match(si["t"], ci["t"]):
            out[i] = "tokens"
        elif ci.get("txt") is not None and G.pp_tokenize(ci["txt"]) != list(ci["t"]):
            out[i] = "text"
    return out


def known_signatures(fails):
    """listed findings: (1) the token stream is right and only the printed text glues tokens;
    (2) the case passes once identifiers beginning with u8 are renamed (causal test, one batch)"""
    sigs = [("C09:E-text-glued-tokens" if f.get("kind") == "text" else None) for f in fails]
    for i, f in enumerate(fails):
        # ## with an empty operand ate a neighbouring space: the only difference is white space inside strings
        if (sigs[i] is None and "##" in f["src"] and not f["c2m_err"] and len(f["spec"]) == len(f["c2m"])
                and all(a == b or (a[:1] == '"' and b[:1] == '"' and a != b
                                   and re.sub(r"[ \x01]", "", a) == re.sub(r" ", "", b))
                        for a, b in zip(f["spec"], f["c2m"]))):
            sigs[i] = "C09:paste-empty-operand-eats-space"
    idx, ren = [], []
    for i, f in enumerate(fails):
        if sigs[i] is None and "u8" in f["src"]:
            rc = rename_u8(f["case"])
            if G.render_case(rc) != f["src"]:
                idx.append(i); ren.append(rc)
    for i, kind in zip(idx, batch_fail_kinds(ren) if ren else []):
        if kind != "tokens":
            sigs[i] = "C09:lexer-u8-identifier"
    return sigs


_sig_seen = {}


def report_token_fails(fails):
    for f, sg in zip(fails, known_signatures(fails) if fails else []):
        if sg is not None and not os.environ.get("C09_NO_KNOWN"):   # (debug aid: report listed findings in full)
            _sig_seen[sg] = _sig_seen.get(sg, 0) + 1
            if _sig_seen[sg] > 1:
                continue
            ci = run_harness(HARNESS, [f["src"]])[0]
            ck.violation({"stage": "tie", "theorem_or_correspondence": "c2m token sequence / re-lexed -E text == C11 spec == gcc",
                          "input": {"kind": "case", "family": f["family"], "case": f["case"], "source": f["src"]},
                          "model_output": f["spec"], "gcc_output": f["gcc"], "impl_output": ci["t"],
                          "impl_text": ci.get("txt"), "impl_errors": ci["err"],
                          "how_to_rerun": "cd /verif && ./check C09 --replay <this file>"},
                         what=f"c2m -E differs from C11/gcc ({sg})", signature=sg)
            continue
        n_reported["token"] += 1
        if n_reported["token"] > 4:
            continue
        kind = f.get("kind", "tokens")
        small = shrink(f["case"], want=kind)
        src = G.render_case(small)
        gi, si = run_gcc(src), run_spec([small])[0]
        ci = run_harness(HARNESS, [src])[0]
        ck.violation({"stage": "tie", "theorem_or_correspondence": "c2m token sequence / re-lexed -E text == C11 spec == gcc",
                      "input": {"kind": "case", "family": f["family"], "case": small, "source": src},
                      "model_output": si["t"], "gcc_output": gi["t"], "impl_output": ci["t"],
                      "impl_text": ci.get("txt"), "impl_errors": ci["err"],
                      "spec_verdict": "C11 token sequence (spec, confirmed by gcc) differs from c2m's"
                                      + (" printed text when lexed again" if kind == "text" else ""),
                      "how_to_rerun": "cd /verif && ./check C09 --replay <this file>"},
                     what="c2m's preprocessor output differs from the C11 token sequence", signature=None)


# ------------------------------------------------------------------ #if expression grid (family D)
ifstats = {"exprs": 0, "defined_value": 0, "undefined_skipped": 0, "divzero": 0, "parse_reject": 0,
           "gcc_ne_spec": 0, "c2m_ne_c11": 0, "model_ne_c2m": 0}


def expr_source(toks_list, base=0):
    lines = []
    for j, toks in enumerate(toks_list):
        lines.append("#if " + " ".join(toks))
        lines.append(f"T{base + j}")
        lines.append("#else")
        lines.append(f"F{base + j}")
        lines.append("#endif")
    return "\n".join(lines) + "\n"


def drv_expr(toks_list, mode=("expr",)):
    inp = "".join(" ".join("w" + G.hx(t) for t in toks) + "\n" for toks in toks_list)
    rc, out, err = run_limited([DRV] + list(mode), inp, timeout=600)
    return out.strip("\n").split("\n") if toks_list else []


def truth_of(res):
    if res.startswith("v"):
        return int(res[2:], 16) != 0
    return None


def marks(tokens):
    return {int(t[1:]): t[0] == "T" for t in tokens if re.fullmatch(r"[TF]\d+", t)}


def judge_exprs(toks_list, origin):
    """toks_list: list of token-spelling lists (plain #if expressions without macros)"""
    rows = drv_expr(toks_list)
    valid, dz = [], []
    info = {}
    for j, (toks, row) in enumerate(zip(toks_list, rows)):
        ifstats["exprs"] += 1
        parts = row.split()
        if parts[0] == "parseerr" or len(parts) < 3:
            ifstats["parse_reject"] += 1
            continue
        c11, c2m_model, cls = parts
        info[j] = (c11, c2m_model, cls)
        if c11 == "undef":
            ifstats["undefined_skipped"] += 1
        elif c11 == "divzero":
            ifstats["divzero"] += 1
            dz.append(j)
        else:
            ifstats["defined_value"] += 1
            valid.append(j)
    fails = []
    # batches of expressions with a C11 value: no diagnostics expected from anybody
    B = 60
    batches = [valid[k:k + B] for k in range(0, len(valid), B)]
    srcs = [expr_source([toks_list[j] for j in b]) for b in batches]
    gs = run_gcc_many(srcs)
    cs = run_harness(HARNESS, srcs)
    for b, src, gi, ci in zip(batches, srcs, gs, cs):
        if gi["err"]:
            # locate the offending expression(s) one by one
            for k, j in enumerate(b):
                g1 = run_gcc(expr_source([toks_list[j]]))
                if g1["err"]:
                    ifstats["gcc_ne_spec"] += 1
                    record_model_bug("if-grid", None, "#if " + " ".join(toks_list[j]),
                                     "gcc rejects an expression the spec gives a value", g1["stderr"], [info[j][0]])
            continue
        gm = marks(gi["t"])
        cm = marks(ci["t"]) if ci["err"] != "crash" else {}
        for k, j in enumerate(b):
            want = truth_of(info[j][0])
            if gm.get(k) != want and info[j][2] == "z":
                # zero divisor in an unevaluated operand: gcc's cpp types that quotient by its left operand only
                ifstats["gcc_skipped_zero_divisor_in_unevaluated_operand"] = \
                    ifstats.get("gcc_skipped_zero_divisor_in_unevaluated_operand", 0) + 1
            elif gm.get(k) != want:
                ifstats["gcc_ne_spec"] += 1
                record_model_bug("if-grid", None, "#if " + " ".join(toks_list[j]), "c11Eval != gcc",
                                 str(gm.get(k)), [info[j][0]])
                continue
            got = cm.get(k)
            if ci["err"] and ci["err"] != "crash" and got is not None:
                # some expression of the batch was diagnosed by c2m: find out which
                c1 = run_harness(HARNESS, [expr_source([toks_list[j]])])[0]
                got = None if c1["err"] else marks(c1["t"]).get(0)
            if ci["err"] == "crash":
                c1 = run_harness(HARNESS, [expr_source([toks_list[j]])])[0]
                got = "crash" if c1["err"] == "crash" else (None if c1["err"] else marks(c1["t"]).get(0))
            model = truth_of(info[j][1])
            if info[j][1] == "undef":
                # the modelled C code itself has undefined behaviour here (e.g. a shift count >= 64 reached
                # only because of a mis-typed operand): nothing to compare the model with
                ifstats["model_undef"] = ifstats.get("model_undef", 0) + 1
            elif got != model:
                ifstats["model_ne_c2m"] += 1
                fails.append({"kind": "model", "toks": toks_list[j], "c11": info[j][0], "model": info[j][1],
                              "c2m": got, "origin": origin})
            if got != want:
                ifstats["c2m_ne_c11"] += 1
                fails.append({"kind": "violation", "toks": toks_list[j], "c11": info[j][0], "model": info[j][1],
                              "cls": info[j][2], "c2m": got, "origin": origin, "model_predicts": got == model})
    # division by zero in an evaluated operand: both must diagnose
    for j in dz[: (20 if QUICK else 200)]:
        src = expr_source([toks_list[j]])
        g1 = run_gcc(src)
        c1 = run_harness(HARNESS, [src])[0]
        if not g1["err"]:
            ifstats["gcc_ne_spec"] += 1
            record_model_bug("if-grid", None, src, "spec: division by zero, gcc accepts", "", [])
        elif not c1["err"]:
            fails.append({"kind": "violation", "toks": toks_list[j], "c11": "divzero", "model": info[j][1],
                          "cls": info[j][2], "c2m": "no diagnostic", "origin": origin,
                          "model_predicts": info[j][1] != "divzero"})
    return fails


def shrink_expr(e, still_fails):
    """replace the tree by a failing subtree / simplify operands while the failure persists"""
    changed = True
    while changed:
        changed = False
        subs = []
        if e[0] == "un":
            subs = [e[2]]
        elif e[0] == "bin":
            subs = [e[2], e[3]]
        elif e[0] == "cond":
            subs = [e[1], e[2], e[3]]
        for sub in subs:
            if still_fails(sub):
                e = sub; changed = True
                break
    return e


def report_expr_fails(fails, trees=None):
    model_bad = [f for f in fails if f["kind"] == "model"]
    if model_bad and not any(b.get("name", "").startswith("c2mEval (literal model") for b in ck.broken_ties):
        # which repair set would explain the real evaluator?  (hint for `appliedFixes`)
        sample = model_bad[:200]
        hint = None
        for mask in range(64):
            rows = drv_expr([f["toks"] for f in sample], ("exprmask", str(mask)))
            if all(truth_of(r) == f["c2m"] for r, f in zip(rows, sample)):
                hint = mask
                break
        ck.broken_ties.append({"kind": "correspondence", "name": "c2mEval (literal model of eval) vs real c2m",
                               "first_diff": {"expr": " ".join(model_bad[0]["toks"]), "model": model_bad[0]["model"],
                                              "c2m_selects_true_group": model_bad[0]["c2m"]},
                               "hint": (f"on {len(sample)} disagreeing expressions the real evaluator behaves like "
                                        f"c2mEvalG with repair mask {hint} (1 not, 2 compare, 4 shift, 8 cond, 16 literal, "
                                        f"32 wchar; 63 = the checked-in model): `appliedFixes` in Model/PPExpr.lean no "
                                        f"longer describes the checked tree"
                                        if hint is not None else "no repair set explains the real evaluator")})
    for f in fails:
        if f["kind"] != "violation":
            continue
        n_reported["expr"] += 1
        if n_reported["expr"] > 5:
            continue
        src = expr_source([f["toks"]])
        ck.violation({"stage": "tie", "theorem_or_correspondence": "eval_meets_c11 (selected #if group == C11 == gcc)",
                      "input": {"kind": "expr", "toks": f["toks"], "source": src},
                      "model_output": {"c11Eval": f["c11"], "c2mEval": f["model"]},
                      "impl_output": {"c2m_selects_true_group": f["c2m"]},
                      "spec_verdict": "gcc and c11Eval agree, c2m selects the other group"
                                      + ("" if f["model_predicts"] else " (and the literal model of `eval` does not predict it)"),
                      "how_to_rerun": "cd /verif && ./check C09 --replay <this file>"},
                     what="c2m selects a different #if group than C11/gcc", signature=None)


def judge_gcc_only(family, cases):
    """reference = gcc alone (forms the Lean specification does not cover); c2m's token stream and its
    re-lexed -E text must equal gcc's tokens"""
    srcs = [G.render_case(c) for c in cases]
    g = run_gcc_many(srcs)
    sel = [i for i in range(len(cases)) if not g[i]["err"] and len(g[i]["t"]) <= MAX_TOKS]
    cc = run_harness(HARNESS, [srcs[i] for i in sel]) if sel else []
    fs = fam_stats.setdefault(family, {"cases": 0, "agree": 0, "discarded": 0, "c2m_ne": 0, "nontrivial": 0})
    fs["cases"] += len(cases)
    fs["discarded"] += len(cases) - len(sel)
    stats["cases"] += len(cases)
    stats["gcc_only_reference"] = stats.get("gcc_only_reference", 0) + len(sel)
    fails = []
    for k, i in enumerate(sel):
        ci = cc[k]
        if ci["err"] == "not-run":
            continue
        if srcs[i] not in seen_canon:
            seen_canon.add(srcs[i]); fs["nontrivial"] += 1
        bad = bool(ci["err"]) or not (G.toks_match(g[i]["t"], ci["t"]) or G.glued_match(ci["t"], g[i]["t"]))
        if not bad and ci.get("txt") is not None and G.pp_tokenize(ci["txt"]) != list(ci["t"]):
            bad = True
        if bad:
            fs["c2m_ne"] += 1
            stats["c2m_ne"] += 1
            fails.append({"family": family, "case": cases[i], "src": srcs[i], "gcc": g[i]["t"], "c2m": ci["t"],
                          "c2m_err": ci["err"]})
        else:
            fs["agree"] += 1
            stats["agree"] += 1
    return fails


def gcc_only_fails_now(case):
    src = G.render_case(case)
    gi = run_gcc(src)
    if gi["err"]:
        return False
    ci = run_harness(HARNESS, [src])[0]
    return bool(ci["err"]) or not (G.toks_match(gi["t"], ci["t"]) or G.glued_match(ci["t"], gi["t"]))


def shrink_lines(case, pred, budget=60):
    cur, n = [dict(l) for l in case], 0
    changed = True
    while changed and n < budget:
        changed = False
        for i in range(len(cur)):
            n += 1
            cand = cur[:i] + cur[i + 1:]
            if cand and pred(cand):
                cur = cand; changed = True
                break
    return cur


# ------------------------------------------------------------------ replay of one saved case
if ck.replay:
    with open(ck.replay) as fh:
        rp = json.load(fh)
    inp = rp.get("input", {})
    if inp.get("kind") == "expr":
        fl = judge_exprs([inp["toks"]], "replay")
        report_expr_fails(fl)
        ck.log("replay expr:", "FAILS" if fl else "passes")
    elif inp.get("kind") == "case-gcc-only":
        case = [dict(l) for l in inp["case"]]
        for l in case:
            for k in ("toks", "repl"):
                if k in l:
                    l[k] = [tuple(t) for t in l[k]]
        bad = gcc_only_fails_now(case)
        if bad:
            ck.violation({"stage": "tie", "input": inp, "how_to_rerun": "cd /verif && ./check C09 --replay <this file>"},
                         what="replayed case: c2m differs from gcc", signature=None)
        ck.log("replay case (gcc only):", "FAILS" if bad else "passes")
    elif inp.get("kind") == "case":
        case = [dict(l) for l in inp["case"]]
        for l in case:
            for k in ("toks", "repl"):
                if k in l:
                    l[k] = [tuple(t) for t in l[k]]
        fl = judge_cases("replay", [case], lambda c, t: True)
        report_token_fails(fl)
        ck.log("replay case:", "FAILS" if fl else "passes")
    ck.cov["evaluations"] = 1
    ck.finish()

# ------------------------------------------------------------------ corpus (known witnesses, standard examples)
corpus_dir = os.path.join(VERIF, "corpus", "C09")
n_corpus = 0
if os.path.isdir(corpus_dir):
    for fn in sorted(os.listdir(corpus_dir)):
        if not fn.endswith(".json"):
            continue
        with open(os.path.join(corpus_dir, fn)) as fh:
            ent = json.load(fh)
        for item in ent.get("items", [ent]):
            n_corpus += 1
            if item.get("kind") == "expr":
                toks = G.pp_tokenize(item["expr"])
                report_expr_fails(judge_exprs([toks], fn))
                # the witness is also replayed on the real binary
                b = run_c2m_binary(expr_source([toks]))
                if b is not None and item.get("gcc_group") is not None:
                    got = "T0" in b["squeezed"]
                    ifstats.setdefault("binary_replays", []).append({"expr": item["expr"], "c2m_binary_true_group": got,
                                                                     "gcc_true_group": item["gcc_group"]})
            elif item.get("kind") == "source-gcc-only":
                lines = G.parse_source(item["source"])
                for f in judge_gcc_only("corpus", [lines]):
                    sg = item.get("signature")
                    ck.violation({"stage": "tie", "theorem_or_correspondence": "c2m token sequence == gcc",
                                  "input": {"kind": "case-gcc-only", "family": "corpus", "case": lines, "source": item["source"]},
                                  "gcc_output": f["gcc"], "impl_output": f["c2m"], "impl_errors": f["c2m_err"],
                                  "how_to_rerun": "cd /verif && ./check C09 --replay <this file>"},
                                 what=f"c2m differs from gcc on a corpus case ({sg})",
                                 signature=None if os.environ.get("C09_NO_KNOWN") else sg)
            elif item.get("kind") == "source":
                lines = G.parse_source(item["source"])
                report_token_fails(judge_cases("corpus", [lines], lambda c, t: True))
ck.cov["corpus_replayed"] = n_corpus
ck.stage("corpus", n=n_corpus, t=round(time.time() - T0, 1))

# ------------------------------------------------------------------ generated families
NA = 3000 if QUICK else 30000
NB = 400 if QUICK else 4000
NC = 60 if QUICK else 400
NE = 600 if QUICK else 6000
ND = 12000 if QUICK else 150000
gen_stats = {}


def merge_stats(d):
    for k, v in d.items():
        gen_stats[k] = gen_stats.get(k, 0) + v


def has_expansion(case, toks):
    return any(l["k"] == "define" for l in case)


def run_family(name, n, mk):
    CH = 400
    fails = []
    done = 0
    while done < n:
        m = min(CH, n - done)
        cases = []
        for _ in range(m):
            g = mk()
            cases.append(g.gen_case())
            merge_stats(g.stats)
        fails += judge_cases(name, cases, has_expansion)
        done += m
    report_token_fails(fails)
    for c in cases[:2]:
        ck.sample({"family": name, "source": G.render_case(c)[:600]})
    ck.stage(name, n=n, fails=len(fails), t=round(time.time() - T0, 1))


run_family("macro-random", NA, lambda: G.MacroGen(ck.rng))
run_family("stringify-direct", NB, lambda: G.StrGen(ck.rng))
run_family("sharp-then-param", NC, lambda: G.SharpGen(ck.rng))
run_family("conditional-with-macros", NE, lambda: G.CondGen(ck.rng))

# pp-numbers: the tokenizer of this check against the Lean maximal-munch function, then the three-way comparison
_ppn_chunks = []


def _mk_ppnum():
    g_ = G.PPNumGen(ck.rng)
    _ppn_chunks.append(g_)
    return g_


run_family("pp-number-glue", 800 if QUICK else 8000, _mk_ppnum)
_chunks = sorted({c for g_ in _ppn_chunks for c in g_.chunks})
_, _out, _ = run_limited([DRV, "ppnum"], "".join(G.hx(c) + "\n" for c in _chunks), timeout=120)
_lens = _out.split()
_bad = [(c, l) for c, l in zip(_chunks, _lens)
        if int(l) != (G._NUM.match(c).end() if G._NUM.match(c) else 0)] if len(_lens) == len(_chunks) else [("protocol", "")]
if _bad:
    ck.broken_ties.append({"kind": "correspondence", "name": "tokenizer of the check vs ppNumberLen (Lean, 6.4.8 maximal munch)",
                           "first_diff": _bad[:3]})
stats["ppnumber_spellings_vs_lean"] = len(_chunks)

run_family("stringified-paste-empty-operand", 800 if QUICK else 8000, lambda: G.StrPasteGen(ck.rng))


OPEN_SIG = "C09:args-across-two-replacement-ends"
oc_fails = []
NO = 600 if QUICK else 6000
for k in range(0, NO, 400):
    cs = []
    for _ in range(min(400, NO - k)):
        g_ = G.OpenCallGen(ck.rng)
        cs.append(g_.gen_case()); merge_stats(g_.stats)
    oc_fails += judge_gcc_only("open-call", cs)
n_oc_unlisted = 0
for f in oc_fails:
    # listed finding: the argument list runs past the ends of two (or more) nested replacement lists
    deep = sum(1 for l in f["case"] if l["k"] == "define" and l["name"] in ("O2", "O3")) >= 1
    sg = OPEN_SIG if deep and not os.environ.get("C09_NO_KNOWN") else None
    if sg:
        _sig_seen[sg] = _sig_seen.get(sg, 0) + 1
        if _sig_seen[sg] > 1:
            continue
        small = f["case"]
    else:
        n_oc_unlisted += 1
        if n_oc_unlisted > 3:
            continue
        small = shrink_lines(f["case"], gcc_only_fails_now)
    src = G.render_case(small)
    ci = run_harness(HARNESS, [src])[0]
    ck.violation({"stage": "tie", "theorem_or_correspondence": "c2m token sequence == gcc (form outside the Lean specification)",
                  "input": {"kind": "case-gcc-only", "family": "open-call", "case": small, "source": src},
                  "gcc_output": run_gcc(src)["t"], "impl_output": ci["t"], "impl_errors": ci["err"],
                  "how_to_rerun": "cd /verif && ./check C09 --replay <this file>"},
                 what="an invocation whose argument list is closed outside the replacement list it starts in is "
                      "expanded differently from gcc" + (f" ({sg})" if sg else ""), signature=sg)
ck.stage("open-call", n=NO, fails=len(oc_fails), t=round(time.time() - T0, 1))

# line ends x directives (enumerated)
le_cases = G.line_end_cases(not QUICK)
le_fails = []
for k in range(0, len(le_cases), 400):
    le_fails += judge_cases("line-end-x-directive", le_cases[k:k + 400], has_expansion)
report_token_fails(le_fails)
ck.sample({"family": "line-end-x-directive", "source": G.render_case(le_cases[len(le_cases) // 2])[:600]})
ck.stage("line-end-x-directive", n=len(le_cases), fails=len(le_fails), t=round(time.time() - T0, 1))

# family D
eg = G.ExprGen(ck.rng)
trees, toks_list = [], []
# exhaustive small scope first: every operator over the boundary literals (pairs from a reduced grid)
GRID = ["0", "1", "-1", "0u", "1u", "63", "64", "0x7fffffff", "0x80000000", "0xffffffff", "2147483648",
        "9223372036854775807", "(-9223372036854775807-1)", "18446744073709551615u", "0x8000000000000000",
        "9223372036854775808u", "'\\377'", "L'\\xffffffff'", "u'\\xffff'"]
for op in G.BINOPS:
    for a in GRID:
        for b in GRID:
            if QUICK and ck.rng.below(4):
                continue
            toks_list.append(["("] + G.pp_tokenize(a) + [")", op, "("] + G.pp_tokenize(b) + [")"] + ["<", "0"]
                             if ck.rng.below(2) else G.pp_tokenize(a) + [op] + G.pp_tokenize(b))
for op in G.UNOPS:
    for a in GRID:
        toks_list.append(["(", op, "("] + G.pp_tokenize(a) + [")", ")", "<", "0"])
n_pairs = len(toks_list)


def cond_arm_family(full):
    """EXHAUSTIVE small scope for the static type of the NOT-selected arm of ?: (`pre_expr_uns_p`): the arm
    ranges over every operator shape (unary + - ~ !, every binary operator, nested ?:, a parenthesised constant
    of every type class) x every signedness combination of its operands, and one level deeper (an operator
    applied to such an arm); the selected arm is a negative signed value and the result is used where the
    signedness is visible (> < / % >>).  Also with the conditional nested in the selected arm of another one."""
    S, U = "2", "2u"
    lits = ["5", "5u", "5l", "5ul", "5ll", "5ull", "0x7fffffff", "0x80000000", "0xffffffffffffffff",
            "'a'", "L'a'", "u'a'", "U'a'"]
    arms = [f"({l})" for l in lits]
    for a in (S, U):
        arms += [f"({op}{a})" for op in G.UNOPS]
        for b in (S, U):
            arms += [f"({a} {op} {b})" for op in G.BINOPS]
            arms += [f"({c} ? {a} : {b})" for c in ("0", "1")]
    deep = []
    ops2 = G.BINOPS if full else ["<<", ">>", "+", "<", "&&", "&"]
    for x in arms:
        deep += [f"({op}{x})" for op in G.UNOPS]
        for c in ("1", "1u"):
            deep += [f"({x} {op} {c})" for op in ops2] + [f"({c} {op} {x})" for op in ops2]
            if full:
                deep += [f"({k} ? {x} : {c})" for k in ("0", "1")] + [f"({k} ? {c} : {x})" for k in ("0", "1")]
    ctxs = ["{} > 0", "{} < 0", "{} / 2 == -1", "{} % 3 == -2", "({} >> 1) < 0"]
    out = []

    def put(arm, ctx_list):
        for pos in (f"(1 ? -2 : {arm})", f"(0 ? {arm} : -2)", f"(1 ? (0 ? {arm} : -2) : 3)",
                    f"(0 ? 3 : (1 ? -2 : {arm}))"):
            for cx in ctx_list:
                out.append(G.pp_tokenize(cx.format(pos)))
    for x in arms:
        put(x, ctxs)
    for x in deep:
        put(x, ctxs if full else ctxs[1:3])
    return out, len(arms), len(deep)


arm_exprs, n_arms, n_deep = cond_arm_family(not QUICK)
toks_list += arm_exprs
ifstats["cond_arm_family"] = {"exprs": len(arm_exprs), "arm_shapes": n_arms, "second_level_shapes": n_deep}
n_grid = len(toks_list)
while len(toks_list) < max(ND, n_grid + ND // 3):
    t = eg.tree(1 + ck.rng.below(3))
    toks_list.append(eg.render(t, full_parens=ck.rng.chance(1, 3)))
expr_fails = []
CHD = 3000
for k in range(0, len(toks_list), CHD):
    expr_fails += judge_exprs(toks_list[k:k + CHD], "generated")
report_expr_fails(expr_fails)
ck.stage("if-grid", n=len(toks_list), exhaustive_pairs=n_pairs, cond_arm_exhaustive=len(arm_exprs), t=round(time.time() - T0, 1))
for t in toks_list[n_grid:n_grid + 3]:
    ck.sample({"family": "if-grid", "source": "#if " + " ".join(t)})

# ------------------------------------------------------------------ stringify / destringify of the code
def strings_family():
    alpha = ["a", "\\", '"', "n", " ", "0"]
    strs = [""]
    if QUICK:
        for L in range(1, 5):          # exhaustive over {a, \, ", n} up to length 4
            idx = [0] * L
            while True:
                strs.append("".join(alpha[:4][i] for i in idx))
                k = L - 1
                while k >= 0 and idx[k] == 3:
                    idx[k] = 0; k -= 1
                if k < 0:
                    break
                idx[k] += 1
        for _ in range(600):
            strs.append("".join(ck.rng.choice(alpha) for _ in range(ck.rng.below(12))))
    else:
        for L in range(1, 7):
            idx = [0] * L
            while True:
                strs.append("".join(alpha[:4][i] for i in idx))
                k = L - 1
                while k >= 0 and idx[k] == 3:
                    idx[k] = 0; k -= 1
                if k < 0:
                    break
                idx[k] += 1
        for _ in range(5000):
            strs.append("".join(ck.rng.choice(alpha) for _ in range(ck.rng.below(16))))
    d = os.path.join(CACHE, "c09-tmp")
    os.makedirs(d, exist_ok=True)
    path = os.path.join(d, f"strings{os.getpid()}.txt")
    with open(path, "w") as f:
        f.write("".join(G.hx(x) + "\n" for x in strs))
    _, hout, herr = run_limited([HARNESS, "--strings", path], None, timeout=60)
    os.remove(path)
    rc, out, err = run_limited([DRV, "strings"], "".join(G.hx(x) + "\n" for x in strs), timeout=120)
    hl = hout.strip("\n").split("\n")
    ml = out.strip("\n").split("\n")
    st = {"strings": len(strs), "model_ne_code": 0, "roundtrip_fails": 0}
    if len(hl) != 3 * len(strs) or len(ml) != 3 * len(strs):
        ck.broken_ties.append({"kind": "correspondence", "name": "stringify/destringify harness protocol",
                               "first_diff": (hout[:200], out[:200], herr[-200:])})
        return st
    for i, x in enumerate(strs):
        hS, hD, hR = hl[3 * i:3 * i + 3]
        mS, mD, mR = ml[3 * i:3 * i + 3]
        if (hS, hD, hR) != (mS, mD, mR):
            st["model_ne_code"] += 1
            if st["model_ne_code"] == 1:
                ck.broken_ties.append({"kind": "correspondence", "name": "stringify/destringifyC (literal model) vs c2mir.c",
                                       "first_diff": {"s": x, "code": (hS, hD, hR), "model": (mS, mD, mR)}})
        if hD == "D " + G.hx(x):
            continue
        st["roundtrip_fails"] += 1
        if st["roundtrip_fails"] <= 2:
            ck.violation({"stage": "tie", "theorem_or_correspondence": "stringify_roundtrip",
                          "input": {"kind": "string", "s": x},
                          "model_output": {"stringify": mS, "destringify(stringify)": mD},
                          "impl_output": {"stringify": hS, "destringify(stringify)": hD},
                          "spec_verdict": "destringify (stringify s) != s on the real static functions",
                          "how_to_rerun": "cd /verif && ./check C09 --tier quick"},
                         what="destringify does not invert stringify", signature=None)
    return st


str_stats = strings_family()
ck.stage("stringify-destringify", **str_stats)

# ------------------------------------------------------------------ the c2m binary prints what the harness reports
if C2M is not None:
    nb = 0
    bad = 0
    for name, mk in (("macro-random", lambda: G.MacroGen(ck.rng)), ("stringify-direct", lambda: G.StrGen(ck.rng))):
        for _ in range(15 if QUICK else 100):
            case = mk().gen_case()
            src = G.render_case(case)
            h = run_harness(HARNESS, [src])[0]
            b = run_c2m_binary(src)
            if h["err"] or b is None or b["rc"] != 0:
                continue
            nb += 1
            if re.sub(r"\s+", "", "".join(h["t"])) != b["squeezed"]:
                bad += 1
                ck.broken_ties.append({"kind": "correspondence", "name": "harness token stream vs `c2m -E` binary output",
                                       "first_diff": {"source": src[:600], "binary": b["squeezed"][:300]}})
                break
    stats["binary_crosscheck"] = nb
    ck.stage("c2m-binary-crosscheck", n=nb, bad=bad)

# ------------------------------------------------------------------ evidence
ck.cov["evaluations"] = stats["cases"] + ifstats["exprs"] + str_stats["strings"]
ck.cov["distinct_nontrivial"] = sum(f["nontrivial"] for f in fam_stats.values()) + ifstats["defined_value"]
ck.cov["rule"] = ("token cases: random macro-definition sets + invocation texts (object-/function-like, variadic, "
                  "#/## with role-typed parameters so that pastes are valid, self and mutual recursion, function-like "
                  "names without '(', calls nested to depth 6, empty arguments, calls spanning lines, #undef), direct "
                  "stringification with escapes and every white-space form, `# p` followed by a parameter, nested "
                  "#if/#elif/#else sections with macros and `defined`; enumerated: every kind of line end (function-like name without "
                  "call, macro ending in one, calls ending/spanning lines, # results, trailing comments) x every directive kind x "
                  "blank/comment lines in between x position (start, after text, in #if group, in #else group, end of file); a case counts as distinct non-trivial when its "
                  "source text is new, gcc and the spec accept it and at least one macro is defined. "
                  "#if grid: every binary operator over pairs of boundary literals + exhaustive ?: family (every operator shape "
                  "x signedness combination, two levels, as the unselected arm; see cond_arm_family) + random trees of depth <= 3 over "
                  "the boundary grid; counted when C11 gives the expression a value")
ck.cov["distribution"] = {"token_cases": stats, "families": fam_stats, "generator_features": gen_stats,
                          "if_grid": {k: v for k, v in ifstats.items()},
                          "stringify_destringify": str_stats, "findings_seen": _sig_seen}
ck.cov["exhaustive"] = False
ck.assumptions += [
    "gcc -E -P -std=c11 (gcc 12) is the reference for C11 6.10.1/6.10.3 on the generated domain; the Lean spec is "
    "compared with it on every case (a difference is reported as a model bug, not as a violation)",
    "white-space positions that C11 leaves open inside strings made by # (first token of an inserted argument, token "
    "after an inserted argument or after a macro expansion) are compared modulo one optional space",
    "c2mir's expansion engine (process_replacement/find_args/processing) is not modelled statement by statement; it is "
    "compared with the executable C11 specification on generated inputs only",
    "expressions whose C11 evaluation is undefined (signed overflow, shift count outside 0..63, INTMAX_MIN/-1, a "
    "constant without type) are generated but not compared",
    "an #if expression with a zero divisor inside an operand that is not evaluated (`1 ? -2 : 1/(2%2u)`) is compared "
    "with the C11 model only: gcc's cpp gives that quotient the type of its left operand alone (counted)",
    "cases the C11 spec rejects but gcc accepts as an extension (missing variable argument, `, ## __VA_ARGS__`) are "
    "discarded and counted",
]
ck.finish()
