"""C06 — MIR functions are correct C-ABI callees and preserve the caller's machine state (x86-64 SysV).

Stages
  1. translator (translate/c06_extract.py) + proof gate (Props/C06, bridge lemma, driver)
  2. unit tie: va_arg_builtin / va_block_arg_builtin on a grid of va_list states  vs  the Lean model
  3. call tie: generated MIR callees entered through the assembly trampoline
       kind 1  raw sentinel probes  -> observed placement / va_list image / fetch sequence
                                       vs  calleePlace / shimPlace / vaStartGen / vaArgWalk (mirdrv_c06)
       kind 0  gcc-compiled callers -> parameter values, results, callee-saved registers, rsp, MXCSR,
                                       x87 CW/stack, DF, alloca alignment+validity, alignment at calls
     generated code only: decoded prologue  vs  the Lean `frame` model on the generator's real inputs
A failing gcc-placed call is a violation of the property; its signature is the model's own account of
where the code deviates from the psABI (`diag`), so listed known findings are recognised by cause.
"""
import json, os, re, struct, subprocess, sys, time
from concurrent.futures import ThreadPoolExecutor
from vf import Check, VERIF, REPO, CACHE
import c06_gen as g

ck = Check("C06")
QUICK = ck.tier == "quick"
IFACES = ["interp", "gen0", "gen1", "gen2", "gen3", "lazy"] + ([] if QUICK else ["lazybb"])
WORK = os.path.join(CACHE, "c06", f"{ck.tier}-{ck.seed}-{os.getpid()}")
os.makedirs(WORK, exist_ok=True)
I64 = ("i", "i64")

# ------------------------------------------------------------------------------------------ stage 1
ok_proof = ck.proof_gate(["MirVerif.Props.C06"],
                         support_modules=["MirVerif.Model.AbiCallee", "MirVerif.Lemmas.AbiCallee"],
                         bridge_modules=["MirVerif.Lemmas.BridgeAbiCallee"],
                         exes=["mirdrv_c06"], translators=["c06_extract.py"])
if ok_proof and not QUICK:
    ck.leanchecker(["MirVerif.Props.C06"])
if not ok_proof:
    ck.lake(["mirdrv_c06"])  # the search below needs the model even when a theorem no longer checks
DRV = os.path.join(VERIF, "lean", ".lake", "build", "bin", "mirdrv_c06")
have_drv = os.path.exists(DRV)
if not have_drv:
    ck.broken_ties.append({"kind": "driver", "name": "mirdrv_c06 not built"})

exe = ck.cc("c06_harness", ["harness/c06_harness.c", os.path.join(REPO, "mir.c"), "harness/c06_call.S"],
            flags=["-O1", "-g", "-DNDEBUG", "-w"])
if exe is None:
    ck.broken_ties.append({"kind": "harness-compile", "name": "c06_harness", "log": ck.last_cc_log[-1500:]})
    ck.finish()


def drv(lines):
    """run mirdrv_c06 over protocol lines; one output line per input line"""
    if not have_drv or not lines:
        return ["?"] * len(lines)
    rc, out, err = ck.drv("mirdrv_c06", [], "\n".join(lines) + "\n")
    res = out.split("\n")
    if res and res[-1] == "":
        res.pop()
    if rc != 0 or len(res) != len(lines):
        ck.broken_ties.append({"kind": "driver", "name": "mirdrv_c06 protocol", "rc": rc, "err": err[-500:]})
        return ["?"] * len(lines)
    return res


# ------------------------------------------------------------------------------------------ stage 2
def unit_tie():
    qs = []
    for gp in range(0, 65, 8):
        for fp in list(range(48, 209, 8)):
            for ty in ("i64", "i32", "p", "d", "f", "ld"):
                qs.append(f"A {gp} {fp} {ty}")
            for size in (4, 8, 12, 16, 20, 24, 32, 40):
                for k in range(0, 6):
                    if k in (1, 2, 3, 4) and size > 16:
                        continue  # outside the domain: the builtin copies `size` bytes of a 16-byte union
                    if k in (3, 4) and size <= 8:
                        continue  # a mixed-class block has two eightbytes
                    qs.append(f"K {gp} {fp} {size} {k}")
    r = subprocess.run([exe, "unit"], input="\n".join(qs) + "\n", capture_output=True, text=True, timeout=120)
    real = r.stdout.split("\n")[:len(qs)]
    model = drv(qs)
    diffs = []
    for q, a, b in zip(qs, real, model):
        if a.strip() != b.strip():
            diffs.append({"query": q, "impl": a, "model": b})
    ck.cov.setdefault("distribution", {})["unit_va_states"] = len(qs)
    ck.stage("unit-va-builtins", queries=len(qs), diffs=len(diffs))
    return qs, diffs


# ------------------------------------------------------------------------------------------ cases
def ser_case(c):
    d = dict(c)
    d["sig"] = [list(t) for t in c["sig"]]
    d["tail"] = [list(t) for t in c.get("tail", [])]
    d["vals"] = [v.hex() for v in c["vals"]]
    return d


def deser_case(d):
    c = dict(d)
    c["sig"] = [tuple(t) for t in d["sig"]]
    c["tail"] = [tuple(t) for t in d.get("tail", [])]
    c["vals"] = [bytes.fromhex(v) for v in d["vals"]]
    return c


def gcc_expressible(sig, tail, vararg=False):
    if vararg and not sig:
        return False  # `T f(...)` needs C23 (gcc >= 13)
    for t in list(sig) + list(tail):
        if t[0] == "blk":
            if t[1] == 0 and t[2] <= 16:
                return False
            if t[1] in g.BLK_SIZES and t[2] not in g.BLK_SIZES[t[1]]:
                return False
            if t[1] > 4 or t[2] > g.SLOT:
                return False
    for t in tail:
        if t[0] == "f" or (t[0] == "i" and g.WIDTH[t[1]] < 4):
            return False
    return True


def rand_type(rng, tail=False, probe=False):
    r = rng.below(100)
    if r < 42:
        return ("i", rng.choice(["i32", "u32", "i64", "u64", "p"] if tail else g.INT_KINDS))
    if r < 58:
        return ("d",)
    if r < 65:
        return ("d",) if tail else ("f",)
    if r < 73:
        return ("ld",)
    if r < 78 and not tail:
        return ("rblk", rng.choice([8, 16, 24, 40]))
    k = rng.below(5)
    if k == 0:
        return ("blk", 0, rng.choice([17, 24, 32, 33, 40, 48, 64] + ([1, 8, 12, 16, 20] if probe else [])))
    if probe and rng.chance(1, 3):
        lo = 9 if k in (3, 4) else 1
        return ("blk", k, lo + rng.below(17 - lo))
    return ("blk", k, rng.choice(g.BLK_SIZES[k]))


def rand_sig(rng, probe):
    style = rng.below(10)
    n = rng.below(5) if style < 3 else rng.below(11) if style < 7 else 4 + rng.below(16)
    sig = [rand_type(rng, probe=probe) for _ in range(n)]
    if style == 9:  # register-file boundaries
        sig = [I64] * rng.below(9) + [("d",)] * rng.below(11) + sig[:3]
    vararg = rng.chance(2, 5) and len(sig) > 0  # MIR rejects a variadic function without a named parameter
    tail = []
    if vararg:
        m = rng.below(4) if rng.chance(1, 2) else rng.below(14)
        tail = [rand_type(rng, tail=True, probe=probe) for _ in range(m)]
    return sig, vararg, tail


def mk_case(rng, cid, sig, vararg, tail, kind, opts=None):
    c = {"id": cid, "sig": list(sig), "vararg": vararg, "tail": list(tail), "kind": kind}
    if kind == 0:
        o = opts if opts is not None else rand_opts(rng)
        c.update(o)
    else:
        c["res"] = []
        c["probe"] = g.probe_regs(64)
    c["vals"] = [g.rand_value(rng, t) for t in list(sig) + list(tail)]
    if kind == 0 and vararg and len(tail) >= 2 and "skip" not in c and rng.chance(1, 2):
        # some variadic arguments are fetched only to advance the va_list (result unused)
        c["skip"] = sorted({rng.below(len(tail) - 1) for _ in range(1 + rng.below(2))})
    return c


def rand_opts(rng):
    o = {"res": g.rand_res(rng), "dump_first": rng.chance(1, 2)}
    if rng.chance(1, 4):
        o["ldops"] = 1 + rng.below(12)  # iterations of the loop over every long double insn
    o["K"] = rng.choice([0, 0, 2, 5, 9, 14, 20])
    o["KD"] = rng.choice([0, 0, 3, 9])
    o["calls"] = rng.choice([0, 1, 1, 2, 3])
    if rng.chance(3, 10):
        o["alloca_const"] = 1 + rng.below(300)
    if rng.chance(3, 10):
        o["alloca_var"] = 8 + rng.below(8)
    return o


FIXED_SIGS = [
    # boundaries of the register files, with and without a variadic tail
    ([I64] * 5, True, [I64, ("d",), I64, I64]),
    ([I64] * 6, True, [I64, ("d",), I64]),
    ([I64] * 7, True, [I64, ("d",), I64]),
    ([("d",)] * 8, True, [("d",), I64, ("d",)]),
    ([("d",)] * 9, True, [("d",), I64]),
    ([I64], True, [("d",)] * 9 + [I64] * 7 + [("d",), I64]),
    ([I64], True, [I64] * 5 + [("ld",), I64, ("ld",)]),
    ([I64], True, [I64] * 6 + [("ld",)]),
    ([I64, ("blk", 1, 16)], True, [I64, I64]),
    ([I64, ("blk", 0, 20)], True, [I64] * 6),
    ([I64, ("blk", 0, 24)], True, [I64] * 6),
    ([I64], True, [("blk", 3, 16), ("d",), ("d",)]),
    ([I64], True, [("blk", 4, 16), I64, ("d",)]),
    ([I64], True, [("d",)] * 8 + [("blk", 2, 16), I64]),
    ([I64], True, [("d",)] * 7 + [("blk", 2, 16), ("d",)]),
    ([I64], True, [("blk", 1, 16)] * 3 + [I64]),
    ([I64], True, [("blk", 2, 8), ("blk", 1, 8), ("blk", 0, 24), ("blk", 0, 17), I64, ("d",)]),
    ([I64] * 7 + [("ld",)], False, []),
    ([I64] * 8 + [("ld",)], False, []),
    ([("ld",), I64, ("ld",)], False, []),
    ([I64] * 6 + [("blk", 0, 24), ("ld",)], False, []),
    ([I64, ("blk", 3, 16), ("d",)], False, []),
    ([("d",)] * 8 + [("blk", 2, 16), I64], False, []),
    ([I64] * 5 + [("blk", 1, 16), I64, I64], False, []),
    ([I64] * 6 + [("d",)] * 8 + [("blk", 3, 16), ("blk", 4, 12), I64, ("d",)], False, []),
    ([("i", k) for k in g.INT_KINDS] + [("f",), ("d",)], False, []),
    ([("i", k) for k in g.INT_KINDS] * 2, False, []),
    ([], False, []),
    ([("rblk", 24), ("blk", 0, 40), ("blk", 1, 3), ("blk", 2, 12), ("blk", 4, 12)], False, []),
]
FIXED_OPTS = [
    {"res": ["i64"], "K": 14, "KD": 4, "calls": 2, "alloca_const": 37, "alloca_var": 8, "ldops": 9},
    {"res": [], "K": 0, "KD": 0, "calls": 0},
    {"res": ["d"], "K": 20, "KD": 9, "calls": 1, "dump_first": True},
    {"res": ["i64", "d"], "K": 5, "KD": 0, "calls": 3, "alloca_var": 9},
    {"res": ["ld", "ld"], "K": 9, "calls": 1, "alloca_const": 1},
    {"res": ["ld"], "K": 2, "calls": 0, "alloca_const": 4096, "ldops": 12},
    {"res": ["f", "d", "i64", "ld", "i32", "ld"], "K": 3, "calls": 1, "ldops": 2},
]


# ------------------------------------------------------------------------------------------ running
def build_batch(name, cases, tab):
    src = os.path.join(WORK, name + ".c")
    so = os.path.join(WORK, name + ".so")
    with open(src, "w") as f:
        f.write(g.batch_c(cases, tab))
    r = subprocess.run(["gcc", "-O1", "-w", "-shared", "-fPIC", "-I" + os.path.join(VERIF, "harness"), src, "-o", so],
                       capture_output=True, text=True)
    if r.returncode != 0:
        ck.broken_ties.append({"kind": "caller-compile", "name": name, "log": r.stderr[-1500:]})
        return None
    return so


def run_batch(so, ifaces, only=None):
    """-> {(id, iface): dict}, crashed (id, iface) or None"""
    cmd = [exe, "run", so, ",".join(ifaces)] + ([str(only)] if only is not None else [])
    try:
        r = subprocess.run(cmd, capture_output=True, text=True, timeout=900)
    except subprocess.TimeoutExpired as e:
        r = subprocess.CompletedProcess(cmd, -9, e.stdout or "", "timeout")
        if isinstance(r.stdout, bytes):
            r.stdout = r.stdout.decode(errors="replace")
    res, last_b = {}, None
    for line in r.stdout.split("\n"):
        if line.startswith("B "):
            f = line.split(" ")
            last_b = (int(f[1]), f[2])
        elif line.startswith("R "):
            f = line.split(" ")
            d = {"id": int(f[1]), "iface": f[2]}
            for x in f[3:]:
                if "=" in x:
                    k, v = x.split("=", 1)
                    d[k] = v
            res[(d["id"], d["iface"])] = d
            last_b = None
    crashed = None
    if "END" not in r.stdout:
        crashed = {"at": last_b, "rc": r.returncode, "stderr": (r.stderr or "")[-400:]}
    return res, crashed


def run_all(cases, tab, ifaces, label):
    """build (in parallel) and run; a crash skips the crashing (case, iface) and continues"""
    chunks = [cases[i:i + 250] for i in range(0, len(cases), 250)]
    with ThreadPoolExecutor(max_workers=8) as ex:
        sos = list(ex.map(lambda ic: build_batch(f"{label}{ic[0]}", ic[1], tab), enumerate(chunks)))
    results, crashes = {}, []

    def one(args):
        so, chunk = args
        out, cr = {}, []
        if so is None:
            return out, cr
        res, crashed = run_batch(so, ifaces)
        out.update(res)
        guard = 0
        while crashed is not None and guard < 50:
            guard += 1
            at = crashed["at"]
            cr.append(crashed)
            if at is None:
                break
            # resume after the crashing pair: rerun remaining interfaces of that case, then later cases
            cid, ifc = at
            rest_if = ifaces[ifaces.index(ifc) + 1:]
            if rest_if:
                r2, c2 = run_batch(so, rest_if, only=cid)
                out.update(r2)
                if c2 is not None:
                    cr.append(c2)
            later = [c["id"] for c in chunk if c["id"] > cid and not any((c["id"], i) in out for i in ifaces)]
            crashed = None
            for lid in later:
                r3, c3 = run_batch(so, ifaces, only=lid)
                out.update(r3)
                if c3 is not None:
                    cr.append(c3)
            break
        return out, cr

    with ThreadPoolExecutor(max_workers=8) as ex:
        for out, cr in ex.map(one, zip(sos, chunks)):
            results.update(out)
            crashes += cr
    return results, crashes


# ------------------------------------------------------------------------------------------ judging
def state_problems(c, d):
    """everything the ABI asks the callee to preserve"""
    p = []
    if d.get("rsp") != "0":
        p.append(f"rsp after return differs by {d.get('rsp')}")
    regs = d.get("regs", "").split(",")
    names = ["rbx", "rbp", "r12", "r13", "r14", "r15"]
    for n, x in zip(names, regs):
        if x != "0":
            p.append(f"callee-saved {n} changed (xor {x})")
    mb, ma = d.get("mxcsr", "/").split("/")
    if mb != ma:
        p.append(f"MXCSR control bits {mb} -> {ma}")
    cb, ca = d.get("cw", "/").split("/")
    if cb != ca:
        p.append(f"x87 control word {cb} -> {ca}")
    if d.get("df") != "0":
        p.append("direction flag set on return")
    nld = sum(1 for r in c.get("res", []) if r == "ld")
    if d.get("x87") != str(nld):
        p.append(f"x87 stack holds {d.get('x87')} values on return, expected {nld}")
    if d.get("extmis") != "0":
        p.append("stack not 16-byte aligned at a call to an external function")
    if c["kind"] == 0 and d.get("extcalls") != str(c.get("calls", 0)):
        p.append(f"external called {d.get('extcalls')} times, expected {c.get('calls', 0)}")
    return p


RET_OFF = {"rax": 0, "rdx": 8, "xmm0": 16, "xmm1": 32, "st0": 48, "st1": 64}


def value_problems(c, d, tab, m=None):
    out, res = bytes.fromhex(d["out"]), bytes.fromhex(d["res"])
    p = []
    for off, b, what in g.expected_out(c, tab):
        if out[off:off + len(b)] != b:
            p.append(f"{what}: expected {b.hex()} got {out[off:off + len(b)].hex()}")
    for off, b in g.expected_res(c, tab):
        if res[off:off + len(b)] != b:
            p.append(f"result bytes at {off}: expected {b.hex()} got {res[off:off + len(b)].hex()}")
    ret = bytes.fromhex(d.get("ret", ""))
    exp = g.expected_ret_regs(c, tab)
    for off, b, what in exp:
        if ret[off:off + len(b)] != b:
            p.append(f"{what}: expected {b.hex()} got {ret[off:off + len(b)].hex()}")
    if m is not None:
        # the Lean model of the result marshalling (MIR_RET lowering / interp shim) names the same registers
        locs = [x for x in m["ret_shim" if d["iface"] == "interp" else "ret_gen"] if x]
        names = []
        cnt = {"int": 0, "sse": 0, "x87": 0}
        for r in c.get("res", []):
            k = g.res_class(r)
            names.append({"int": ["rax", "rdx"], "sse": ["xmm0", "xmm1"], "x87": ["st0", "st1"]}[k][cnt[k]])
            cnt[k] += 1
        if locs != names and len(ck.broken_ties) < 8:
            ck.broken_ties.append({"kind": "correspondence", "name": "result registers: model vs specification table",
                                   "model": locs, "spec": names, "results": c.get("res", [])})
    return p


def model_lines(c):
    s, t = g.sig_str(c["sig"]), g.sig_str(c.get("tail", []))
    return [f"spec {s}", f"gen {s}", f"shim {s}", f"vastart {s}", f"walk {s} | {t}",
            f"diag gen {1 if c['vararg'] else 0} {s} | {t}", f"diag shim {1 if c['vararg'] else 0} {s} | {t}",
            "ret gen " + " ".join(g.res_class(r) for r in c.get("res", [])),
            "ret shim " + " ".join(g.res_class(r) for r in c.get("res", []))]


NLINES = 9


def parse_model(lines):
    m = {"spec": lines[0].split(" ")[1:], "gen": lines[1].split(" ")[1:], "shim": lines[2].split(" ")[1:]}
    m["vastart"] = dict(x.split("=") for x in lines[3].split(" ")[1:]) if lines[3].startswith("vastart ") and "=" in lines[3] else {}
    w = {}
    if lines[4].startswith("walk "):
        for part in re.split(r" (?=(?:spec|gen|shim)=)", lines[4][5:]):
            k, _, v = part.partition("=")
            w[k] = v.split(" ") if v else []
    m["walk"] = w
    m["diag_gen"] = lines[5].split(" ")[1:] if lines[5].startswith("diag") else ["?"]
    m["diag_shim"] = lines[6].split(" ")[1:] if lines[6].startswith("diag") else ["?"]
    for k in ("diag_gen", "diag_shim"):
        m[k] = [x for x in m[k] if x]
    m["ret_gen"] = lines[7].split(" ")[1:] if lines[7].startswith("ret") else ["?"]
    m["ret_shim"] = lines[8].split(" ")[1:] if lines[8].startswith("ret") else ["?"]
    return m


def same_places(obs, want):
    """piece-wise equality; a junk piece of the model ('?': saved rbp/rbx, return address, stale stack)
    matches whatever happened to be there"""
    if len(obs) != len(want):
        return False
    for o, w in zip(obs, want):
        op, wp = o.split("+"), w.split("+")
        if len(op) != len(wp) or any(a != b and b != "?" for a, b in zip(op, wp)):
            return False
    return True


def probe_problems(c, d, m):
    """observed placement vs the model of the code (tie), for one interface"""
    out = bytes.fromhex(d["out"])
    which = "shim" if d["iface"] == "interp" else "gen"
    hint = [x for x in m[which] if x != ""] + [x for x in m["walk"].get(which, []) if x != ""]
    obs = g.decode_probe(c, out, hint)
    n = len(c["sig"])
    p = []
    if which == "gen":
        # the generated prologue stores only the low half of xmm0-7 (movsd): the upper half of a save
        # slot is stale stack, so a (wrong) read of it is junk both in the model and in the observation
        def nohi(l):
            return [re.sub(r"xh\d+", "?", x) for x in l]
        obs = nohi(obs)
        m = dict(m)
        m["gen"] = nohi(m["gen"])
        m["walk"] = {k: nohi(v) for k, v in m["walk"].items()}
    want = [x for x in m[which] if x != ""]
    if len(want) != n or not same_places(obs[:n], want):
        p.append({"what": "named parameter placement", "impl": obs[:n], "model": want})
    if c["vararg"]:
        gp, fp, oaa = struct.unpack("<IIq", out[32:48])
        wv = m["vastart"].get(which, "")
        if f"{gp},{fp},{oaa}" != wv:
            p.append({"what": "va_list after va_start (gp,fp,overflow offset)", "impl": f"{gp},{fp},{oaa}", "model": wv})
        wt = [x for x in m["walk"].get(which, []) if x != ""]
        if not same_places(obs[n:], wt):
            p.append({"what": "locations fetched by va_arg over the tail", "impl": obs[n:], "model": wt})
    return p


CALLEE_SAVED_NAMES = {"rbx": 3, "rbp": 5, "r12": 12, "r13": 13, "r14": 14, "r15": 15}


def disasm_all(blobs):
    """blobs: {key: bytes}; one objdump run; -> {key: [insn text]} (first 40 insns)"""
    if not blobs:
        return {}
    path = os.path.join(WORK, "code.bin")
    offs, pos = {}, 0
    with open(path, "wb") as f:
        for k, b in blobs.items():
            offs[k] = (pos, pos + len(b))
            f.write(b + b"\x90" * 48)
            pos += len(b) + 48
    r = subprocess.run(["objdump", "-D", "-b", "binary", "-mi386:x86-64", path], capture_output=True, text=True)
    starts = sorted((a, k) for k, (a, _) in offs.items())
    import bisect
    keys = [a for a, _ in starts]
    res = {k: [] for k in blobs}
    for line in r.stdout.split("\n"):
        mm = re.match(r"\s*([0-9a-f]+):\t[0-9a-f ]+\t(.*)$", line)
        if not mm:
            continue
        addr = int(mm.group(1), 16)
        i = bisect.bisect_right(keys, addr) - 1
        if i < 0:
            continue
        k = starts[i][1]
        if addr < offs[k][1] and len(res[k]) < 40:
            res[k].append(re.sub(r"\s+", " ", mm.group(2)).strip())
    return res


def num(s):
    return int(s, 16) if not s.startswith("-") else -int(s[1:], 16)


def decode_prologue(insns):
    """-> dict(keepfp, sub, saves=[(reg, base, disp)], vararg_saves=[(reg, disp)])"""
    i, keepfp = 0, 0
    if len(insns) >= 2 and insns[0] == "mov %rbp,-0x8(%rsp)" and insns[1] == "lea -0x8(%rsp),%rbp":
        keepfp, i = 1, 2
    sub = None
    if i < len(insns):
        mm = re.fullmatch(r"sub \$0x([0-9a-f]+),%rsp", insns[i])
        if mm:
            sub, i = int(mm.group(1), 16), i + 1
    vs = []
    while i < len(insns):
        mm = re.fullmatch(r"(?:mov|movsd) %(rdi|rsi|rdx|rcx|r8|r9|xmm[0-7]),(-?0x[0-9a-f]+)?\(%rsp\)", insns[i])
        if not mm or sub is None:
            break
        vs.append((mm.group(1), num(mm.group(2)) if mm.group(2) else 0))
        i += 1
    saves = []
    while i < len(insns):
        mm = re.fullmatch(r"mov %(rbx|r12|r13|r14|r15),(-?0x[0-9a-f]+)?\(%(rbp|rsp)\)", insns[i])
        if not mm:
            break
        saves.append((CALLEE_SAVED_NAMES[mm.group(1)], mm.group(3), num(mm.group(2)) if mm.group(2) else 0))
        i += 1
    return {"keepfp": keepfp, "sub": sub, "saves": saves, "vararg_saves": vs}


VARARG_REGS = ["rdi", "rsi", "rdx", "rcx", "r8", "r9"] + [f"xmm{j}" for j in range(8)]


def frame_problem(d, fline, insns, call_used_gen):
    """compare the decoded prologue with the model's frame for the generator's real inputs"""
    pro = decode_prologue(insns)
    if fline == "frame none":
        if pro["keepfp"] or pro["sub"] is not None:
            return {"what": "prologue present where the model has none", "impl": pro, "model": fline}
        return None
    mm = re.fullmatch(r"frame sub=(\d+) keepfp=(\d) saves=(.*)", fline)
    if not mm:
        return {"what": "frame model line", "model": fline}
    msub, mkf = int(mm.group(1)), int(mm.group(2))
    msaves = []
    for x in mm.group(3).split(","):
        if x:
            r, b, o = x.split(":")
            msaves.append((int(r), b, int(o)))
    if (pro["keepfp"], pro["sub"], pro["saves"]) != (mkf, msub, msaves):
        return {"what": "prologue: frame-pointer shape, rsp adjustment or save slots", "impl": pro, "model": fline}
    if d.get("vararg") == "1":
        # block_size = sub - 176 - 8 ; gpr n at block_size + 8 n, xmm j at block_size + 48 + 16 j
        bs = msub - 184
        want = [(VARARG_REGS[n], bs + (8 * n if n < 6 else 48 + 16 * (n - 6))) for n in range(14)]
        if pro["vararg_saves"] != want:
            return {"what": "vararg register save area stores", "impl": pro["vararg_saves"], "model": want}
    return None


# ------------------------------------------------------------------------------------------ main flow
rng = ck.rng
tab = [rng.next() for _ in range(32)] + [int.from_bytes(struct.pack("<d", float(rng.below(1 << 20))), "little")
                                         for _ in range(32)]
for i in range(8, 16):
    tab[i] = 1 + rng.below(700)  # sizes for variable alloca
tab[8] = 40

dist = ck.cov.setdefault("distribution", {})
viol_seen = set()
N_EVAL = 0
DISTINCT = set()


def classify(c, d, m, probs):
    """signature of a failing gcc-placed call: the model's account of the deviation, if it has one"""
    tags = m["diag_shim"] if d["iface"] == "interp" else m["diag_gen"]
    tags = [t for t in tags if t and not t.endswith("unexplained")]
    # only wrong parameter values (or a crash while dereferencing one) are explained by a placement
    # deviation; a clobbered register, a wrong checksum or a misaligned alloca never is
    if tags and all(p.startswith(("param", "variadic", "process died")) for p in probs):
        return "C06:" + tags[0]
    return None


def report(c, d, probs, m, how, extra=None):
    sig = classify(c, d, m, probs) if c["kind"] == 0 else None
    key = (sig, d["iface"] == "interp") if sig else ("x", c["id"], d["iface"], probs[0][:30])
    if key in viol_seen:
        return
    viol_seen.add(key)
    replay = {"stage": "tie", "theorem_or_correspondence": "call through trampoline vs psABI expectation",
              "input": {"case": ser_case(c), "iface": d["iface"], "tab": tab,
                        "signature_text": g.sig_str(c["sig"]) + (" | " + g.sig_str(c["tail"]) if c["vararg"] else "")},
              "impl_output": probs[:12], "model_output": {"spec": m.get("spec"), "code_model": m.get("gen" if d["iface"] != "interp" else "shim"),
                                                          "diag": m["diag_shim"] if d["iface"] == "interp" else m["diag_gen"]},
              "spec_verdict": "the callee observes wrong parameter values or does not preserve the caller's state",
              "how_to_rerun": how}
    if extra:
        replay.update(extra)
    ck.violation(replay, what=f"{d['iface']}: {g.sig_str(c['sig'])}{' | ' + g.sig_str(c['tail']) if c['vararg'] else ''}: {probs[0]}",
                 signature=sig)


def judge(cases, results, crashes, label, shrink=True):
    """check every (case, iface); returns list of failing (case, iface, problems, model)"""
    global N_EVAL
    lines = []
    for c in cases:
        lines += model_lines(c)
    ml = drv(lines)
    models = {c["id"]: parse_model(ml[NLINES * i: NLINES * i + NLINES]) for i, c in enumerate(cases)}
    failing, tie_breaks = [], []
    blobs, fq = {}, []
    by_id = {c["id"]: c for c in cases}
    for (cid, ifc), d in sorted(results.items()):
        c, m = by_id[cid], models[cid]
        N_EVAL += 1
        if "error" in d:
            failing.append((c, d, [f"MIR error: {d['error']}"], m))
            continue
        probs = state_problems(c, d)
        if c["kind"] == 0:
            probs += value_problems(c, d, tab, m)
            if probs:
                failing.append((c, d, probs, m))
        else:
            if probs:
                failing.append((c, d, probs, m))
            tp = probe_problems(c, d, m)
            if tp:
                tie_breaks.append((c, d, tp))
        if "code" in d and d.get("codelen", "0") != "0":
            blobs[(cid, ifc)] = bytes.fromhex(d["code"])
            fq.append(((cid, ifc), "frame " + " ".join([d["keepfp"], d["vararg"], d["jret"], d["slots"],
                                                         str(int(d["used"], 16)), d["leaf"], d["alloca"], d["blkarg"]])))
        dist[ifc] = dist.get(ifc, 0) + 1
    # frame tie
    fl = drv([q for _, q in fq])
    dis = disasm_all(blobs)
    frame_breaks = []
    for (key, q), fline in zip(fq, fl):
        fp = frame_problem(results[key], fline, dis.get(key, []), None)
        dist["frames_checked"] = dist.get("frames_checked", 0) + 1
        if results[key]["keepfp"] == "0" and fline != "frame none":
            dist["frames_without_fp"] = dist.get("frames_without_fp", 0) + 1
        if fline == "frame none":
            dist["frames_none"] = dist.get("frames_none", 0) + 1
        nsav = bin(int(results[key]["used"], 16) & 0xF008).count("1")
        dist[f"saved_regs_{nsav}"] = dist.get(f"saved_regs_{nsav}", 0) + 1
        if fp:
            frame_breaks.append((by_id[key[0]], results[key], fp, q))
    for cr in crashes:
        at = cr.get("at")
        if at and at[0] in by_id:
            c = by_id[at[0]]
            d = {"id": at[0], "iface": at[1]}
            failing.append((c, d, [f"process died inside the call (rc={cr['rc']})"], models[at[0]]))
    return failing, tie_breaks, frame_breaks, models


def rerun_cmd(path_hint="<this file>"):
    return f"cd /verif && ./check C06 --replay {path_hint}"


def shrink(c, d, probs, m):
    """greedy removal of parameters / tail elements / body features while the same kind of failure persists"""
    if c["kind"] != 0:
        return c, d, probs, m
    want = classify(c, d, m, probs)
    cur, curd, curp, curm = c, d, probs, m
    for _ in range(10):
        cands = []
        nid = 0
        n, t = len(cur["sig"]), len(cur["tail"])
        for i in range(n + t):
            cc = dict(cur)
            cc["sig"] = [x for j, x in enumerate(cur["sig"]) if j != i]
            cc["tail"] = [x for j, x in enumerate(cur["tail"]) if j + n != i]
            cc["vals"] = [x for j, x in enumerate(cur["vals"]) if j != i]
            if cur.get("skip"):
                cc["skip"] = [j - (1 if i >= n and j > i - n else 0) for j in cur["skip"] if j != i - n]
            cands.append(cc)
        for k in ("K", "KD", "calls", "alloca_const", "alloca_var", "ldops", "skip"):
            if k in ("ldops", "skip") and cur.get(k):
                cc = dict(cur)
                cc.pop(k)
                cands.append(cc)
                continue
            if cur.get(k):
                cc = dict(cur)
                cc[k] = 0 if k not in ("alloca_const", "alloca_var") else None
                if cc[k] is None:
                    cc.pop(k)
                cands.append(cc)
        if cur.get("res"):
            cc = dict(cur)
            cc["res"] = []
            cands.append(cc)
            for i in range(len(cur["res"])):
                cc = dict(cur)
                cc["res"] = [x for j, x in enumerate(cur["res"]) if j != i]
                cands.append(cc)
        cands = [cc for cc in cands if gcc_expressible(cc["sig"], cc["tail"], cc["vararg"])]
        for i, cc in enumerate(cands):
            cc["id"] = i
        if not cands:
            break
        res, crashes = run_all(cands, tab, [d["iface"]], "shrink")
        f, _, _, models = judge(cands, res, crashes, "shrink")
        nxt = None
        for (fc, fd, fp, fm) in f:
            if classify(fc, fd, fm, fp) == want:
                nxt = (fc, fd, fp, fm)
                break
        if nxt is None:
            break
        cur, curd, curp, curm = nxt
    return cur, curd, curp, curm


def handle(cases, results, crashes, label):
    failing, tie_breaks, frame_breaks, models = judge(cases, results, crashes, label)
    failed_sigs = set()
    # group failures by classification; report one (shrunk) representative per class
    groups = {}
    for (c, d, probs, m) in failing:
        s = classify(c, d, m, probs) if c["kind"] == 0 else None
        # unexplained failures are grouped by what went wrong and by engine family, not by signature
        cat = re.split(r"[ :(]", probs[0])[0] + ("" if not probs[0].startswith("callee-saved") else " " + probs[0].split(" ")[1])
        key = (s, d["iface"] == "interp") if s else ("x", cat, d["iface"] == "interp")
        groups.setdefault(key, []).append((c, d, probs, m))
        failed_sigs.add((g.sig_str(c["sig"]), g.sig_str(c["tail"]), c["vararg"], d["iface"]))
    n_unknown = 0
    for key, items in groups.items():
        items.sort(key=lambda x: len(x[0]["sig"]) + len(x[0]["tail"]))
        c, d, probs, m = items[0]
        known = key[0] is not None and key[0] != "x" and ck.is_known(key[0])
        if not known:
            n_unknown += 1
            if n_unknown > 4:
                continue
            c, d, probs, m = shrink(c, d, probs, m)
        report(c, d, probs, m, "cd /verif && ./check C06 --replay <this file>")
    # ties that broke without a failing gcc-placed twin
    for (c, d, tp) in tie_breaks:
        k = (g.sig_str(c["sig"]), g.sig_str(c["tail"]), c["vararg"], d["iface"])
        if k in failed_sigs:
            dist["probe_tie_breaks_with_failing_twin"] = dist.get("probe_tie_breaks_with_failing_twin", 0) + 1
            if dist["probe_tie_breaks_with_failing_twin"] <= 3:
                ck.log("model/observation difference on a signature that also fails the property:", d["iface"], k[0], "|", k[1], tp[0])
            continue  # the same signature already fails the property itself
        if len(ck.broken_ties) < 8:
            ck.broken_ties.append({"kind": "correspondence", "name": tp[0]["what"], "iface": d["iface"],
                                   "signature": k[0] + (" | " + k[1] if k[2] else ""), "first_diff": tp[0]})
    for (c, d, fp, q) in frame_breaks:
        if len(ck.broken_ties) < 8:
            ck.broken_ties.append({"kind": "correspondence", "name": "frame: " + fp["what"], "iface": d["iface"],
                                   "signature": g.sig_str(c["sig"]), "query": q, "first_diff": fp})
    return failing, tie_breaks, frame_breaks


def note_cases(cases):
    for c in cases:
        key = (g.sig_str(c["sig"]), g.sig_str(c["tail"]), c["vararg"])
        nstack = sum(1 for t in c["sig"] if t[0] in ("ld",) or (t[0] == "blk" and t[1] == 0))
        nontrivial = (len(c["sig"]) > 6 or nstack or c["vararg"] or c.get("K", 0) >= 5 or c.get("alloca_const")
                      or c.get("alloca_var") is not None or any(t[0] in ("blk", "rblk") for t in c["sig"]))
        if nontrivial:
            DISTINCT.add(key + (c["kind"], c.get("K", 0), bool(c.get("alloca_const")), c.get("alloca_var") is not None))
        dist["kind_probe" if c["kind"] else "kind_gcc_caller"] = dist.get("kind_probe" if c["kind"] else "kind_gcc_caller", 0) + 1
        if c["vararg"]:
            dist["vararg"] = dist.get("vararg", 0) + 1
        b = min(len(c["sig"]) // 4 * 4, 16)
        dist[f"named_{b}+"] = dist.get(f"named_{b}+", 0) + 1
        for t in list(c["sig"]) + list(c["tail"]):
            dist["ty_" + t[0]] = dist.get("ty_" + t[0], 0) + 1
        if c["kind"] == 0:
            for k in ("alloca_const", "alloca_var"):
                if c.get(k) is not None and c.get(k) != 0:
                    dist[k] = dist.get(k, 0) + 1
            dist[f"pressure_K{c.get('K', 0)}"] = dist.get(f"pressure_K{c.get('K', 0)}", 0) + 1
            for k in ("ldops", "skip"):
                if c.get(k):
                    dist[k] = dist.get(k, 0) + 1
            if g.rawres(c):
                dist["res_register_judged"] = dist.get("res_register_judged", 0) + 1
            rk = "res_" + ("_".join(c.get("res", [])) if not g.rawres(c) else f"{len(c['res'])}_results_no_C_type")
            dist[rk] = dist.get(rk, 0) + 1


# ---- replay of one saved case
if ck.replay:
    rp = json.load(open(ck.replay))
    inp = rp.get("input", rp)
    c = deser_case(inp["case"])
    c["id"] = 0
    tab = inp.get("tab", tab)
    ifs = [inp["iface"]] if inp.get("iface") else IFACES
    res, crashes = run_all([c], tab, ifs, "replay")
    failing, tb, fb, models = judge([c], res, crashes, "replay")
    for (fc, fd, probs, m) in failing:
        report(fc, fd, probs, m, f"cd /verif && ./check C06 --replay {ck.replay}")
    ck.log(f"replay: {len(failing)} failing (case, interface) pairs; tie breaks {len(tb)}; frame breaks {len(fb)}")
    for (cc, d, tp) in tb:
        ck.log("tie:", d["iface"], tp[0])
    ck.cov["evaluations"] = N_EVAL
    import shutil
    shutil.rmtree(WORK, ignore_errors=True)
    ck.finish()

# ---- corpus first (pinned replays of known findings and of past failures)
corpus_dir = os.path.join(VERIF, "corpus", "C06")
corpus_cases = []
if os.path.isdir(corpus_dir):
    for fn in sorted(os.listdir(corpus_dir)):
        if fn.endswith(".json"):
            rp = json.load(open(os.path.join(corpus_dir, fn)))
            inp = rp.get("input", rp)
            c = deser_case(inp["case"])
            c["id"] = len(corpus_cases)
            c["_file"] = fn
            c["_iface"] = inp.get("iface")
            c["_tab"] = inp.get("tab")
            corpus_cases.append(c)
ck.cov["corpus_replayed"] = len(corpus_cases)
for c in corpus_cases:
    ctab = c["_tab"] or tab
    c1 = dict(c)
    c1["id"] = 0
    res, crashes = run_all([c1], ctab, IFACES, "corpus")
    save_tab = tab
    tab = ctab
    handle([c1], res, crashes, "corpus")
    tab = save_tab

# ---- unit tie
unit_qs, unit_diffs = unit_tie()

# ---- generated cases
cases = []


def add_sig(sig, vararg, tail, opts_list):
    cases.append(mk_case(rng, len(cases), sig, vararg, tail, 1))
    if gcc_expressible(sig, tail, vararg):
        for o in opts_list:
            cases.append(mk_case(rng, len(cases), sig, vararg, tail, 0, dict(o) if o is not None else None))


for i, (sig, va, tail) in enumerate(FIXED_SIGS):
    add_sig(sig, va, tail, [FIXED_OPTS[i % len(FIXED_OPTS)], FIXED_OPTS[(i + 1) % len(FIXED_OPTS)]])
# witnesses derived from unit-tie differences (a changed builtin must show up in a real call)
for dff in unit_diffs[:6]:
    q = dff["query"].split(" ")
    gp, fp = int(q[1]), int(q[2])
    if gp % 8 or (fp - 48) % 16 or gp < 8:
        continue
    pre = [I64] * min((gp - 8) // 8, 6) + [("d",)] * min((fp - 48) // 16, 9)
    if q[0] == "A":
        t = {"d": ("d",), "f": ("d",), "ld": ("ld",)}.get(q[3], I64)
    else:
        k, size = int(q[4]), int(q[3])
        if k > 4 or (k == 0 and size <= 16) or (k in g.BLK_SIZES and size not in g.BLK_SIZES[k]):
            continue
        t = ("blk", k, size)
    add_sig([I64], True, pre + [t, I64, ("d",)], [FIXED_OPTS[1]])
# every pair and triple of result classes, entered through every interface (result-register placement)
for i, rl in enumerate(g.all_small_res()):
    sg = [[I64, ("d",)], [], [("d",), ("ld",), I64]][i % 3]
    cases.append(mk_case(rng, len(cases), sg, False, [], 0, {"res": rl, "K": [0, 3][i % 2], "calls": i % 2}))
# variadic consumers that skip arguments of every class
for sk, tl in [([0], [I64, I64]), ([0], [("d",), ("d",)]), ([0, 2], [I64, ("d",), ("ld",), I64, ("d",)]),
               ([1], [("blk", 1, 16), ("ld",), ("blk", 3, 16), ("d",)]), ([0, 1, 2, 3, 4, 5, 6], [I64] * 8),
               ([0, 1, 2, 3, 4, 5, 6, 7, 8], [("d",)] * 10)]:
    cc = mk_case(rng, len(cases), [I64], True, tl, 0, dict(FIXED_OPTS[1], skip=sk))
    cases.append(cc)
NSIG = 1200 if QUICK else 12000
for _ in range(NSIG):
    probe = rng.chance(1, 3)
    sig, va, tail = rand_sig(rng, probe)
    if probe:
        cases.append(mk_case(rng, len(cases), sig, va, tail, 1))
    else:
        add_sig(sig, va, tail, [None])
if not QUICK:
    # exhaustive small scope: every type string of length <= 3 over a representative alphabet, fixed and variadic
    alpha = [I64, ("d",), ("ld",), ("blk", 0, 24), ("blk", 1, 16), ("blk", 2, 16), ("blk", 3, 16), ("rblk", 8)]
    import itertools
    for n in range(0, 4):
        for combo in itertools.product(alpha, repeat=n):
            add_sig(list(combo), False, [], [FIXED_OPTS[1]])
            if n > 0:  # MIR rejects a variadic function without a named parameter
                add_sig(list(combo), True, [I64, ("d",), ("blk", 1, 16), I64], [FIXED_OPTS[1]])
    ck.cov["exhaustive"] = True
else:
    ck.cov["exhaustive"] = False
note_cases(cases)
for c in cases[:3] + cases[60:63]:
    ck.sample({"signature": g.sig_str(c["sig"]) + (" | " + g.sig_str(c["tail"]) if c["vararg"] else ""),
               "kind": "probe" if c["kind"] else "gcc-caller", "opts": {k: c.get(k) for k in ("res", "K", "KD", "calls", "alloca_const", "alloca_var")}})
t0 = time.time()
tot = {"results": 0, "failing": 0, "ties": 0, "frames": 0, "crashes": 0, "varfail": 0}
for lo in range(0, len(cases), 2500):  # bounded memory: run and judge slice by slice
    part = cases[lo:lo + 2500]
    results, crashes = run_all(part, tab, IFACES, f"gen{lo // 2500}_")
    for cr in crashes[:4]:
        at = cr.get("at")
        cc = cases[at[0]] if at and at[0] < len(cases) else None
        ck.log("died in call:", cr.get("at"), "rc", cr.get("rc"),
               (g.sig_str(cc["sig"]) + " | " + g.sig_str(cc["tail"])) if cc else "")
    failing, tie_breaks, frame_breaks = handle(part, results, crashes, "gen")
    tot["results"] += len(results)
    tot["failing"] += len(failing)
    tot["ties"] += len(tie_breaks)
    tot["frames"] += len(frame_breaks)
    tot["crashes"] += len(crashes)
    tot["varfail"] += sum(1 for (c, d, probs, m) in failing if c["vararg"])
ck.log(f"ran {len(cases)} cases x {len(IFACES)} interfaces in {time.time() - t0:.1f}s: {tot}")
ck.stage("calls", cases=len(cases), **tot)
dist["failing_pairs_total"] = tot["failing"]
dist["probe_tie_breaks_total"] = tot["ties"]
dist["frame_tie_breaks"] = tot["frames"]

# unit-tie differences that no real call exposed
if unit_diffs:
    exposed = tot["varfail"] > 0
    if not exposed:
        ck.broken_ties.append({"kind": "correspondence", "name": "va_arg_builtin/va_block_arg_builtin vs model",
                               "first_diff": unit_diffs[0], "ndiffs": len(unit_diffs)})
    else:
        ck.log(f"unit tie: {len(unit_diffs)} differences, first {unit_diffs[0]} (exposed by failing variadic calls)")

ck.cov["evaluations"] = N_EVAL + len(unit_qs)
ck.cov["distinct_nontrivial"] = len(DISTINCT)
ck.cov["rule"] = ("signatures: fixed register-file boundary list + splitmix-random lists of 0-19 named parameters over "
                  "i8..u64,p,f,d,ld,blk0-4(sizes 1-64),rblk with an optional variadic tail of 0-13 elements; each signature "
                  "is run as a raw sentinel probe (all six integer registers, both halves of xmm0-7 and 64 stack words carry "
                  "distinct sentinels) and, when C can express it, as gcc-compiled caller(s) with random values, random result "
                  "list, 0-20 integer and 0-9 double values live across 0-3 external calls, constant/variable alloca, optionally a loop over every "
                  "long double insn (arithmetic, conversions, compares, branches with both outcomes; x87 stack depth judged at "
                  "return) and variadic arguments fetched only to advance the va_list; result lists of 0-6 results (every pair and "
                  "triple of i64,f,d,ld in every run; lists without a C type are judged on rax/rdx/xmm0/xmm1/st0/st1 as recorded by "
                  "the trampoline); every case "
                  "runs under interp shim, gen -O0..-O3 and lazy gen (thorough: also lazy basic-block gen).  evaluations = (case, interface) pairs judged + unit "
                  "va_list states.  non-trivial = more than six named parameters, or stack/block/variadic parameters, or >=5 "
                  "values live across a call, or alloca; distinct by signature, kind and body shape.")
ck.cov["trusted_base"] = ck.cov.get("trusted_base", []) + [
    "translator translate/c06_extract.py (gcc -E + regex/expression parser)",
    "harness/c06_call.S (trampoline), harness/c06_harness.c, gcc as psABI oracle for argument placement and va_arg",
    "objdump for prologue decoding"]
ck.assumptions += [
    "x86-64 System V only (non-_WIN32 branches); MIR_NO_RED_ZONE_ABI not defined",
    "block parameters are at most 8-byte aligned (MIR has no alignment attribute); register block cases have size <= 16",
    "gcc 12 places arguments and implements va_arg as the psABI prescribes (it is the reference caller)",
    "jcall/jret functions are outside the C ABI and not covered",
    "theorems are about the Lean models; the full code generator (RA, combiner) is only tested through the trampoline",
    "alloca sizes below 2^32 (the variable form computes the size with a 32-bit lea)",
    "the first stack-argument word is 16-byte aligned (caller obeys the psABI): va_arg_builtin aligns the absolute "
    "overflow address for long double, the model aligns the offset"]
for b in ck.broken_ties[:8]:
    ck.log("broken tie:", json.dumps(b, default=str)[:600])
try:
    import shutil
    shutil.rmtree(WORK, ignore_errors=True)
except Exception:
    pass
ck.finish()
