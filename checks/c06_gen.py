"""C06 case generator: MIR callee text, gcc-compiled C callers, raw sentinel probes, expected values.

A *signature* is a list of parameter types
    ('i', kind)         kind in INT_KINDS (i8..u64, p)
    ('f',) ('d',) ('ld',)
    ('blk', k, size)    MIR_T_BLK+k, k = 0..4
    ('rblk', size)
optionally followed by a variadic tail (list of types a C caller can pass through `...`).
"""
import re, struct

INT_KINDS = ["i8", "u8", "i16", "u16", "i32", "u32", "i64", "u64", "p"]
WIDTH = {"i8": 1, "u8": 1, "i16": 2, "u16": 2, "i32": 4, "u32": 4, "i64": 8, "u64": 8, "p": 8}
SIGNED = {"i8", "i16", "i32", "i64"}
CTYPE = {"i8": "int8_t", "u8": "uint8_t", "i16": "int16_t", "u16": "uint16_t", "i32": "int32_t",
         "u32": "uint32_t", "i64": "int64_t", "u64": "uint64_t", "p": "void *"}
HDR, SLOT = 128, 64
M64 = (1 << 64) - 1

# result lists that have a C spelling with the same register assignment as MIR's
RESULTS = [[], ["i64"], ["i32"], ["u8"], ["i16"], ["u32"], ["p"], ["d"], ["f"], ["ld"], ["i64", "i64"], ["i64", "d"],
           ["d", "i64"], ["d", "d"], ["ld", "ld"], ["f", "d"], ["d", "f"], ["i64", "f"], ["f", "i64"]]
# (f,f) and pairs of narrow integers pack into one eightbyte of a C struct, longer lists have no C
# spelling at all: such callees are entered with a `void` prototype and judged on the result registers.


def res_class(rt):
    return {"f": "sse", "d": "sse", "ld": "x87"}.get(rt, "int")


def rand_res(rng):
    """any result list x86-64 MIR accepts: at most two integer, two SSE and two x87 results"""
    if rng.chance(1, 2):
        return list(rng.choice(RESULTS))
    n, out, cnt = rng.below(7), [], {"int": 0, "sse": 0, "x87": 0}
    for _ in range(n):
        rt = rng.choice(["i64", "i32", "u16", "p", "f", "d", "f", "d", "ld"])
        if cnt[res_class(rt)] < 2:
            cnt[res_class(rt)] += 1
            out.append(rt)
    return out


def all_small_res():
    """every pair and triple of result classes (i64, f, d, ld) MIR accepts"""
    import itertools
    out = []
    for n in (2, 3):
        for combo in itertools.product(["i64", "f", "d", "ld"], repeat=n):
            if all(sum(1 for x in combo if res_class(x) == c) <= 2 for c in ("int", "sse", "x87")):
                out.append(list(combo))
    return out


def rawres(case):
    """True when the caller cannot be typed in C: the trampoline records (and pops) the result registers"""
    return case.get("res", []) not in RESULTS


def tok(t):
    """signature token understood by mirdrv_c06"""
    if t[0] == "i":
        return "i"
    if t[0] == "blk":
        return f"b{t[1]}:{t[2]}"
    if t[0] == "rblk":
        return "r"
    return t[0]


def sig_str(sig):
    return " ".join(tok(t) for t in sig)


def mir_ty(t, name):
    if t[0] == "i":
        return f"{t[1]}:{name}"
    if t[0] == "blk":
        return f"blk{t[1] if t[1] else ''}:{t[2]}({name})"
    if t[0] == "rblk":
        return f"rblk:{t[1]}({name})"
    return f"{t[0]}:{name}"


def nbytes(t):
    """bytes of the out slot that carry the value of a parameter of type t"""
    if t[0] == "i":
        return 8
    if t[0] == "f":
        return 4
    if t[0] == "d":
        return 8
    if t[0] == "ld":
        return 10
    if t[0] == "blk":
        return t[2]
    if t[0] == "rblk":
        return t[1]
    raise ValueError(t)


def ext(kind, v):
    w = WIDTH[kind] * 8
    v &= (1 << w) - 1
    if kind in SIGNED and v >> (w - 1):
        v |= M64 ^ ((1 << w) - 1)
    return v & M64


# ------------------------------------------------------------------------------------------ values
def rand_bytes(rng, n):
    return bytes(rng.below(256) for _ in range(n))


def rand_value(rng, t):
    """raw little-endian bytes a C caller passes for type t (size = C size of the type)"""
    if t[0] == "i":
        v = rng.next()
        if rng.chance(1, 4):
            v = rng.choice([0, 1, M64, 1 << 63, 0x7F, 0x80, 0xFF, 0x7FFF, 0x8000, 0xFFFF, 0x7FFFFFFF, 0x80000000,
                            0xFFFFFFFF])
        return struct.pack("<Q", v & M64)[:WIDTH[t[1]]]
    if t[0] == "f":
        return struct.pack("<f", (rng.below(1 << 20) - (1 << 19)) / 8.0)
    if t[0] == "d":
        return struct.pack("<d", (rng.below(1 << 40) - (1 << 39)) / 64.0)
    if t[0] == "ld":
        # valid normal 80-bit number: explicit integer bit set, exponent in range
        mant = (1 << 63) | (rng.next() >> 1)
        se = (rng.below(2) << 15) | (0x3F00 + rng.below(0x200))
        return struct.pack("<QH", mant, se) + b"\0" * 6
    if t[0] == "blk":
        return struct_bytes(rng, t)
    if t[0] == "rblk":
        return rand_bytes(rng, t[1])
    raise ValueError(t)


def struct_fields(t):
    """C members of the struct standing for a block type, chosen so that gcc classifies it as MIR's case"""
    k, s = t[1], t[2]
    if k in (0, 1):
        return [("unsigned char", "c", s)]
    if k == 2:
        return {4: [("float", "a", 0)], 8: [("double", "a", 0)], 12: [("float", "a", 3)],
                16: [("double", "a", 2)]}[s]
    if k == 3:
        return {16: [("long", "a", 0), ("double", "b", 0)], 12: [("int", "a", 2), ("float", "b", 0)]}[s]
    if k == 4:
        return {16: [("double", "a", 0), ("long", "b", 0)], 12: [("float", "a", 2), ("int", "b", 0)]}[s]
    raise ValueError(t)


BLK_SIZES = {1: list(range(1, 17)), 2: [4, 8, 12, 16], 3: [12, 16], 4: [12, 16]}


def struct_bytes(rng, t):
    """block contents; floating members get finite values so no NaN canonicalisation can interfere"""
    k, s = t[1], t[2]
    if k in (0, 1) or k not in BLK_SIZES or s not in BLK_SIZES[k]:
        return rand_bytes(rng, s)  # (sizes without a C spelling occur in sentinel probes only)
    out = b""
    for cty, _, n in struct_fields(t):
        for _ in range(max(n, 1)):
            if cty == "float":
                out += struct.pack("<f", (rng.below(1 << 16) - (1 << 15)) / 4.0)
            elif cty == "double":
                out += struct.pack("<d", (rng.below(1 << 32) - (1 << 31)) / 16.0)
            elif cty == "int":
                out += struct.pack("<I", rng.next() & 0xFFFFFFFF)
            else:
                out += struct.pack("<Q", rng.next())
    assert len(out) == s, (t, len(out))
    return out


# ------------------------------------------------------------------------------------------ MIR text
def dump_value(lines, t, name, off, probe, addr_of_value=False):
    """MIR insns copying the value of parameter `name` (or the value at address `name`) to off(o)"""
    if t[0] == "i":
        if addr_of_value:
            mt = t[1] if t[1] != "p" else "i64"
            lines.append(f"mov t, {mt}:({name})")
            lines.append(f"mov i64:{off}(o), t")
        else:
            lines.append(f"mov i64:{off}(o), {name}")
    elif t[0] in ("f", "d", "ld"):
        mv = {"f": "fmov", "d": "dmov", "ld": "ldmov"}[t[0]]
        src = f"{t[0]}:({name})" if addr_of_value else name
        if addr_of_value:
            lines.append(f"{mv} x{t[0]}, {src}")
            src = f"x{t[0]}"
        lines.append(f"{mv} {t[0]}:{off}(o), {src}")
    elif t[0] == "rblk" and probe:
        lines.append(f"mov i64:{off}(o), {name}")
    else:
        size = t[2] if t[0] == "blk" else t[1]
        for w in range(size // 8):
            lines.append(f"mov t, i64:{8 * w}({name})")
            lines.append(f"mov i64:{off + 8 * w}(o), t")
        for b in range(size // 8 * 8, size):
            lines.append(f"mov t, u8:{b}({name})")
            lines.append(f"mov u8:{off + b}(o), t")


def mir_text(case):
    """module text of the callee for `case` (see header of this file for the out-buffer layout)"""
    sig, tail, vararg, probe = case["sig"], case.get("tail", []), case["vararg"], case["kind"] == 1
    K, KD = case.get("K", 0), case.get("KD", 0)
    res = case.get("res", [])
    params = [mir_ty(t, f"p{i}") for i, t in enumerate(sig)]
    head = ", ".join(res + params + (["..."] if vararg else []))
    L = []
    loc = ["i64:o", "i64:tb", "i64:t", "i64:t2", "i64:chk", "i64:r", "i64:va", "i64:a", "i64:al1", "i64:al2",
           "i64:asz", "f:xf", "d:xd", "ld:xld", "d:dsum"]
    loc += [f"i64:v{j}" for j in range(K)] + [f"d:dv{j}" for j in range(KD)]
    loc += [f"i64:ri{j}" for j in range(len(res))] + [f"d:rd{j}" for j in range(len(res))]
    loc += [f"f:rf{j}" for j in range(len(res))] + [f"ld:rl{j}" for j in range(len(res))]
    loc += ["ld:la", "ld:lb", "ld:lc", "ld:le", "i64:lcnt", "i64:lacc", "d:ldd", "f:lff"]
    L.append("local " + ", ".join(loc))
    L.append("mov o, c06_out")
    L.append("mov tb, c06_tab")
    L.append("mov chk, 0")
    if case.get("dump_first"):
        for i, t in enumerate(sig):
            dump_value(L, t, f"p{i}", HDR + SLOT * i, probe)
    for j in range(K):
        L.append(f"mov v{j}, i64:{8 * j}(tb)")
    for j in range(KD):
        L.append(f"dmov dv{j}, d:{8 * (32 + j)}(tb)")
    if case.get("alloca_const"):
        n = case["alloca_const"]
        L.append(f"alloca al1, {n}")
        L.append("and t, al1, 15")
        L.append("mov i64:8(o), t")
        L.append(f"mov u8:(al1), 77")
        L.append(f"mov u8:{n - 1}(al1), 99")
    if case.get("alloca_var") is not None:
        idx = case["alloca_var"]  # index into c06_tab holding the size
        L.append(f"mov asz, i64:{8 * idx}(tb)")
        L.append("alloca al2, asz")
        L.append("and t, al2, 15")
        L.append("mov i64:16(o), t")
        L.append("mov u8:(al2), 55")
        L.append("add t2, al2, asz")
        L.append("mov u8:-1(t2), 66")
    for c in range(case.get("calls", 0)):
        L.append(f"call ext_p, c06_ext, r, {'v0' if K else str(c + 5)}")
        L.append("add chk, chk, r")
    for j in range(K):
        L.append(f"mul t, v{j}, {2 * j + 1}")
        L.append("add chk, chk, t")
    if KD:
        L.append("dmov dsum, dv0")
        for j in range(1, KD):
            L.append(f"dadd dsum, dsum, dv{j}")
        L.append("dmov d:56(o), dsum")
    L.append("mov i64:0(o), chk")
    # alloca'd memory must have survived the calls and must not overlap
    if case.get("alloca_const") or case.get("alloca_var") is not None:
        L.append("mov t2, 0")
        if case.get("alloca_const"):
            n = case["alloca_const"]
            L.append("mov t, u8:(al1)")
            L.append("add t2, t2, t")
            L.append("mul t2, t2, 256")
            L.append(f"mov t, u8:{n - 1}(al1)")
            L.append("add t2, t2, t")
            L.append("mul t2, t2, 256")
        if case.get("alloca_var") is not None:
            L.append("mov t, u8:(al2)")
            L.append("add t2, t2, t")
            L.append("mul t2, t2, 256")
            L.append("add t, al2, asz")
            L.append("mov t, u8:-1(t)")
            L.append("add t2, t2, t")
        L.append("mov i64:24(o), t2")
    if case.get("ldops"):
        L += ld_ops_text(case["ldops"])
    if not case.get("dump_first"):
        for i, t in enumerate(sig):
            dump_value(L, t, f"p{i}", HDR + SLOT * i, probe)
    if vararg:
        L.append("alloca va, 32")
        L.append("va_start va")
        L.append("mov t, i64:(va)")
        L.append("mov i64:32(o), t")
        L.append("mov t, i64:8(va)")
        L.append("mov i64:40(o), t")
        L.append("mov t, i64:16(va)")
        L.append("mov i64:48(o), t")
        skip = set(case.get("skip", []))
        for j, t in enumerate(tail):
            off = HDR + SLOT * (len(sig) + j)
            if j in skip and t[0] != "blk":
                # fetched only to advance the va_list: the result is never used
                mt = {"i": t[1] if t[0] == "i" and t[1] != "p" else "i64"}.get(t[0], t[0])
                L.append(f"va_arg a, va, {mt}:0")
                continue
            if t[0] == "blk":
                L.append(f"add a, o, {off}")
                L.append(f"va_block_arg a, va, {t[2]}, {t[1]}")
            else:
                mt = {"i": t[1] if t[0] == "i" and t[1] != "p" else "i64"}.get(t[0], t[0])
                L.append(f"va_arg a, va, {mt}:0")
                dump_value(L, t, "a", off, probe, addr_of_value=True)
        L.append("va_end va")
    rets = []
    for j, rt in enumerate(res):
        L.append(f"add t, chk, {j + 1}")
        if rt == "d":
            L.append("and t, t, 1023")
            L.append(f"i2d rd{j}, t")
            rets.append(f"rd{j}")
        elif rt == "f":
            L.append("and t, t, 1023")
            L.append(f"i2f rf{j}, t")
            rets.append(f"rf{j}")
        elif rt == "ld":
            L.append("and t, t, 1023")
            L.append(f"i2ld rl{j}, t")
            rets.append(f"rl{j}")
        else:
            L.append(f"mov ri{j}, t")
            rets.append(f"ri{j}")
    L.append("ret " + ", ".join(rets) if rets else "ret")
    body = "\n".join("  " + x for x in L)
    return (f"m_c06: module\nimport c06_out, c06_tab, c06_ext\next_p: proto i64, i64:x\nexport f\n"
            f"f: func {head}\n{body}\n  endfunc\n  endmodule\n")


LD_PAIRS = [("la", "lb"), ("lb", "la"), ("la", "la")]
LD_CMP = {"eq": lambda x, y: x == y, "ne": lambda x, y: x != y, "lt": lambda x, y: x < y,
          "le": lambda x, y: x <= y, "gt": lambda x, y: x > y, "ge": lambda x, y: x >= y}


def ld_ops_text(n):
    """a loop of n iterations executing every long double insn, every compare and every branch with both
    outcomes; the checksum goes to 64(o).  Values are small integers, so every step is exact."""
    L = ["mov lcnt, 0", "mov lacc, 0", "i2ld la, 4", "i2ld lb, 8", "lloop:"]
    L += ["ldadd lc, la, lb", "ldsub lc, lc, la", "ldmul lc, lc, lb", "lddiv lc, lc, la", "ldneg lc, lc",
          "ld2i t, lc", "add lacc, lacc, t",
          "ld2d ldd, lc", "d2i t, ldd", "add lacc, lacc, t",
          "ld2f lff, lc", "f2i t, lff", "add lacc, lacc, t",
          "d2ld le, ldd", "ld2i t, le", "add lacc, lacc, t",
          "f2ld le, lff", "ld2i t, le", "add lacc, lacc, t",
          "ui2ld le, lcnt", "ld2i t, le", "add lacc, lacc, t",
          "ldmov ld:80(o), lc", "ldmov le, ld:80(o)", "ldmov lc, le", "ld2i t, lc", "add lacc, lacc, t"]
    w = 1
    for (x, y) in LD_PAIRS:
        for op in LD_CMP:
            L += [f"ld{op} t, {x}, {y}", f"mul t, t, {w}", "add lacc, lacc, t"]
            w += 1
    for (x, y) in LD_PAIRS:
        for op in LD_CMP:
            L += [f"ldb{op} ll{w}, {x}, {y}", f"add lacc, lacc, {1000 + w}", f"ll{w}:"]
            w += 1
    L += ["add lcnt, lcnt, 1", f"blt lloop, lcnt, {n}", "mov i64:64(o), lacc"]
    return L


def ld_ops_expected(n):
    vals = {"la": 4, "lb": 8}
    acc = 0
    for it in range(n):
        acc += -16 * 5 + it + -16
        w = 1
        for (x, y) in LD_PAIRS:
            for op, f in LD_CMP.items():
                acc += w * int(f(vals[x], vals[y]))
                w += 1
        for (x, y) in LD_PAIRS:
            for op, f in LD_CMP.items():
                if not f(vals[x], vals[y]):
                    acc += 1000 + w
                w += 1
    return acc & M64


# ------------------------------------------------------------------------------------------ expected
def expected_chk(case, tab):
    K, chk = case.get("K", 0), 0
    for c in range(case.get("calls", 0)):
        x = tab[0] if K else c + 5
        chk += 3 * x + 1
    for j in range(K):
        chk += tab[j] * (2 * j + 1)
    return chk & M64


def expected_out(case, tab):
    """list of (offset, bytes, what) the out buffer must contain after a gcc-placed call"""
    exp = [(0, struct.pack("<Q", expected_chk(case, tab)), "checksum of values live across calls")]
    if case.get("alloca_const"):
        exp.append((8, struct.pack("<Q", 0), "constant alloca address & 15"))
    if case.get("alloca_var") is not None:
        exp.append((16, struct.pack("<Q", 0), "variable alloca address & 15"))
    if case.get("alloca_const") or case.get("alloca_var") is not None:
        v = 0
        if case.get("alloca_const"):
            v = ((v + (77 if case["alloca_const"] > 1 else 99)) * 256 + 99) * 256
        if case.get("alloca_var") is not None:
            v = (v + 55) * 256 + 66
        exp.append((24, struct.pack("<Q", v & M64), "bytes written to alloca memory read back after the calls"))
    if case.get("KD"):
        s = sum(struct.unpack("<d", struct.pack("<Q", tab[32 + j]))[0] for j in range(case["KD"]))
        exp.append((56, struct.pack("<d", s), "sum of doubles live across calls"))
    if case.get("ldops"):
        exp.append((64, struct.pack("<Q", ld_ops_expected(case["ldops"])), "checksum of the long double instruction loop"))
    allt = list(case["sig"]) + list(case.get("tail", []))
    skip = set(len(case["sig"]) + j for j in case.get("skip", []) if case["tail"][j][0] != "blk")
    for i, (t, v) in enumerate(zip(allt, case["vals"])):
        if i in skip:
            continue
        what = f"param {i} ({tok(t)})" if i < len(case["sig"]) else f"variadic {i - len(case['sig'])} ({tok(t)})"
        if t[0] == "i":
            raw = int.from_bytes(v, "little")
            exp.append((HDR + SLOT * i, struct.pack("<Q", ext(t[1], raw)), what))
        else:
            exp.append((HDR + SLOT * i, v[:nbytes(t)], what))
    return exp


def result_values(case, tab):
    res, chk = case.get("res", []), expected_chk(case, tab)
    vals = []
    for j, rt in enumerate(res):
        t = (chk + j + 1) & M64
        if rt == "d":
            vals.append(("d", struct.pack("<d", float(t & 1023))))
        elif rt == "f":
            vals.append(("f", struct.pack("<f", float(t & 1023))))
        elif rt == "ld":
            vals.append(("ld", ld_bytes(t & 1023)))
        else:
            vals.append((rt, struct.pack("<Q", t)[:WIDTH[rt]]))
    return vals


def expected_ret_regs(case, tab):
    """list of (offset in the trampoline's result-register record, bytes, register name):
    record layout rax@0 rdx@8 xmm0@16 xmm1@32 st0@48 st1@64 (st only when the trampoline pops them)"""
    cnt, out = {"int": 0, "sse": 0, "x87": 0}, []
    for j, (rt, b) in enumerate(result_values(case, tab)):
        c = res_class(rt)
        n = cnt[c]
        cnt[c] += 1
        if c == "int":
            out.append((8 * n, b, f"result {j} ({rt}) in {'rax' if n == 0 else 'rdx'}"))
        elif c == "sse":
            out.append((16 + 16 * n, b, f"result {j} ({rt}) in xmm{n}"))
        elif rawres(case):
            out.append((48 + 16 * n, b, f"result {j} (ld) in st{n}"))
    return out


def expected_res(case, tab):
    """list of (offset in res buffer, bytes) for a C-typed caller"""
    if rawres(case):
        return []
    res, chk = case.get("res", []), expected_chk(case, tab)
    vals = []
    for j, rt in enumerate(res):
        t = (chk + j + 1) & M64
        if rt == "d":
            vals.append(("d", struct.pack("<d", float(t & 1023))))
        elif rt == "f":
            vals.append(("f", struct.pack("<f", float(t & 1023))))
        elif rt == "ld":
            vals.append(("ld", ld_bytes(t & 1023)))
        else:
            vals.append((rt, struct.pack("<Q", t)[:WIDTH[rt]]))
    # C layout of the result object
    if len(vals) == 0:
        return []
    if len(vals) == 1:
        return [(0, vals[0][1])]
    if res == ["ld", "ld"]:
        return [(0, vals[0][1]), (16, vals[1][1])]
    return [(0, vals[0][1]), (8, vals[1][1])]


def ld_bytes(n):
    """x87 80-bit encoding of the non-negative integer n < 2^63"""
    if n == 0:
        return b"\0" * 10
    e = n.bit_length() - 1
    return struct.pack("<QH", (n << (63 - e)) & M64, 16383 + e)


# ------------------------------------------------------------------------------------------ C callers
def c_bytes(b):
    return "{" + ",".join(str(x) for x in b) + "}"


def c_type_of(t, i, typedefs):
    if t[0] == "i":
        return CTYPE[t[1]]
    if t[0] == "f":
        return "float"
    if t[0] == "d":
        return "double"
    if t[0] == "ld":
        return "long double"
    if t[0] == "rblk":
        return "void *"
    name = f"B{i}"
    members = "; ".join(f"{cty} {n}[{cnt}]" if cnt else f"{cty} {n}" for cty, n, cnt in struct_fields(t))
    typedefs.append(f"typedef struct {{ {members}; }} {name};")
    return name


def c_ret_type(res, typedefs):
    def one(rt):
        return {"d": "double", "f": "float", "ld": "long double"}.get(rt) or CTYPE[rt]
    if not res:
        return "void"
    if len(res) == 1:
        return one(res[0])
    if res == ["ld", "ld"]:
        return "_Complex long double"
    typedefs.append(f"typedef struct {{ {one(res[0])} a; {one(res[1])} b; }} RT;")
    return "RT"


def c_caller(case):
    """C function `case_<id>` calling the trampoline with the case's prototype and values"""
    cid, sig, tail, res = case["id"], case["sig"], case.get("tail", []), case.get("res", [])
    if case["kind"] == 1:
        p = case["probe"]
        return (f"static void case_{cid} (struct c06_env *e) {{\n"
                f"  static const uint64_t gpr[6] = {{{','.join(hex(x) + 'ull' for x in p['gpr'])}}};\n"
                f"  static const uint64_t xmm[16] = {{{','.join(hex(x) + 'ull' for x in p['xmm'])}}};\n"
                f"  static const uint64_t stk[{max(1, len(p['stk']))}] = {{{','.join(hex(x) + 'ull' for x in p['stk']) or '0'}}};\n"
                f"  uint64_t r = e->raw_call (gpr, xmm, stk, {len(p['stk'])}, {p['al']});\n"
                f"  memcpy (e->res, &r, 8);\n}}\n")
    typedefs, decl, args, protos = [], [], [], []
    for i, (t, v) in enumerate(zip(list(sig) + list(tail), case["vals"])):
        ct = c_type_of(t, i, typedefs)
        if t[0] == "rblk":
            decl.append(f"  static unsigned char a{i}[{len(v)}] = {c_bytes(v)};")
        else:
            decl.append(f"  static const unsigned char b{i}[] = {c_bytes(v)}; {ct} a{i}; memcpy (&a{i}, b{i}, {len(v) if t[0] != 'ld' else 10});")
        if t[0] == "ld":
            decl[-1] = f"  static const unsigned char b{i}[16] = {c_bytes(v)}; {ct} a{i}; memcpy (&a{i}, b{i}, 16);"
        args.append(f"a{i}")
        if i < len(sig):
            protos.append(ct)
    if rawres(case):
        res = []
    rt = c_ret_type(res, typedefs)
    if case["vararg"]:
        protos.append("...")
    proto = ", ".join(protos) if protos else "void"
    call = f"((fn_t) e->tramp) ({', '.join(args)})"
    body = (f"  {call};\n" if not res else f"  {rt} r = {call};\n  memcpy (e->res, &r, sizeof (r));\n")
    return (f"static void case_{cid} (struct c06_env *e) {{\n  " + "\n  ".join(typedefs) + "\n"
            f"  typedef {rt} (*fn_t) ({proto});\n" + "\n".join(decl) + "\n" + body + "}\n")


def c_string(s):
    return '"' + s.replace("\\", "\\\\").replace('"', '\\"').replace("\n", '\\n"\n    "') + '"'


def batch_c(cases, tab):
    out = ["#include <string.h>", "#include <stdint.h>", '#include "c06_env.h"']
    for c in cases:
        out.append(c_caller(c))
    out.append("struct c06_case c06_cases[] = {")
    for c in cases:
        nld = sum(1 for r in c.get("res", []) if r == "ld")
        out.append(f"  {{{c['id']}, {c['kind']}, {c_string(mir_text(c))}, \"f\", case_{c['id']}, {nld}}},")
    out.append("};")
    out.append(f"int c06_ncases = {len(cases)};")
    out.append("int c06_out_lens[] = {" + ",".join(str(out_len(c)) for c in cases) + "};")
    out.append("int c06_flags[] = {" + ",".join(str((1 if c["vararg"] else 0) | (2 if rawres(c) else 0)) for c in cases) + "};")
    out.append("uint64_t c06_tab_init[64] = {" + ",".join(hex(x) + "ull" for x in tab) + "};")
    return "\n".join(out) + "\n"


def out_len(case):
    return HDR + SLOT * (len(case["sig"]) + len(case.get("tail", [])))


# ------------------------------------------------------------------------------------------ sentinels
def sentinel(n):
    """8-byte sentinel number n (0..255): unique low byte, low 16 bits a valid x87 exponent field,
    bit 63 set (valid 80-bit normal when it is used as a mantissa)"""
    return (1 << 63) | ((n * 0x010101) << 24) | (0x4100 + n)


def probe_regs(nstk):
    gpr = [sentinel(i) for i in range(6)]
    xmm = []
    for j in range(8):
        xmm += [sentinel(8 + 2 * j), sentinel(9 + 2 * j)]
    stk = [sentinel(32 + k) for k in range(nstk)]
    return {"gpr": gpr, "xmm": xmm, "stk": stk, "al": 8}


STACK_IMAGE = b"".join(struct.pack("<Q", sentinel(32 + k)) for k in range(64))


def sentinel_name(n):
    if n < 6:
        return f"g{n}"
    if 8 <= n < 24:
        return f"x{(n - 8) // 2}" if n % 2 == 0 else f"xh{(n - 8) // 2}"
    if n >= 32:
        return f"s{8 * (n - 32)}"
    return "?"


def decode_piece(chunk, t, prev=None):
    """name the sentinel a chunk (<= 8 bytes of an out slot) was copied from, '?' if none.
    Reads at stack offsets that are not multiples of 8 (they occur: the va_start expansion adds
    unrounded block sizes) straddle two sentinels and are located in the stack image."""
    n = chunk[0]
    s = sentinel(n)
    if t[0] == "i":
        if chunk == struct.pack("<Q", ext(t[1], s)):
            return sentinel_name(n)
        w = WIDTH[t[1]]
        pos = STACK_IMAGE.find(chunk[:w])
        while pos >= 0:
            if chunk == struct.pack("<Q", ext(t[1], int.from_bytes(STACK_IMAGE[pos:pos + w], "little"))) and pos % 8:
                return f"s{pos}"
            pos = STACK_IMAGE.find(chunk[:w], pos + 1)
        return "?"
    if prev is not None and prev.startswith("s") and prev[1:].isdigit() and int(prev[1:]) % 8:
        p8 = int(prev[1:]) + 8  # continuation of a multi-word value found at a misaligned offset
        if STACK_IMAGE[p8:p8 + len(chunk)] == chunk:
            return f"s{p8}"
    if chunk == struct.pack("<Q", s)[:len(chunk)]:
        return sentinel_name(n)
    pos = STACK_IMAGE.find(chunk) if len(chunk) >= 4 else -1
    return f"s{pos}" if pos >= 0 else "?"


def decode_probe(case, out, hint=None):
    """observed placement of every parameter / tail element: list of '+'-joined piece names.
    `hint` (the model's placement, same format) only disambiguates chunks too short to identify on
    their own: a hinted stack piece is accepted iff the stack image at that offset equals the chunk."""
    res = []
    allt = list(case["sig"]) + list(case.get("tail", []))
    for i, t in enumerate(allt):
        base = HDR + SLOT * i
        if t[0] == "rblk":
            t2, n = ("i", "i64"), 8
        else:
            t2, n = t, nbytes(t)
        pieces = []
        for w in range(0, n, 8):
            chunk = out[base + w: base + min(w + 8, n)]
            pc = decode_piece(chunk, t2, pieces[-1] if pieces else None)
            if hint is not None and i < len(hint):
                hp = hint[i].split("+")
                h = hp[w // 8] if w // 8 < len(hp) else ""
                if h != pc and re.fullmatch(r"s\d+", h) and t2[0] != "i" and len(chunk) < 8 \
                        and STACK_IMAGE[int(h[1:]):int(h[1:]) + len(chunk)] == chunk:
                    pc = h
            pieces.append(pc)
        res.append("+".join(pieces))
    return res
