"""csmith-lite for C07: typed random C programs that are UB-free BY CONSTRUCTION.

A program is a list of independent *units* (one `static void uN (void)` each, with its own globals)
plus a fixed prelude and a `main` that calls them; so a failing program shrinks to one unit by
re-assembly.  Unit kinds:

  conv    one ordered pair of integer types (all 144 pairs are cycled through): every binary operator,
          comparison and conversion on boundary values, once through `volatile` variables (run time)
          and once as an integer constant expression (compile time).  The generator evaluates the
          expression itself (C11 semantics, module-level `ceval`) and only emits operator/value
          combinations that are defined; its value is a 4th opinion next to gcc, c2m and Lean.
  cexpr   random constant-expression trees (casts, unary, binary, comparisons, && || ?:), emitted as
          static initialisers / enum constants / array bounds (compile time) and with every leaf
          replaced by a volatile variable (run time); also sent to `mirdrv_c07 cexpr`.
  bitf    a struct of named bit-fields of ONE declared type (layouts outside that are C08 findings
          #22-24), all widths and both signs: static and automatic initialisers, assignment of in- and
          out-of-range values, read back, compound assignment, ++/--; the raw storage bytes are
          printed and also predicted with the Lean model (`mirdrv_c07 bf`).
  init    nested structs/arrays/unions with designated and nested initialisers (static + automatic).
  ctrl    loops with bounded trip counts, switch (fall-through, default), goto, break/continue over
          variables of random integer types updated through safe wrappers.
  scopy   struct copies of sizes 1..64: assignment, through pointers, by-value argument and return,
          array elements, with guard bytes around the destination.
  calls   functions with up to 12 mixed integer/double parameters, implicit argument conversions,
          recursion, function pointers, and libc calling back into c2m code (qsort comparator),
          printf with many varargs.

Never generated: signed overflow, division by zero / MIN/-1, out-of-range or negative shift counts,
left shifts of negative values, uninitialised reads, aliasing through incompatible types, VLAs,
_Complex, _Atomic, _Thread_local, unbounded loops, conversions of values other than 0/1 to `_Bool`
and enumerated types as operands (known findings C07:bool-conversion, C07:enum-underlying-type are
pinned by corpus programs instead)."""

TY = {  # name: (C spelling, width, signed, rank)
    "bool": ("_Bool", 8, False, 0), "char": ("char", 8, True, 1), "schar": ("signed char", 8, True, 1),
    "uchar": ("unsigned char", 8, False, 1), "short": ("short", 16, True, 2),
    "ushort": ("unsigned short", 16, False, 2), "int": ("int", 32, True, 3), "uint": ("unsigned int", 32, False, 3),
    "long": ("long", 64, True, 4), "ulong": ("unsigned long", 64, False, 4),
    "llong": ("long long", 64, True, 5), "ullong": ("unsigned long long", 64, False, 5)}
TNAMES = list(TY)
ARITH = ["int", "uint", "long", "ulong", "llong", "ullong"]
UNS = {"int": "uint", "long": "ulong", "llong": "ullong", "uint": "uint", "ulong": "ulong", "ullong": "ullong"}
BINOPS = {"add": "+", "sub": "-", "mul": "*", "div": "/", "mod": "%", "and": "&", "or": "|", "xor": "^",
          "lsh": "<<", "rsh": ">>"}
CMPOPS = {"eq": "==", "ne": "!=", "lt": "<", "le": "<=", "gt": ">", "ge": ">="}


class UB(Exception):
    pass


def cspell(t): return TY[t][0]
def width(t): return TY[t][1]
def signed(t): return TY[t][2]
def rank(t): return TY[t][3]
def tmin(t): return -(1 << (width(t) - 1)) if signed(t) else 0
def tmax(t): return 1 if t == "bool" else ((1 << (width(t) - 1)) - 1 if signed(t) else (1 << width(t)) - 1)


def promote(t):
    if rank(t) <= 3:
        return "int" if (width(t) < 32 or (width(t) == 32 and signed(t))) else "uint"
    return t


def usual(t1, t2):
    p1, p2 = promote(t1), promote(t2)
    if p1 == p2:
        return p1
    if signed(p1) == signed(p2):
        return p2 if rank(p1) < rank(p2) else p1
    u, s = (p2, p1) if signed(p1) else (p1, p2)
    if rank(s) <= rank(u):
        return u
    if width(u) < width(s):
        return s
    return UNS[s]


def conv(t, v):
    if t == "bool":
        return 0 if v == 0 else 1
    m = 1 << width(t)
    v %= m
    if signed(t) and v >= m >> 1:
        v -= m
    return v


def fit(t, r):
    if signed(t):
        if not (tmin(t) <= r <= tmax(t)):
            raise UB()
        return r
    return r % (1 << width(t))


def tdiv(a, b):
    q = abs(a) // abs(b)
    return q if (a < 0) == (b < 0) else -q


def cbin(op, t, a, b):
    w = width(t)
    if op == "add": return fit(t, a + b)
    if op == "sub": return fit(t, a - b)
    if op == "mul": return fit(t, a * b)
    if op in ("div", "mod"):
        if b == 0: raise UB()
        if signed(t) and a == tmin(t) and b == -1: raise UB()
        q = tdiv(a, b)
        return fit(t, q if op == "div" else a - q * b)
    if op in ("and", "or", "xor"):
        m = (1 << w) - 1
        x, y = a & m, b & m
        r = x & y if op == "and" else x | y if op == "or" else x ^ y
        return conv(t, r)
    if op == "lsh":
        if b < 0 or b >= w: raise UB()
        if signed(t):
            if a < 0: raise UB()
            return fit(t, a << b)
        return (a << b) % (1 << w)
    if op == "rsh":
        if b < 0 or b >= w: raise UB()
        return a >> b           # arithmetic for negative a (gcc's definition), floor division
    raise AssertionError(op)


def ccmp(op, a, b):
    return int({"eq": a == b, "ne": a != b, "lt": a < b, "le": a <= b, "gt": a > b, "ge": a >= b}[op])


def ceval(e):
    """(type, value) of an expression tree; raises UB"""
    k = e[0]
    if k == "lit":
        return e[1], e[2]
    if k == "cast":
        _, v = ceval(e[2])
        return e[1], conv(e[1], v)
    if k == "un":
        t, v = ceval(e[2])
        p = promote(t)
        v = conv(p, v)
        if e[1] == "neg": return p, cbin("sub", p, 0, v)
        if e[1] == "bnot": return p, (-v - 1 if signed(p) else (1 << width(p)) - 1 - v)
        if e[1] == "plus": return p, v
        if e[1] == "lnot": return "int", int(v == 0)
    if k == "bin":
        t1, v1 = ceval(e[2]); t2, v2 = ceval(e[3])
        if e[1] in ("lsh", "rsh"):
            p = promote(t1)
            return p, cbin(e[1], p, conv(p, v1), conv(promote(t2), v2))
        t = usual(t1, t2)
        return t, cbin(e[1], t, conv(t, v1), conv(t, v2))
    if k == "cmp":
        t1, v1 = ceval(e[2]); t2, v2 = ceval(e[3])
        t = usual(t1, t2)
        return "int", ccmp(e[1], conv(t, v1), conv(t, v2))
    if k in ("land", "lor"):
        _, v1 = ceval(e[1]); _, v2 = ceval(e[2])
        return "int", int((v1 != 0 and v2 != 0) if k == "land" else (v1 != 0 or v2 != 0))
    if k == "cond":
        _, vc = ceval(e[1]); t1, v1 = ceval(e[2]); t2, v2 = ceval(e[3])
        t = usual(t1, t2)
        return t, conv(t, v1 if vc != 0 else v2)
    raise AssertionError(k)


def clit(t, v):
    """C constant expression of exactly type t and value v"""
    if t == "bool": return "((_Bool)%d)" % v
    if t in ("char", "schar", "uchar", "short", "ushort"):
        return "((%s)%s)" % (cspell(t), "(%d)" % v if v < 0 else str(v))
    suf = {"int": "", "uint": "u", "long": "L", "ulong": "UL", "llong": "LL", "ullong": "ULL"}[t]
    if v == tmin(t) and signed(t):
        return "(-%d%s-1)" % (tmax(t), suf)
    if v < 0: return "(-%d%s)" % (-v, suf)
    return "%d%s" % (v, suf)


def to_c(e, leaf):
    k = e[0]
    if k == "lit": return leaf(e)
    if k == "cast": return "((%s)%s)" % (cspell(e[1]), to_c(e[2], leaf))
    if k == "un": return "(%s%s)" % ({"neg": "-", "bnot": "~", "plus": "+", "lnot": "!"}[e[1]], to_c(e[2], leaf))
    if k == "bin": return "(%s %s %s)" % (to_c(e[2], leaf), BINOPS[e[1]], to_c(e[3], leaf))
    if k == "cmp": return "(%s %s %s)" % (to_c(e[2], leaf), CMPOPS[e[1]], to_c(e[3], leaf))
    if k == "land": return "(%s && %s)" % (to_c(e[1], leaf), to_c(e[2], leaf))
    if k == "lor": return "(%s || %s)" % (to_c(e[1], leaf), to_c(e[2], leaf))
    if k == "cond": return "(%s ? %s : %s)" % (to_c(e[1], leaf), to_c(e[2], leaf), to_c(e[3], leaf))


def to_lean(e):
    k = e[0]
    if k == "lit": return "L %s %d" % (e[1], e[2])
    if k == "cast": return "C %s %s" % (e[1], to_lean(e[2]))
    if k == "un": return "%s %s" % ({"neg": "N", "bnot": "T", "plus": "P", "lnot": "X"}[e[1]], to_lean(e[2]))
    if k == "bin": return "B %s %s %s" % (e[1], to_lean(e[2]), to_lean(e[3]))
    if k == "cmp": return "R %s %s %s" % (e[1], to_lean(e[2]), to_lean(e[3]))
    if k == "land": return "A %s %s" % (to_lean(e[1]), to_lean(e[2]))
    if k == "lor": return "O %s %s" % (to_lean(e[1]), to_lean(e[2]))
    if k == "cond": return "Q %s %s %s" % (to_lean(e[1]), to_lean(e[2]), to_lean(e[3]))


def leaves(e, out):
    if e[0] == "lit":
        out.append(e)
    else:
        for x in e[1:]:
            if isinstance(x, tuple):
                leaves(x, out)
    return out


PRELUDE = r"""#include <stdio.h>
#include <string.h>
#include <stdlib.h>
typedef long long ll; typedef unsigned long long ull;
static ull chk = 1469598103934665603ULL;
static void mix (ull v) { chk = (chk ^ v) * 1099511628211ULL; }
#define PS(tag, x) do { ll v_ = (ll) (x); mix ((ull) v_); printf ("%s %lld\n", tag, v_); } while (0)
#define PU(tag, x) do { ull v_ = (ull) (x); mix (v_); printf ("%s %llu\n", tag, v_); } while (0)
#define TYPEID(x) _Generic ((x), _Bool: 0, char: 1, signed char: 2, unsigned char: 3, short: 4, \
  unsigned short: 5, int: 6, unsigned int: 7, long: 8, unsigned long: 9, long long: 10, \
  unsigned long long: 11, default: 99)
#define SADD(T, UT, a, b) ((T) ((UT) (a) + (UT) (b)))
#define SSUB(T, UT, a, b) ((T) ((UT) (a) - (UT) (b)))
#define SMUL(T, UT, a, b) ((T) ((UT) (a) * (UT) (b)))
#define SDIVS(T, MIN, a, b) (((b) == 0 || ((a) == (MIN) && (b) == -1)) ? (T) (a) : (T) ((a) / (b)))
#define SMODS(T, MIN, a, b) (((b) == 0 || ((a) == (MIN) && (b) == -1)) ? (T) (a) : (T) ((a) % (b)))
#define SDIVU(T, a, b) ((b) == 0 ? (T) (a) : (T) ((a) / (b)))
#define SMODU(T, a, b) ((b) == 0 ? (T) (a) : (T) ((a) % (b)))
#define SSHL(T, UT, W, a, b) ((T) ((UT) (a) << ((b) & (W - 1))))
#define SSHR(T, W, a, b) ((T) ((a) >> ((b) & (W - 1))))
static void dump (const char *tag, const void *p, int n) {
  const unsigned char *b = (const unsigned char *) p; int i;
  printf ("%s", tag);
  for (i = 0; i < n; i++) { printf (" %02x", b[i]); mix (b[i]); }
  printf ("\n");
}
"""


class Gen:
    def __init__(self, rng, pair_base=0):
        self.r = rng
        self.pair_base = pair_base
        self.nu = 0

    # ------------------------------------------------------------------ helpers
    def val(self, t):
        r = self.r
        lo, hi = tmin(t), tmax(t)
        c = r.below(10)
        if t == "bool": return r.below(2)
        if c == 0: return lo
        if c == 1: return hi
        if c == 2: return 0
        if c == 3: return 1
        if c == 4: return -1 if signed(t) else hi - 1
        if c == 5: return lo + 1
        if c == 6: return (r.below(200) - 100) if signed(t) else r.below(200)
        if c == 7: return conv(t, 1 << r.below(width(t)))
        return conv(t, r.next())

    def uname(self):
        self.nu += 1
        return "u%d" % self.nu

    # ------------------------------------------------------------------ conv
    def unit_conv(self, pair_index):
        t1, t2 = TNAMES[pair_index // 12 % 12], TNAMES[pair_index % 12]
        name = self.uname()
        lines, expect, lean = [], {}, []
        body = []
        for rep in range(2):
            v1, v2 = self.val(t1), self.val(t2)
            a, b = "a%d" % rep, "b%d" % rep
            body.append("  volatile %s %s = %s; volatile %s %s = %s;" % (cspell(t1), a, clit(t1, v1), cspell(t2), b, clit(t2, v2)))
            l1, l2 = ("lit", t1, v1), ("lit", t2, v2)
            exprs = [("bin", o, l1, l2) for o in BINOPS] + [("cmp", o, l1, l2) for o in CMPOPS]
            exprs += [("cast", t2, l1), ("cast", t1, l2), ("un", "neg", l1), ("un", "bnot", l1), ("un", "lnot", l2),
                      ("cond", l2, l1, l2), ("land", l1, l2), ("lor", l1, l2)]
            # shift counts: make a defined variant available too
            sh = self.r.below(width(promote(t1)))
            exprs += [("bin", "lsh", l1, ("lit", "int", sh)), ("bin", "rsh", l1, ("lit", "int", sh))]
            for i, e in enumerate(exprs):
                if e[0] == "cast" and e[1] == "bool" and ceval(e[2])[1] not in (0, 1):
                    continue
                try:
                    t, v = ceval(e)
                except UB:
                    continue
                tag = "%s.%d.%d" % (name, rep, i)
                P = "PS" if signed(t) else "PU"
                rt = to_c(e, lambda l: a if l is l1 else b if l is l2 else clit(l[1], l[2]))
                ct = to_c(e, lambda l: clit(l[1], l[2]))
                body.append('  %s ("%s.r", %s); %s ("%s.c", %s);' % (P, tag, rt, P, tag, ct))
                expect[tag + ".r"] = v
                expect[tag + ".c"] = v
                if e[0] == "cmp":       # the same comparison as a branch condition (compare-and-branch insns)
                    body.append('  if (%s) PS ("%s.b", 1); else PS ("%s.b", 0);' % (rt[1:-1], tag, tag))
                    body.append('  PS ("%s.q", %s ? 7 : 9); { int n_ = 0; while (%s) { if (++n_ > 2) break; } PS ("%s.w", n_); }'
                                % (tag, rt[1:-1], rt[1:-1], tag))
                    expect[tag + ".b"] = v
                    expect[tag + ".q"] = 7 if v else 9
                    expect[tag + ".w"] = 3 if v else 0
                lean.append((tag + ".c", to_lean(e), t, v))
                pair = {promote(t1), promote(t2)}
                if e[0] in ("bin", "cond") and not (("ulong" in pair and "llong" in pair)):
                    body.append('  PS ("%s.t", TYPEID (%s) * 100 + (int) sizeof (%s));' % (tag, rt, ct))
                    expect[tag + ".t"] = TNAMES.index(t) * 100 + width(t) // 8
        text = "static void %s (void) {\n%s\n}\n" % (name, "\n".join(body))
        return {"name": name, "kind": "conv", "text": text, "expect": expect, "lean": lean, "info": "%s,%s" % (t1, t2)}

    # ------------------------------------------------------------------ cexpr
    def rexpr(self, depth):
        r = self.r
        if depth == 0 or r.chance(1, 6):
            t = r.choice(TNAMES)
            return ("lit", t, self.val(t))
        c = r.below(20)
        if c < 9: return ("bin", r.choice(list(BINOPS)), self.rexpr(depth - 1), self.rexpr(depth - 1))
        if c < 12: return ("cmp", r.choice(list(CMPOPS)), self.rexpr(depth - 1), self.rexpr(depth - 1))
        if c < 14: return ("cast", r.choice(TNAMES), self.rexpr(depth - 1))
        if c < 17: return ("un", r.choice(["neg", "bnot", "plus", "lnot"]), self.rexpr(depth - 1))
        if c < 18: return ("land", self.rexpr(depth - 1), self.rexpr(depth - 1))
        if c < 19: return ("lor", self.rexpr(depth - 1), self.rexpr(depth - 1))
        return ("cond", self.rexpr(depth - 1), self.rexpr(depth - 1), self.rexpr(depth - 1))

    def repair(self, e, depth):
        """replace UB subtrees (and bool casts of non-0/1) bottom-up so that the whole tree is defined"""
        if e[0] == "lit":
            return e
        kids = tuple(self.repair(x, depth) if isinstance(x, tuple) else x for x in e[1:])
        e = (e[0],) + kids
        for _ in range(6):
            try:
                t, v = ceval(e)
                if e[0] == "cast" and e[1] == "bool" and ceval(e[2])[1] not in (0, 1):
                    e = ("cast", self.r.choice(TNAMES[1:]), e[2])
                    continue
                return e
            except UB:
                if e[0] == "bin":
                    op = e[1]
                    if op in ("lsh", "rsh"):
                        tl, vl = ceval(e[2])
                        p = promote(tl)
                        cnt = ("lit", "int", self.r.below(width(p)))
                        if op == "lsh" and signed(p):
                            e = ("bin", op, ("cast", UNS[p], e[2]), cnt)
                        else:
                            e = ("bin", op, e[2], cnt)
                    elif op in ("div", "mod"):
                        e = ("bin", op, e[2], ("lit", "int", 1 + self.r.below(9)))
                        try:
                            ceval(e)
                        except UB:
                            e = ("bin", "and", e[2], e[3])
                    else:   # signed overflow: do it unsigned
                        t = usual(ceval(e[2])[0], ceval(e[3])[0])
                        e = ("bin", op, ("cast", UNS[t], e[2]), e[3])
                elif e[0] == "un":      # -MIN
                    t = promote(ceval(e[2])[0])
                    e = ("un", e[1], ("cast", UNS[t], e[2]))
                else:
                    break
        t = self.r.choice(ARITH)
        return ("lit", t, self.val(t))

    def unit_cexpr(self, n=6):
        name = self.uname()
        glob, body, expect, lean = [], [], {}, []
        for i in range(n):
            e = self.repair(self.rexpr(2 + self.r.below(3)), 0)
            t, v = ceval(e)
            tag = "%s.%d" % (name, i)
            P = "PS" if signed(t) else "PU"
            ct = to_c(e, lambda l: clit(l[1], l[2]))
            ls = leaves(e, [])
            vn = {}
            for j, l in enumerate(ls):
                vn[id(l)] = "%s_v%d_%d" % (name, i, j)
                glob.append("static volatile %s %s = %s;" % (cspell(l[1]), vn[id(l)], clit(l[1], l[2])))
            rt = to_c(e, lambda l: vn[id(l)])
            glob.append("static const %s %s_g%d = %s;" % (cspell(t), name, i, ct))
            body.append('  %s ("%s.c", %s); %s ("%s.g", %s_g%d); %s ("%s.r", %s);' % (P, tag, ct, P, tag, name, i, P, tag, rt))
            for s in (".c", ".g", ".r"):
                expect[tag + s] = v
            if -2 ** 31 <= v < 2 ** 31:
                glob.append("enum { %s_e%d = %s };" % (name, i, ct))
                body.append('  PS ("%s.e", %s_e%d);' % (tag, name, i))
                expect[tag + ".e"] = v
            body.append('  PS ("%s.a", (int) sizeof (char[(%s & 7) + 1]));' % (tag, ct))
            expect[tag + ".a"] = (v & 7) + 1
            body.append('  switch (%s & 3) { case (%s & 3): PS ("%s.s", 1); break; default: PS ("%s.s", 0); }' % (rt, ct, tag, tag))
            expect[tag + ".s"] = 1
            lean.append((tag + ".c", to_lean(e), t, v))
        text = "\n".join(glob) + "\nstatic void %s (void) {\n%s\n}\n" % (name, "\n".join(body))
        return {"name": name, "kind": "cexpr", "text": text, "expect": expect, "lean": lean, "info": ""}

    # ------------------------------------------------------------------ bit-fields
    def unit_bitf(self):
        r = self.r
        name = self.uname()
        bt = r.choice(["schar", "uchar", "short", "ushort", "int", "uint", "long", "ulong", "llong", "ullong", "int", "uint"])
        S = width(bt)
        nf = 2 + r.below(6)
        fields, off = [], 0
        # declared types wider than int: keep all fields on one side of the int width (a mix is the known
        # finding C07:bitfield-alias, pinned by corpus/C07/kf-bitfield-alias.c)
        lo, hi = (1, S) if S <= 32 else ((1, 31) if r.chance(1, 2) else (32, S))
        for i in range(nf):
            c = r.below(8)
            w = lo if c == 0 else hi if c == 1 else max(lo, hi - 1) if c == 2 else lo + r.below(hi - lo + 1)
            if off % S + w > S:           # does not fit: gcc starts a new unit of the declared type
                off = (off // S + 1) * S
            fields.append(("f%d" % i, w, off))
            off += w
        size = ((off + S - 1) // S) * S // 8
        sname = "struct %s_s" % name
        decl = "%s { %s };" % (sname, " ".join("%s %s:%d;" % (cspell(bt), f, w) for f, w, _ in fields))
        body, bfq = [], []
        glob = [decl]
        # static + automatic initialisers
        ivals = [conv(bt, r.next()) if r.chance(1, 2) else self.val(bt) for _ in fields]
        ivals = [conv(bt, v) for v in ivals]
        # keep initialiser values representable in the field (out-of-range constants in initialisers are
        # implementation-defined conversions too, fine, but keep some of each)
        init = ", ".join(clit(bt, v) for v in ivals)
        glob.append("static %s %s_g = { %s };" % (sname, name, init))
        body.append("  %s a = { %s }; %s z; int i;" % (sname, init, sname))
        for f, w, _ in fields:
            body.append('  PS ("%s.g.%s", %s_g.%s); PS ("%s.a.%s", a.%s);' % (name, f, name, f, name, f, f))
        body.append('  dump ("%s.gb", &%s_g, (int) sizeof (%s_g));' % (name, name, name))
        body.append('  PS ("%s.size", (int) sizeof (z));' % name)
        body.append("  memset (&z, 0, sizeof (z));")
        words = {}
        for f, w, o in fields:
            words.setdefault(o // S, 0)
        # assignments from volatile sources, in random order, some repeated
        order = [r.below(len(fields)) for _ in range(len(fields) + 3)] + list(range(len(fields)))
        for k, fi in enumerate(order):
            f, w, o = fields[fi]
            v = self.val(bt) if r.chance(1, 2) else conv(bt, r.next() >> r.below(64))
            body.append("  { volatile %s s = %s; z.%s = s; }" % (cspell(bt), clit(bt, v), f))
            bfq.append((o // S, int(signed(bt)), v % (1 << 64), o % S, w))
            if r.chance(1, 3):
                body.append('  PS ("%s.z%d.%s", z.%s);' % (name, k, f, f))
        for f, w, _ in fields:
            body.append('  PS ("%s.z.%s", z.%s);' % (name, f, f))
        body.append('  dump ("%s.zb", &z, (int) sizeof (z));' % name)
        # compound assignment / inc / dec on a few fields (values stay defined: bit-field arithmetic is done
        # in int or the declared type after promotion; wrap-around on store is implementation-defined, not UB,
        # except signed overflow of the promoted computation which cannot happen for +1/-1/small on promoted
        # values unless the field is a full-width long: use unsigned-safe forms there)
        for f, w, _ in fields:
            # the computation is done in int when the field is narrower than int (promotion): no overflow for
            # signed w <= 31 and unsigned w <= 30; unsigned fields of >= 32 bits wrap; everything else uses ^=
            if (signed(bt) and w <= 31) or (not signed(bt) and (w <= 30 or w >= 32)):
                c = r.below(5)
                st = ["z.%s += 3;", "z.%s -= 5;", "z.%s++;", "--z.%s;", "z.%s ^= 1;"][c] % f
                body.append("  " + st)
            else:
                body.append("  z.%s ^= 5;" % f)
        for f, w, _ in fields:
            body.append('  PS ("%s.y.%s", z.%s);' % (name, f, f))
        body.append('  dump ("%s.yb", &z, (int) sizeof (z));' % name)
        body.append("  for (i = 0; i < 3; i++) { z = a; a.%s = (%s) i; z.%s = a.%s; }" % (fields[0][0], cspell(bt), fields[-1][0], fields[0][0]))
        for f, w, _ in fields:
            body.append('  PS ("%s.x.%s", z.%s);' % (name, f, f))
        text = "\n".join(glob) + "\nstatic void %s (void) {\n%s\n}\n" % (name, "\n".join(body))
        return {"name": name, "kind": "bitf", "text": text, "expect": {name + ".size": size}, "lean": [],
                "bf": {"tag": name + ".zb", "S": S, "size": size, "stores": bfq}, "info": "%s x%d" % (bt, nf)}

    # ------------------------------------------------------------------ initialisers
    def agg_type(self, depth, name):
        """returns (decl text list, type spelling, tree) ; tree = ('s', [(member, sub)]) | ('a', n, sub) | ('i', ctype) | ('u', [...])"""
        r = self.r
        mems, decls = [], []
        nm = 2 + r.below(4)
        for i in range(nm):
            c = r.below(10)
            m = "m%d" % i
            if c < 5 or depth == 0:
                t = r.choice(TNAMES[1:])
                mems.append((m, ("i", t), "%s %s;" % (cspell(t), m)))
            elif c < 7:
                t = r.choice(TNAMES[1:]); n = 1 + r.below(4)
                mems.append((m, ("a", n, ("i", t)), "%s %s[%d];" % (cspell(t), m, n)))
            elif c < 9:
                d, sp, tr = self.agg_type(depth - 1, "%s_%d" % (name, i))
                decls += d
                mems.append((m, tr, "%s %s;" % (sp, m)))
            else:
                d, sp, tr = self.agg_type(depth - 1, "%s_%d" % (name, i)); n = 1 + r.below(3)
                decls += d
                mems.append((m, ("a", n, tr), "%s %s[%d];" % (sp, m, n)))
        union = depth > 0 and r.chance(1, 8)
        kw = "union" if union else "struct"
        decls.append("%s %s { %s };" % (kw, name, " ".join(x[2] for x in mems)))
        return decls, "%s %s" % (kw, name), ("u" if union else "s", [(x[0], x[1]) for x in mems])

    def agg_init(self, tr, override):
        """initialiser for the aggregate `tr`; with override=False no subobject is initialised twice
        (c2mir keeps the FIRST initialiser in static initialisers: known finding C07:static-init-override)"""
        r = self.r
        if tr[0] == "i":
            return clit(tr[1], self.val(tr[1]))
        if tr[0] == "a":
            n = tr[1]
            items, pos, need = [], 0, False
            for _ in range(n + 2):
                if pos >= n: break
                c = r.below(8)
                if c == 0:
                    pos += 1; need = True
                elif c == 1:
                    k = r.below(n) if (override and tr[2][0] == "i") else pos + r.below(n - pos)
                    items.append("[%d] = %s" % (k, self.agg_init(tr[2], override))); pos = k + 1; need = False
                else:
                    items.append(("[%d] = " % pos if need else "") + self.agg_init(tr[2], override)); pos += 1; need = False
            return "{ %s }" % ", ".join(items) if items else "{ 0 }"
        mems = tr[1]
        if tr[0] == "u":
            m, sub = mems[0]
            return ("{ .%s = %s }" if r.chance(1, 2) else "{ %.0s%s }") % (m, self.agg_init(sub, override))
        items, i, done = [], 0, set()
        while i < len(mems):
            c = r.below(15)
            if c < 5:
                j = r.below(len(mems)) if override else i + r.below(len(mems) - i)
                if j < i and mems[j][1][0] != "i":      # re-initialising a whole aggregate member: semantics debated (DR 413)
                    j = i
                if j in done and mems[j][1][0] != "i": break
                items.append(".%s = %s" % (mems[j][0], self.agg_init(mems[j][1], override))); done.add(j); i = j + 1
            elif c < 7:
                i += 1      # leave member i zero
                if i < len(mems):
                    if i in done and mems[i][1][0] != "i": break
                    items.append(".%s = %s" % (mems[i][0], self.agg_init(mems[i][1], override))); done.add(i); i += 1
            else:
                if i in done and mems[i][1][0] != "i": break
                items.append(self.agg_init(mems[i][1], override)); done.add(i); i += 1
        return "{ %s }" % ", ".join(items) if items else "{ 0 }"

    def agg_print(self, tr, path, tag, out):
        if tr[0] == "i":
            out.append('  %s ("%s", %s);' % ("PS" if signed(tr[1]) else "PU", tag, path))
        elif tr[0] == "a":
            for i in range(tr[1]):
                self.agg_print(tr[2], "%s[%d]" % (path, i), "%s[%d]" % (tag, i), out)
        elif tr[0] == "s":
            for m, sub in tr[1]:
                self.agg_print(sub, "%s.%s" % (path, m), "%s.%s" % (tag, m), out)
        else:   # union: only its first member is ever initialised
            m, sub = tr[1][0]
            self.agg_print(sub, "%s.%s" % (path, m), "%s.%s" % (tag, m), out)

    def unit_init(self):
        name = self.uname()
        decls, sp, tr = self.agg_type(2, name + "_t")
        body, glob = [], list(decls)
        for k in range(2):
            glob.append("static %s %s_g%d = %s;" % (sp, name, k, self.agg_init(tr, False)))
            self.agg_print(tr, "%s_g%d" % (name, k), "%s.g%d" % (name, k), body)
        body.insert(0, "  %s l0 = %s;\n  %s l1 = %s;\n  %s arr[2] = { [1] = %s };" % (
            sp, self.agg_init(tr, True), sp, self.agg_init(tr, True), sp, self.agg_init(tr, False)))
        self.agg_print(tr, "l0", name + ".l0", body)
        self.agg_print(tr, "l1", name + ".l1", body)
        self.agg_print(tr, "arr[0]", name + ".a0", body)
        self.agg_print(tr, "arr[1]", name + ".a1", body)
        body.append("  l0 = l1; l1 = arr[1];")
        self.agg_print(tr, "l0", name + ".c0", body)
        self.agg_print(tr, "l1", name + ".c1", body)
        body.append('  PS ("%s.size", (int) sizeof (l0));' % name)
        text = "\n".join(glob) + "\nstatic void %s (void) {\n%s\n}\n" % (name, "\n".join(body))
        return {"name": name, "kind": "init", "text": text, "expect": {}, "lean": [], "info": ""}

    # ------------------------------------------------------------------ safe expressions
    def sexpr(self, t, vars_, depth):
        """C expression of exactly type t over variables vars_ = [(name, type)], never UB"""
        r = self.r
        T = cspell(t)
        if depth == 0 or r.chance(1, 5):
            if vars_ and r.chance(3, 4):
                n, vt = r.choice(vars_)
                return "((%s) %s)" % (T, n) if t != "bool" else "(%s != 0)" % n
            return clit(t, self.val(t))
        if t == "bool":
            a = self.sexpr(r.choice(TNAMES[1:]), vars_, depth - 1)
            b = self.sexpr(r.choice(TNAMES[1:]), vars_, depth - 1)
            return "((_Bool) (%s %s %s))" % (a, r.choice(list(CMPOPS.values())), b)
        p = promote(t)
        UT = cspell(UNS[p])
        W = width(p)
        a = self.sexpr(t, vars_, depth - 1)
        c = r.below(16)
        if c < 3:
            b = self.sexpr(t, vars_, depth - 1)
            return "%s (%s, %s, %s, %s)" % (r.choice(["SADD", "SSUB", "SMUL"]), T, UT, a, b)
        if c < 5:
            if vars_:
                n, vt = r.choice(vars_)
                b = "((%s) %s)" % (T, n)
            else:
                b = clit(t, 1 + r.below(min(100, tmax(t))))
            if signed(t):
                return "%s (%s, %s, %s, %s)" % (r.choice(["SDIVS", "SMODS"]), T, clit(t, tmin(t)), a, b)
            return "%s (%s, %s, %s)" % (r.choice(["SDIVU", "SMODU"]), T, a, b)
        if c < 8:
            t2 = r.choice(TNAMES[1:])
            b = self.sexpr(t2, vars_, depth - 1)    # mixed-type bitwise: implicit usual conversions
            return "((%s) (%s %s %s))" % (T, a, r.choice(["&", "|", "^"]), b)
        if c < 10:
            t2 = r.choice(TNAMES[1:])
            b = self.sexpr(t2, vars_, depth - 1)
            if r.chance(1, 2):
                return "SSHL (%s, %s, %d, %s, %s)" % (T, UT, W, a, b)
            return "SSHR (%s, %d, %s, %s)" % (T, W, a, b)
        if c < 12:
            t2 = r.choice(TNAMES[1:])
            b = self.sexpr(t2, vars_, depth - 1)    # mixed-type comparison
            return "((%s) (%s %s %s))" % (T, a, r.choice(list(CMPOPS.values())), b)
        if c < 13:
            return "((%s) ~%s)" % (T, a)
        if c < 14:
            return "((%s) (0u - (%s) %s))" % (T, UT, a)
        if c < 15:
            b = self.sexpr(t, vars_, depth - 1)
            cnd = self.sexpr(r.choice(TNAMES[1:]), vars_, depth - 1)
            return "(%s ? %s : %s)" % (cnd, a, b)
        t2 = r.choice(TNAMES[1:])
        return "((%s) %s)" % (T, self.sexpr(t2, vars_, depth - 1))    # explicit conversion chain

    # ------------------------------------------------------------------ control flow
    def unit_ctrl(self):
        r = self.r
        name = self.uname()
        nv = 3 + r.below(4)
        vars_ = [("x%d" % i, r.choice(TNAMES[1:])) for i in range(nv)]
        body = ["  %s %s = %s;" % (cspell(t), n, clit(t, self.val(t))) for n, t in vars_]
        body.append("  int i0 = 0, i1 = 0, i2 = 0, i3 = 0, j, k = 0, g = 0;")
        lab = [0]

        def assign(ind):
            n, t = r.choice(vars_)
            e = self.sexpr(t, vars_, 2)
            if e == "((%s) %s)" % (cspell(t), n):       # `x = (T) x` in a loop: known generator crash (C07:engines-disagree:gen-opt:crash)
                e = "SADD (%s, %s, %s, %s)" % (cspell(t), cspell(UNS[promote(t)]), n, clit(t, 1))
            return "%s%s = %s;" % (ind, n, e)

        def stmts(ind, depth, in_loop):
            out = []
            for _ in range(1 + r.below(3)):
                c = r.below(12)
                if c < 4 or depth == 0:
                    out.append(assign(ind))
                elif c < 6:
                    n = 1 + r.below(6)
                    out.append("%sfor (i%d = 0; i%d < %d; i%d++) {" % (ind, depth, depth, n, depth))
                    out += stmts(ind + "  ", depth - 1, True)
                    out.append("%s}" % ind)
                elif c < 7:
                    n = 1 + r.below(5)
                    out.append("%sj = %d; while (j-- > 0) {" % (ind, n))
                    out += stmts(ind + "  ", 0, True)
                    out.append("%s}" % ind)
                elif c < 9:
                    nvar, t = r.choice(vars_)
                    out.append("%sswitch ((int) (%s & 7)) {" % (ind, nvar))
                    used = set()
                    for _ in range(1 + r.below(4)):
                        cv = r.below(8)
                        if cv in used: continue
                        used.add(cv)
                        out.append("%scase %d:" % (ind, cv))
                        out.append(assign(ind + "  "))
                        if r.chance(2, 3): out.append("%s  break;" % ind)
                    if r.chance(1, 2):
                        out.append("%sdefault:" % ind); out.append(assign(ind + "  "))
                    out.append("%s}" % ind)
                elif c < 10:
                    lab[0] += 1
                    L = "L%d" % lab[0]
                    out.append("%sg = 0;" % ind)
                    out.append("%s%s: g++;" % (ind, L))
                    out.append(assign(ind))
                    out.append("%sif (g < %d) goto %s;" % (ind, 1 + r.below(4), L))
                elif c < 11:
                    cnd = self.sexpr(r.choice(TNAMES), vars_, 2)
                    out.append("%sif (%s) {" % (ind, cnd))
                    out += stmts(ind + "  ", depth - 1, in_loop)
                    out.append("%s} else {" % ind)
                    out.append(assign(ind + "  "))
                    out.append("%s}" % ind)
                else:
                    if in_loop:
                        out.append("%sif (%s) %s;" % (ind, self.sexpr("bool", vars_, 1), r.choice(["break", "continue"])))
                    else:
                        lab[0] += 1
                        L = "F%d" % lab[0]
                        out.append("%sif (%s) goto %s;" % (ind, self.sexpr("bool", vars_, 1), L))
                        out.append(assign(ind))
                        out.append("%s%s: k++;" % (ind, L))
            return out

        body += stmts("  ", 3, False)
        for n, t in vars_:
            body.append('  %s ("%s.%s", %s);' % ("PS" if signed(t) else "PU", name, n, n))
        body.append('  PS ("%s.k", k);' % name)
        text = "static void %s (void) {\n%s\n}\n" % (name, "\n".join(body))
        return {"name": name, "kind": "ctrl", "text": text, "expect": {}, "lean": [], "info": ""}

    # ------------------------------------------------------------------ struct copies
    def unit_scopy(self, sizes):
        r = self.r
        name = self.uname()
        glob, body = [], ["  int i;"]
        for n in sizes:
            s = "%s_s%d" % (name, n)
            # a struct of exactly n bytes: chars, or short/int/long members when n allows, keeping size == n
            c = r.below(4)
            if c == 1 and n % 2 == 0:
                mem = "unsigned short h[%d];" % (n // 2)
            elif c == 2 and n % 4 == 0:
                mem = "unsigned int w[%d];" % (n // 4)
            elif c == 3 and n % 8 == 0:
                mem = "unsigned long d[%d];" % (n // 8)
            else:
                mem = "unsigned char b[%d];" % n
            glob.append("struct %s { %s };" % (s, mem))
            glob.append("struct %s_box { unsigned char pre[8]; struct %s v; unsigned char post[8]; };" % (s, s))
            glob.append("static struct %s %s_mk (int seed) { struct %s r; unsigned char *p = (unsigned char *) &r; int i;"
                        " for (i = 0; i < %d; i++) p[i] = (unsigned char) (seed * 31 + i * 7 + 1); return r; }" % (s, s, s, n))
            glob.append("static struct %s %s_id (struct %s a, int k, struct %s b) { return k ? a : b; }" % (s, s, s, s))
            glob.append("static struct %s_box %s_gb;" % (s, s))
            body.append("  { struct %s_box x, y[2]; struct %s t = %s_mk (%d), *p = &x.v, *q = &t;" % (s, s, s, r.below(100)))
            body.append("    memset (&x, 0x5a, sizeof (x)); memset (y, 0xa5, sizeof (y)); memset (&%s_gb, 0x3c, sizeof (%s_gb));" % (s, s))
            body.append("    x.v = t; dump (\"%s.%d.a\", &x, (int) sizeof (x));" % (name, n))
            body.append("    y[1].v = x.v; *p = %s_mk (%d); y[0].v = *p; dump (\"%s.%d.b\", y, (int) sizeof (y));" % (s, r.below(100), name, n))
            body.append("    %s_gb.v = %s_id (y[1].v, %d, *q); dump (\"%s.%d.c\", &%s_gb, (int) sizeof (%s_gb));" % (s, s, r.below(2), name, n, s, s))
            body.append("    for (i = 0; i < 2; i++) y[i].v = %s_id (*q, i, x.v); dump (\"%s.%d.d\", y, (int) sizeof (y));" % (s, name, n))
            body.append('    PS ("%s.%d.size", (int) sizeof (struct %s)); }' % (name, n, s))
        text = "\n".join(glob) + "\nstatic void %s (void) {\n%s\n}\n" % (name, "\n".join(body))
        return {"name": name, "kind": "scopy", "text": text, "expect": {}, "lean": [], "info": ",".join(map(str, sizes))}

    # ------------------------------------------------------------------ calls
    def unit_calls(self):
        r = self.r
        name = self.uname()
        glob, body = [], []
        nf = 2 + r.below(3)
        funcs = []
        for k in range(nf):
            np_ = 1 + r.below(12)
            ps = [("p%d" % i, r.choice(TNAMES[1:] + ["double"] * 2)) for i in range(np_)]
            rt = r.choice(TNAMES[1:])
            ivars = [(n, t) for n, t in ps if t != "double"]
            dvars = [n for n, t in ps if t == "double"]
            fn = "%s_f%d" % (name, k)
            sig = ", ".join("%s %s" % ("double" if t == "double" else cspell(t), n) for n, t in ps)
            fb = ["  %s acc = %s;" % (cspell(rt), self.sexpr(rt, ivars, 2))]
            for _ in range(1 + r.below(3)):
                fb.append("  acc = %s;" % self.sexpr(rt, ivars + [("acc", rt)], 2))
            for d in dvars:
                fb.append("  acc = (%s) (acc ^ (%s) (long) (%s * 4.0));" % (cspell(rt), cspell(rt), d))
            callee = funcs[r.below(len(funcs))] if funcs and r.chance(1, 2) else None
            if callee:
                cfn, cps, crt = callee
                args = ", ".join("%d.5" % r.below(50) if t == "double" else self.sexpr(r.choice(TNAMES[1:]), ivars, 1) for _, t in cps)
                fb.append("  acc = (%s) (acc ^ (%s) %s (%s));" % (cspell(rt), cspell(rt), cfn, args))
            fb.append("  return acc;")
            glob.append("static %s %s (%s) {\n%s\n}" % (cspell(rt), fn, sig, "\n".join(fb)))
            funcs.append((fn, ps, rt))
        # recursion + function pointer
        glob.append("static unsigned %s_rec (unsigned n, unsigned a) { return n == 0 ? a : %s_rec (n - 1, a * 3u + n); }" % (name, name))
        glob.append("static int %s_cmp (const void *a, const void *b) { int x = *(const int *) a, y = *(const int *) b; return (x > y) - (x < y); }" % name)
        for fn, ps, rt in funcs:
            for _ in range(2):
                # arguments of arbitrary integer types: implicit conversion to the parameter type
                args = []
                for _, t in ps:
                    if t == "double":
                        args.append("%d.25" % (r.below(200) - 100))
                    else:
                        at = r.choice(TNAMES[1:])
                        args.append(clit(at, self.val(at)))
                body.append('  %s ("%s", %s (%s));' % ("PS" if signed(rt) else "PU", fn, fn, ", ".join(args)))
        fn0, ps0, rt0 = funcs[0]
        body.append("  { %s (*fp) (%s) = %s; %s (\"%s.fp\", fp (%s)); }" % (
            cspell(rt0), ", ".join("double" if t == "double" else cspell(t) for _, t in ps0), fn0,
            "PS" if signed(rt0) else "PU", name, ", ".join("1.5" if t == "double" else "1" for _, t in ps0)))
        body.append('  PU ("%s.rec", %s_rec (%du, %du));' % (name, name, 1 + r.below(30), r.below(1000)))
        arr = [r.below(2000) - 1000 for _ in range(4 + r.below(12))]
        body.append("  { int a[%d] = { %s }; int i; qsort (a, %d, sizeof (int), %s_cmp); for (i = 0; i < %d; i++) PS (\"%s.q\", a[i]); }" % (
            len(arr), ", ".join(map(str, arr)), len(arr), name, len(arr), name))
        vs = [(t, self.val(t)) for t in [r.choice(["int", "uint", "long", "ulong", "llong", "ullong"]) for _ in range(10)]]
        fmt = " ".join({"int": "%d", "uint": "%u", "long": "%ld", "ulong": "%lu", "llong": "%lld", "ullong": "%llu"}[t] for t, _ in vs)
        body.append('  { char buf[400]; snprintf (buf, sizeof (buf), "%s %%s %%c %%.3f", %s, "s", \'c\', %d.125); printf ("%s.pf %%s\\n", buf); }' % (
            fmt, ", ".join(clit(t, v) for t, v in vs), r.below(100), name))
        text = "\n".join(glob) + "\nstatic void %s (void) {\n%s\n}\n" % (name, "\n".join(body))
        return {"name": name, "kind": "calls", "text": text, "expect": {}, "lean": [], "info": ""}


def assemble(units):
    src = [PRELUDE]
    for u in units:
        src.append(u["text"])
    src.append("int main (void) {")
    for u in units:
        src.append("  %s ();" % u["name"])
    src.append('  printf ("chk %llu\\n", chk);\n  return (int) (chk & 63);\n}')
    return "\n".join(src) + "\n"


def gen_program(rng, index, pair_cursor):
    """one program: a mix of units; `pair_cursor` walks through the 144 type pairs"""
    g = Gen(rng)
    kinds = [["conv", "conv", "cexpr", "ctrl"], ["bitf", "bitf", "init", "cexpr"], ["scopy", "calls", "ctrl", "conv"],
             ["conv", "bitf", "calls", "init"]][index % 4]
    units = []
    for k in kinds:
        if k == "conv":
            units.append(g.unit_conv(pair_cursor[0])); pair_cursor[0] += 1
        elif k == "cexpr": units.append(g.unit_cexpr())
        elif k == "bitf": units.append(g.unit_bitf())
        elif k == "init": units.append(g.unit_init())
        elif k == "ctrl": units.append(g.unit_ctrl())
        elif k == "scopy":
            base = (index // 4 * 8) % 64
            units.append(g.unit_scopy([base + i + 1 for i in range(8)]))
        elif k == "calls": units.append(g.unit_calls())
    return units
