"""csmith-lite for C07: typed random C programs that are UB-free BY CONSTRUCTION.

A program is a list of independent *units* (one `static void uN (void)` each, with its own globals)
plus a fixed prelude and a `main` that calls them; so a failing program shrinks to one unit by
re-assembly.  Unit kinds:

  conv    one ordered pair of integer types (all 144 pairs are cycled through): every binary operator,
          comparison and conversion on boundary values, once through `volatile` variables (run time)
          and once as an integer constant expression (compile time).  The generator evaluates the
          expression itself (C11 semantics, module-level `ceval`) and only emits operator/value
          combinations that are defined; its value is a 4th opinion next to gcc, c2m and Lean.
  cexpr   random constant-expression trees (casts, unary, binary, comparisons, && || ?:), emitted as
          static initialisers / enum constants / array bounds (compile time) and with every leaf
          replaced by a volatile variable (run time); also sent to `mirdrv_c07 cexpr`.
  bitf    a struct of named bit-fields of ONE declared type (layouts outside that are C08 findings
          #22-24), all widths and both signs: static and automatic initialisers, assignment of in- and
          out-of-range values, read back, compound assignment, ++/--; the raw storage bytes are
          printed and also predicted with the Lean model (`mirdrv_c07 bf`).
  init    nested structs/arrays/unions with designated and nested initialisers (static + automatic).
  ctrl    loops with bounded trip counts, switch (fall-through, default), goto, break/continue over
          variables of random integer types updated through safe wrappers.
  scopy   struct copies of sizes 1..64: assignment, through pointers, by-value argument and return,
          array elements, with guard bytes around the destination.
  calls   functions with up to 12 mixed integer/double parameters, implicit argument conversions,
          recursion, function pointers, and libc calling back into c2m code (qsort comparator),
          printf with many varargs.

  saddr   struct assignment between every pair of addressing shapes of destination and source
          (*p, p[i], p[C], *(p+i), p[i+C], *(p+C), p[j] for bases p and q, where q aliases p's array, is
          p itself, or is another array; plus locals, globals, members s.m, pw->m, wa[i].m, pw->a[i],
          function results, ?:, comma and chained assignments), sizes around the byte-loop/memcpy and
          index-scale thresholds (1..9, 12..17, 31..33, 63..65, 127..129, 255..257, 300, 1000); the
          arrays are refilled before and hashed after every statement.
  bfp     bit-field promotion: fields of width 1, 2, 7, 8, 15, 16, 31, 32, 33, base-1, base for every declared type,
          values at and above the sign boundary, used directly in / % >> comparisons, conversions to wider
          integers and double, arguments; for int / unsigned fields also the promoted type itself.
  sret    struct results (hidden address, two registers, one register) with several of them alive in one full
          expression: arguments of another call, ?:, comma, `.member` of a result, nested.
  pun     an object of every scalar type (integers, float, double, pointer) written through its own type,
          modified through a char / signed char / unsigned char lvalue (also memcpy and union members) and
          read back - and the reverse orders - as pointer parameters that may or may not alias, parameters
          and locals whose address is taken, struct members, array elements and globals.
  sw      switch over every integer type: dense (jump table) and sparse (compare chain) case sets at 0,
          2^7, 2^8, 2^15, 2^16, 2^31, 2^32, 2^32+k, 2^63, type min/max and negative values, default
          present / absent / in the middle, fall-through, nested; run-time values are every case constant,
          its neighbours and values with the same low 32, 16, 8 bits.
  ncast   narrowing casts whose result is consumed DIRECTLY (no store to an object of the target type): one
          source type per unit (float, double, long double and the integer types, cycled) to every target
          narrower than long (signed/unsigned char, char, short, unsigned short, int, unsigned), values
          at and around the target's sign boundary and range ends (2^(w-1)-1, 2^(w-1), 2^w-1, with
          fractional parts for floating sources; wrapped values for integer sources), run-time
          (volatile) and constant; the result feeds wider assignments, + * >> / - ~, comparisons, ?:
          arms and conditions, &&, wider parameters, variadic arguments (printf / sprintf), switch,
          array index and pointer arithmetic, floating arithmetic.
  fcexpr  constant folding across integer AND floating types: ?: && || ! comparisons casts unary and
          binary arithmetic with every mix of integer / float / double / long double operands, kept
          exact (dyadic values, results representable in the operation's type) so that evaluation
          precision cannot matter; emitted as ordinary constant expression, static initialiser of the
          result type and of double / float / long long (converting initialisers), with all leaves
          volatile (run time), with a random half of the leaves volatile (selected arm constant or
          not), with a comma operator, and - for strictly conforming integer constant expressions
          whose floating constants are immediate cast operands - as array bound, case label and
          enumeration constant.  The generator's exact evaluation (fractions) is the 4th opinion.

Never generated: signed overflow, division by zero / MIN/-1, out-of-range or negative shift counts,
left shifts of negative values, uninitialised reads, aliasing through incompatible types, VLAs,
_Complex, _Atomic, _Thread_local, unbounded loops, inexact floating arithmetic, out-of-range
floating-to-integer conversions, and conversions of values other than 0/1 to `_Bool` (known finding
C07:bool-conversion, pinned by a corpus program instead)."""
import re

# signatures of known findings that still reproduce on the tree under test (filled by the check from the corpus
# replays): the generator stays clear of exactly those constructs, and covers them again as soon as they are repaired
AVOID = set()

TY = {  # name: (C spelling, width, signed, rank)
    "bool": ("_Bool", 8, False, 0), "char": ("char", 8, True, 1), "schar": ("signed char", 8, True, 1),
    "uchar": ("unsigned char", 8, False, 1), "short": ("short", 16, True, 2),
    "ushort": ("unsigned short", 16, False, 2), "int": ("int", 32, True, 3), "uint": ("unsigned int", 32, False, 3),
    "long": ("long", 64, True, 4), "ulong": ("unsigned long", 64, False, 4),
    "llong": ("long long", 64, True, 5), "ullong": ("unsigned long long", 64, False, 5)}
TNAMES = list(TY)
ARITH = ["int", "uint", "long", "ulong", "llong", "ullong"]
UNS = {"int": "uint", "long": "ulong", "llong": "ullong", "uint": "uint", "ulong": "ulong", "ullong": "ullong"}
BINOPS = {"add": "+", "sub": "-", "mul": "*", "div": "/", "mod": "%", "and": "&", "or": "|", "xor": "^",
          "lsh": "<<", "rsh": ">>"}
CMPOPS = {"eq": "==", "ne": "!=", "lt": "<", "le": "<=", "gt": ">", "ge": ">="}


class UB(Exception):
    pass


def cspell(t): return TY[t][0]
def width(t): return TY[t][1]
def signed(t): return TY[t][2]
def rank(t): return TY[t][3]
def tmin(t): return -(1 << (width(t) - 1)) if signed(t) else 0
def tmax(t): return 1 if t == "bool" else ((1 << (width(t) - 1)) - 1 if signed(t) else (1 << width(t)) - 1)


def promote(t):
    if rank(t) <= 3:
        return "int" if (width(t) < 32 or (width(t) == 32 and signed(t))) else "uint"
    return t


def usual(t1, t2):
    p1, p2 = promote(t1), promote(t2)
    if p1 == p2:
        return p1
    if signed(p1) == signed(p2):
        return p2 if rank(p1) < rank(p2) else p1
    u, s = (p2, p1) if signed(p1) else (p1, p2)
    if rank(s) <= rank(u):
        return u
    if width(u) < width(s):
        return s
    return UNS[s]


def conv(t, v):
    if t == "bool":
        return 0 if v == 0 else 1
    m = 1 << width(t)
    v %= m
    if signed(t) and v >= m >> 1:
        v -= m
    return v


def fit(t, r):
    if signed(t):
        if not (tmin(t) <= r <= tmax(t)):
            raise UB()
        return r
    return r % (1 << width(t))


def tdiv(a, b):
    q = abs(a) // abs(b)
    return q if (a < 0) == (b < 0) else -q


def cbin(op, t, a, b):
    w = width(t)
    if op == "add": return fit(t, a + b)
    if op == "sub": return fit(t, a - b)
    if op == "mul": return fit(t, a * b)
    if op in ("div", "mod"):
        if b == 0: raise UB()
        if signed(t) and a == tmin(t) and b == -1: raise UB()
        q = tdiv(a, b)
        return fit(t, q if op == "div" else a - q * b)
    if op in ("and", "or", "xor"):
        m = (1 << w) - 1
        x, y = a & m, b & m
        r = x & y if op == "and" else x | y if op == "or" else x ^ y
        return conv(t, r)
    if op == "lsh":
        if b < 0 or b >= w: raise UB()
        if signed(t):
            if a < 0: raise UB()
            return fit(t, a << b)
        return (a << b) % (1 << w)
    if op == "rsh":
        if b < 0 or b >= w: raise UB()
        return a >> b           # arithmetic for negative a (gcc's definition), floor division
    raise AssertionError(op)


def ccmp(op, a, b):
    return int({"eq": a == b, "ne": a != b, "lt": a < b, "le": a <= b, "gt": a > b, "ge": a >= b}[op])


def ceval(e):
    """(type, value) of an expression tree; raises UB"""
    k = e[0]
    if k == "lit":
        return e[1], e[2]
    if k == "cast":
        _, v = ceval(e[2])
        return e[1], conv(e[1], v)
    if k == "un":
        t, v = ceval(e[2])
        p = promote(t)
        v = conv(p, v)
        if e[1] == "neg": return p, cbin("sub", p, 0, v)
        if e[1] == "bnot": return p, (-v - 1 if signed(p) else (1 << width(p)) - 1 - v)
        if e[1] == "plus": return p, v
        if e[1] == "lnot": return "int", int(v == 0)
    if k == "bin":
        t1, v1 = ceval(e[2]); t2, v2 = ceval(e[3])
        if e[1] in ("lsh", "rsh"):
            p = promote(t1)
            return p, cbin(e[1], p, conv(p, v1), conv(promote(t2), v2))
        t = usual(t1, t2)
        return t, cbin(e[1], t, conv(t, v1), conv(t, v2))
    if k == "cmp":
        t1, v1 = ceval(e[2]); t2, v2 = ceval(e[3])
        t = usual(t1, t2)
        return "int", ccmp(e[1], conv(t, v1), conv(t, v2))
    if k in ("land", "lor"):
        _, v1 = ceval(e[1]); _, v2 = ceval(e[2])
        return "int", int((v1 != 0 and v2 != 0) if k == "land" else (v1 != 0 or v2 != 0))
    if k == "cond":
        _, vc = ceval(e[1]); t1, v1 = ceval(e[2]); t2, v2 = ceval(e[3])
        t = usual(t1, t2)
        return t, conv(t, v1 if vc != 0 else v2)
    raise AssertionError(k)


def clit(t, v):
    """C constant expression of exactly type t and value v"""
    if t == "bool": return "((_Bool)%d)" % v
    if t in ("char", "schar", "uchar", "short", "ushort"):
        return "((%s)%s)" % (cspell(t), "(%d)" % v if v < 0 else str(v))
    suf = {"int": "", "uint": "u", "long": "L", "ulong": "UL", "llong": "LL", "ullong": "ULL"}[t]
    if v == tmin(t) and signed(t):
        return "(-%d%s-1)" % (tmax(t), suf)
    if v < 0: return "(-%d%s)" % (-v, suf)
    return "%d%s" % (v, suf)


def to_c(e, leaf):
    k = e[0]
    if k == "lit": return leaf(e)
    if k == "cast": return "((%s)%s)" % (cspell(e[1]), to_c(e[2], leaf))
    if k == "un": return "(%s%s)" % ({"neg": "-", "bnot": "~", "plus": "+", "lnot": "!"}[e[1]], to_c(e[2], leaf))
    if k == "bin": return "(%s %s %s)" % (to_c(e[2], leaf), BINOPS[e[1]], to_c(e[3], leaf))
    if k == "cmp": return "(%s %s %s)" % (to_c(e[2], leaf), CMPOPS[e[1]], to_c(e[3], leaf))
    if k == "land": return "(%s && %s)" % (to_c(e[1], leaf), to_c(e[2], leaf))
    if k == "lor": return "(%s || %s)" % (to_c(e[1], leaf), to_c(e[2], leaf))
    if k == "cond": return "(%s ? %s : %s)" % (to_c(e[1], leaf), to_c(e[2], leaf), to_c(e[3], leaf))


def to_lean(e):
    k = e[0]
    if k == "lit": return "L %s %d" % (e[1], e[2])
    if k == "cast": return "C %s %s" % (e[1], to_lean(e[2]))
    if k == "un": return "%s %s" % ({"neg": "N", "bnot": "T", "plus": "P", "lnot": "X"}[e[1]], to_lean(e[2]))
    if k == "bin": return "B %s %s %s" % (e[1], to_lean(e[2]), to_lean(e[3]))
    if k == "cmp": return "R %s %s %s" % (e[1], to_lean(e[2]), to_lean(e[3]))
    if k == "land": return "A %s %s" % (to_lean(e[1]), to_lean(e[2]))
    if k == "lor": return "O %s %s" % (to_lean(e[1]), to_lean(e[2]))
    if k == "cond": return "Q %s %s %s" % (to_lean(e[1]), to_lean(e[2]), to_lean(e[3]))


def leaves(e, out):
    if e[0] == "lit":
        out.append(e)
    else:
        for x in e[1:]:
            if isinstance(x, tuple):
                leaves(x, out)
    return out



# ---------------------------------------------------------------------------------------------- integer + floating evaluator
from fractions import Fraction
FT = {"float": ("float", 24, 1), "double": ("double", 53, 2), "ldouble": ("long double", 53, 3)}   # (spelling, exact bits kept, rank)
FNAMES = list(FT)


class Inexact(Exception):
    pass


def isf(t): return t in FT
def xspell(t): return FT[t][0] if isf(t) else cspell(t)


def representable(v, t):
    v = Fraction(v)
    if v == 0: return True
    d = v.denominator
    if d & (d - 1): return False
    n = abs(v.numerator)
    while n % 2 == 0: n //= 2
    return n.bit_length() <= FT[t][1] and d.bit_length() < 60 and abs(v) < 2 ** 60


def round_to(v, bits):
    """v rounded to a binary floating value with `bits` significant bits, ties to even (normal range only)"""
    v = Fraction(v)
    if v == 0: return v
    sg, a = (1 if v > 0 else -1), abs(v)
    e = a.numerator.bit_length() - a.denominator.bit_length()
    if Fraction(2) ** e > a: e -= 1
    scale = Fraction(2) ** (e - bits + 1)
    q = a / scale
    n = q.numerator // q.denominator
    rem = q - n
    if rem > Fraction(1, 2) or (rem == Fraction(1, 2) and n % 2 == 1): n += 1
    return sg * n * scale


def fusual(t1, t2):
    if isf(t1) or isf(t2):
        c = [t for t in (t1, t2) if isf(t)]
        return max(c, key=lambda t: FT[t][2])
    return usual(t1, t2)


def fconv(t, t0, v):
    """value v of type t0 converted to type t; raises UB / Inexact"""
    if isf(t):
        if not representable(v, t): raise Inexact()
        return Fraction(v)
    if isf(t0):
        if t == "bool": raise Inexact()              # floating -> _Bool: known finding C07:bool-conversion
        i = int(v)                                    # truncation toward zero
        if not (tmin(t) <= i <= tmax(t)): raise UB()
        return i
    if t == "bool" and v not in (0, 1): raise Inexact()
    return conv(t, int(v))


def feval(e):
    k = e[0]
    if k == "lit":
        return e[1], (Fraction(e[2]) if isf(e[1]) else e[2])
    if k == "cast":
        t0, v = feval(e[2])
        return e[1], fconv(e[1], t0, v)
    if k == "un":
        t, v = feval(e[2])
        if e[1] == "lnot": return "int", int(v == 0)
        if isf(t):
            if e[1] == "bnot": raise Inexact()
            return t, (-v if e[1] == "neg" else v)
        return ceval(("un", e[1], ("lit", t, v)))
    if k == "bin":
        t1, v1 = feval(e[2]); t2, v2 = feval(e[3])
        op = e[1]
        if isf(t1) or isf(t2):
            if op not in ("add", "sub", "mul", "div"): raise Inexact()
            t = fusual(t1, t2)
            a, b = fconv(t, t1, v1), fconv(t, t2, v2)
            if op == "div":
                if b == 0 or abs(b).numerator != 1 and abs(b).denominator != 1: raise Inexact()
                r = a / b
            else:
                r = a + b if op == "add" else a - b if op == "sub" else a * b
            if not representable(r, t): raise Inexact()
            return t, r
        return ceval(("bin", op, ("lit", t1, v1), ("lit", t2, v2)))
    if k == "cmp":
        t1, v1 = feval(e[2]); t2, v2 = feval(e[3])
        t = fusual(t1, t2)
        return "int", ccmp(e[1], fconv(t, t1, v1), fconv(t, t2, v2))
    if k in ("land", "lor"):
        _, v1 = feval(e[1]); _, v2 = feval(e[2])
        return "int", int((v1 != 0 and v2 != 0) if k == "land" else (v1 != 0 or v2 != 0))
    if k == "cond":
        _, vc = feval(e[1]); t1, v1 = feval(e[2]); t2, v2 = feval(e[3])
        t = fusual(t1, t2)
        return t, (fconv(t, t1, v1) if vc != 0 else fconv(t, t2, v2))
    if k == "comma":
        feval(e[1])
        return feval(e[2])
    raise AssertionError(k)


def flit(t, v):
    if not isf(t): return clit(t, v)
    v = Fraction(v)
    m = v.denominator.bit_length() - 1
    digits = abs(v.numerator) * 5 ** m
    txt = str(digits).rjust(m + 1, "0")
    txt = (txt[:-m] + "." + txt[-m:]) if m else txt + ".0"
    txt += {"float": "f", "double": "", "ldouble": "L"}[t]
    return "(-%s)" % txt if v < 0 else txt


def to_cx(e, leaf):
    """C text of an integer/floating tree"""
    k = e[0]
    if k == "lit": return leaf(e)
    if k == "cast": return "((%s)%s)" % (xspell(e[1]), to_cx(e[2], leaf))
    if k == "un": return "(%s%s)" % ({"neg": "-", "bnot": "~", "plus": "+", "lnot": "!"}[e[1]], to_cx(e[2], leaf))
    if k == "bin": return "(%s %s %s)" % (to_cx(e[2], leaf), BINOPS[e[1]], to_cx(e[3], leaf))
    if k == "cmp": return "(%s %s %s)" % (to_cx(e[2], leaf), CMPOPS[e[1]], to_cx(e[3], leaf))
    if k == "land": return "(%s && %s)" % (to_cx(e[1], leaf), to_cx(e[2], leaf))
    if k == "lor": return "(%s || %s)" % (to_cx(e[1], leaf), to_cx(e[2], leaf))
    if k == "cond": return "(%s ? %s : %s)" % (to_cx(e[1], leaf), to_cx(e[2], leaf), to_cx(e[3], leaf))
    if k == "comma": return "(%s , %s)" % (to_cx(e[1], leaf), to_cx(e[2], leaf))


PRELUDE = r"""#include <stdio.h>
#include <string.h>
#include <stdlib.h>
typedef long long ll; typedef unsigned long long ull;
static ull chk = 1469598103934665603ULL;
static void mix (ull v) { chk = (chk ^ v) * 1099511628211ULL; }
#define PS(tag, x) do { ll v_ = (ll) (x); mix ((ull) v_); printf ("%s %lld\n", tag, v_); } while (0)
#define PU(tag, x) do { ull v_ = (ull) (x); mix (v_); printf ("%s %llu\n", tag, v_); } while (0)
#define PF(tag, x) do { long double v_ = (long double) (x); mix ((ull) (ll) (v_ > 1e15L || v_ < -1e15L ? v_ / 1048576.0L : v_ * 64.0L)); printf ("%s %La\n", tag, v_); } while (0)
#define TYPEID(x) _Generic ((x), _Bool: 0, char: 1, signed char: 2, unsigned char: 3, short: 4, \
  unsigned short: 5, int: 6, unsigned int: 7, long: 8, unsigned long: 9, long long: 10, \
  unsigned long long: 11, default: 99)
#define SADD(T, UT, a, b) ((T) ((UT) (a) + (UT) (b)))
#define SSUB(T, UT, a, b) ((T) ((UT) (a) - (UT) (b)))
#define SMUL(T, UT, a, b) ((T) ((UT) (a) * (UT) (b)))
#define SDIVS(T, MIN, a, b) (((b) == 0 || ((a) == (MIN) && (b) == -1)) ? (T) (a) : (T) ((a) / (b)))
#define SMODS(T, MIN, a, b) (((b) == 0 || ((a) == (MIN) && (b) == -1)) ? (T) (a) : (T) ((a) % (b)))
#define SDIVU(T, a, b) ((b) == 0 ? (T) (a) : (T) ((a) / (b)))
#define SMODU(T, a, b) ((b) == 0 ? (T) (a) : (T) ((a) % (b)))
#define SSHL(T, UT, W, a, b) ((T) ((UT) (a) << ((b) & (W - 1))))
#define SSHR(T, W, a, b) ((T) ((a) >> ((b) & (W - 1))))
static ll wid_ (ll x) { return x; }
static ull uwid_ (ull x) { return x; }
static double dwid_ (double x) { return x; }
static unsigned char big_[3 * 65536]; static int big_ready_;
static unsigned char *mid_ (void) { int i; if (!big_ready_) { for (i = 0; i < 3 * 65536; i++) big_[i] = (unsigned char) (i * 7 + 3); big_ready_ = 1; } return big_ + 65536; }
static void dump (const char *tag, const void *p, int n) {
  const unsigned char *b = (const unsigned char *) p; int i;
  printf ("%s", tag);
  for (i = 0; i < n; i++) { printf (" %02x", b[i]); mix (b[i]); }
  printf ("\n");
}
"""


class Gen:
    def __init__(self, rng, pair_base=0):
        self.r = rng
        self.pair_base = pair_base
        self.nu = 0

    # ------------------------------------------------------------------ helpers
    def val(self, t):
        r = self.r
        lo, hi = tmin(t), tmax(t)
        c = r.below(10)
        if t == "bool": return r.below(2)
        if c == 0: return lo
        if c == 1: return hi
        if c == 2: return 0
        if c == 3: return 1
        if c == 4: return -1 if signed(t) else hi - 1
        if c == 5: return lo + 1
        if c == 6: return (r.below(200) - 100) if signed(t) else r.below(200)
        if c == 7: return conv(t, 1 << r.below(width(t)))
        return conv(t, r.next())

    def uname(self):
        self.nu += 1
        return "u%d" % self.nu

    # ------------------------------------------------------------------ conv
    def unit_conv(self, pair_index):
        t1, t2 = TNAMES[pair_index // 12 % 12], TNAMES[pair_index % 12]
        name = self.uname()
        lines, expect, lean = [], {}, []
        body = []
        for rep in range(2):
            v1, v2 = self.val(t1), self.val(t2)
            a, b = "a%d" % rep, "b%d" % rep
            body.append("  volatile %s %s = %s; volatile %s %s = %s;" % (cspell(t1), a, clit(t1, v1), cspell(t2), b, clit(t2, v2)))
            l1, l2 = ("lit", t1, v1), ("lit", t2, v2)
            exprs = [("bin", o, l1, l2) for o in BINOPS] + [("cmp", o, l1, l2) for o in CMPOPS]
            exprs += [("cast", t2, l1), ("cast", t1, l2), ("un", "neg", l1), ("un", "bnot", l1), ("un", "lnot", l2),
                      ("cond", l2, l1, l2), ("land", l1, l2), ("lor", l1, l2)]
            # shift counts: make a defined variant available too
            sh = self.r.below(width(promote(t1)))
            exprs += [("bin", "lsh", l1, ("lit", "int", sh)), ("bin", "rsh", l1, ("lit", "int", sh))]
            for i, e in enumerate(exprs):
                if e[0] == "cast" and e[1] == "bool" and ceval(e[2])[1] not in (0, 1):
                    continue
                try:
                    t, v = ceval(e)
                except UB:
                    continue
                tag = "%s.%d.%d" % (name, rep, i)
                P = "PS" if signed(t) else "PU"
                rt = to_c(e, lambda l: a if l is l1 else b if l is l2 else clit(l[1], l[2]))
                ct = to_c(e, lambda l: clit(l[1], l[2]))
                body.append('  %s ("%s.r", %s); %s ("%s.c", %s);' % (P, tag, rt, P, tag, ct))
                expect[tag + ".r"] = v
                expect[tag + ".c"] = v
                if e[0] == "cmp":       # the same comparison as a branch condition (compare-and-branch insns)
                    body.append('  if (%s) PS ("%s.b", 1); else PS ("%s.b", 0);' % (rt[1:-1], tag, tag))
                    body.append('  PS ("%s.q", %s ? 7 : 9); { int n_ = 0; while (%s) { if (++n_ > 2) break; } PS ("%s.w", n_); }'
                                % (tag, rt[1:-1], rt[1:-1], tag))
                    expect[tag + ".b"] = v
                    expect[tag + ".q"] = 7 if v else 9
                    expect[tag + ".w"] = 3 if v else 0
                lean.append((tag + ".c", to_lean(e), t, v))
                if e[0] in ("bin", "cond"):
                    body.append('  PS ("%s.t", TYPEID (%s) * 100 + (int) sizeof (%s));' % (tag, rt, ct))
                    expect[tag + ".t"] = TNAMES.index(t) * 100 + width(t) // 8
        text = "static void %s (void) {\n%s\n}\n" % (name, "\n".join(body))
        return {"name": name, "kind": "conv", "text": text, "expect": expect, "lean": lean, "info": "%s,%s" % (t1, t2)}

    # ------------------------------------------------------------------ cexpr
    def rexpr(self, depth):
        r = self.r
        if depth == 0 or r.chance(1, 6):
            t = r.choice(TNAMES)
            return ("lit", t, self.val(t))
        c = r.below(20)
        if c < 9: return ("bin", r.choice(list(BINOPS)), self.rexpr(depth - 1), self.rexpr(depth - 1))
        if c < 12: return ("cmp", r.choice(list(CMPOPS)), self.rexpr(depth - 1), self.rexpr(depth - 1))
        if c < 14: return ("cast", r.choice(TNAMES), self.rexpr(depth - 1))
        if c < 17: return ("un", r.choice(["neg", "bnot", "plus", "lnot"]), self.rexpr(depth - 1))
        if c < 18: return ("land", self.rexpr(depth - 1), self.rexpr(depth - 1))
        if c < 19: return ("lor", self.rexpr(depth - 1), self.rexpr(depth - 1))
        return ("cond", self.rexpr(depth - 1), self.rexpr(depth - 1), self.rexpr(depth - 1))

    def repair(self, e, depth):
        """replace UB subtrees (and bool casts of non-0/1) bottom-up so that the whole tree is defined"""
        if e[0] == "lit":
            return e
        kids = tuple(self.repair(x, depth) if isinstance(x, tuple) else x for x in e[1:])
        e = (e[0],) + kids
        for _ in range(6):
            try:
                t, v = ceval(e)
                if e[0] == "cast" and e[1] == "bool" and ceval(e[2])[1] not in (0, 1):
                    e = ("cast", self.r.choice(TNAMES[1:]), e[2])
                    continue
                return e
            except UB:
                if e[0] == "bin":
                    op = e[1]
                    if op in ("lsh", "rsh"):
                        tl, vl = ceval(e[2])
                        p = promote(tl)
                        cnt = ("lit", "int", self.r.below(width(p)))
                        if op == "lsh" and signed(p):
                            e = ("bin", op, ("cast", UNS[p], e[2]), cnt)
                        else:
                            e = ("bin", op, e[2], cnt)
                    elif op in ("div", "mod"):
                        e = ("bin", op, e[2], ("lit", "int", 1 + self.r.below(9)))
                        try:
                            ceval(e)
                        except UB:
                            e = ("bin", "and", e[2], e[3])
                    else:   # signed overflow: do it unsigned
                        t = usual(ceval(e[2])[0], ceval(e[3])[0])
                        e = ("bin", op, ("cast", UNS[t], e[2]), e[3])
                elif e[0] == "un":      # -MIN
                    t = promote(ceval(e[2])[0])
                    e = ("un", e[1], ("cast", UNS[t], e[2]))
                else:
                    break
        t = self.r.choice(ARITH)
        return ("lit", t, self.val(t))

    def unit_cexpr(self, n=6):
        name = self.uname()
        glob, body, expect, lean = [], [], {}, []
        for i in range(n):
            e = self.repair(self.rexpr(2 + self.r.below(3)), 0)
            t, v = ceval(e)
            tag = "%s.%d" % (name, i)
            P = "PS" if signed(t) else "PU"
            ct = to_c(e, lambda l: clit(l[1], l[2]))
            ls = leaves(e, [])
            vn = {}
            for j, l in enumerate(ls):
                vn[id(l)] = "%s_v%d_%d" % (name, i, j)
                glob.append("static volatile %s %s = %s;" % (cspell(l[1]), vn[id(l)], clit(l[1], l[2])))
            rt = to_c(e, lambda l: vn[id(l)])
            glob.append("static const %s %s_g%d = %s;" % (cspell(t), name, i, ct))
            body.append('  %s ("%s.c", %s); %s ("%s.g", %s_g%d); %s ("%s.r", %s);' % (P, tag, ct, P, tag, name, i, P, tag, rt))
            for s in (".c", ".g", ".r"):
                expect[tag + s] = v
            if -2 ** 31 <= v < 2 ** 31:
                glob.append("enum { %s_e%d = %s };" % (name, i, ct))
                body.append('  PS ("%s.e", %s_e%d);' % (tag, name, i))
                expect[tag + ".e"] = v
            body.append('  PS ("%s.a", (int) sizeof (char[(%s & 7) + 1]));' % (tag, ct))
            expect[tag + ".a"] = (v & 7) + 1
            body.append('  switch (%s & 3) { case (%s & 3): PS ("%s.s", 1); break; default: PS ("%s.s", 0); }' % (rt, ct, tag, tag))
            expect[tag + ".s"] = 1
            lean.append((tag + ".c", to_lean(e), t, v))
        text = "\n".join(glob) + "\nstatic void %s (void) {\n%s\n}\n" % (name, "\n".join(body))
        return {"name": name, "kind": "cexpr", "text": text, "expect": expect, "lean": lean, "info": ""}

    # ------------------------------------------------------------------ bit-fields
    def unit_bitf(self):
        r = self.r
        name = self.uname()
        bt = r.choice(["schar", "uchar", "short", "ushort", "int", "uint", "long", "ulong", "llong", "ullong", "int", "uint"])
        S = width(bt)
        nf = 2 + r.below(6)
        fields, off = [], 0
        lo, hi = 1, S
        for i in range(nf):
            c = r.below(8)
            w = lo if c == 0 else hi if c == 1 else max(lo, hi - 1) if c == 2 else lo + r.below(hi - lo + 1)
            if off % S + w > S:           # does not fit: gcc starts a new unit of the declared type
                off = (off // S + 1) * S
            fields.append(("f%d" % i, w, off))
            off += w
        size = ((off + S - 1) // S) * S // 8
        sname = "struct %s_s" % name
        decl = "%s { %s };" % (sname, " ".join("%s %s:%d;" % (cspell(bt), f, w) for f, w, _ in fields))
        body, bfq = [], []
        glob = [decl]
        # static + automatic initialisers
        ivals = [conv(bt, r.next()) if r.chance(1, 2) else self.val(bt) for _ in fields]
        ivals = [conv(bt, v) for v in ivals]
        # keep initialiser values representable in the field (out-of-range constants in initialisers are
        # implementation-defined conversions too, fine, but keep some of each)
        init = ", ".join(clit(bt, v) for v in ivals)
        glob.append("static %s %s_g = { %s };" % (sname, name, init))
        body.append("  %s a = { %s }; %s z; int i;" % (sname, init, sname))
        for f, w, _ in fields:
            body.append('  PS ("%s.g.%s", %s_g.%s); PS ("%s.a.%s", a.%s);' % (name, f, name, f, name, f, f))
        body.append('  dump ("%s.gb", &%s_g, (int) sizeof (%s_g));' % (name, name, name))
        body.append('  PS ("%s.size", (int) sizeof (z));' % name)
        body.append("  memset (&z, 0, sizeof (z));")
        words = {}
        for f, w, o in fields:
            words.setdefault(o // S, 0)
        # assignments from volatile sources, in random order, some repeated
        order = [r.below(len(fields)) for _ in range(len(fields) + 3)] + list(range(len(fields)))
        for k, fi in enumerate(order):
            f, w, o = fields[fi]
            v = self.val(bt) if r.chance(1, 2) else conv(bt, r.next() >> r.below(64))
            body.append("  { volatile %s s = %s; z.%s = s; }" % (cspell(bt), clit(bt, v), f))
            bfq.append((o // S, int(signed(bt)), v % (1 << 64), o % S, w))
            if r.chance(1, 3):
                body.append('  PS ("%s.z%d.%s", z.%s);' % (name, k, f, f))
        for f, w, _ in fields:
            body.append('  PS ("%s.z.%s", z.%s);' % (name, f, f))
        body.append('  dump ("%s.zb", &z, (int) sizeof (z));' % name)
        # compound assignment / inc / dec on a few fields (values stay defined: bit-field arithmetic is done
        # in int or the declared type after promotion; wrap-around on store is implementation-defined, not UB,
        # except signed overflow of the promoted computation which cannot happen for +1/-1/small on promoted
        # values unless the field is a full-width long: use unsigned-safe forms there)
        for f, w, _ in fields:
            # the computation is done in int when the field is narrower than int (promotion): no overflow for
            # signed w <= 31 and unsigned w <= 30; unsigned fields of >= 32 bits wrap; everything else uses ^=
            if (signed(bt) and w <= 31) or (not signed(bt) and (w <= 30 or w >= 32)):
                c = r.below(5)
                st = ["z.%s += 3;", "z.%s -= 5;", "z.%s++;", "--z.%s;", "z.%s ^= 1;"][c] % f
                body.append("  " + st)
            else:
                body.append("  z.%s ^= 5;" % f)
        for f, w, _ in fields:
            body.append('  PS ("%s.y.%s", z.%s);' % (name, f, f))
        body.append('  dump ("%s.yb", &z, (int) sizeof (z));' % name)
        body.append("  for (i = 0; i < 3; i++) { z = a; a.%s = (%s) i; z.%s = a.%s; }" % (fields[0][0], cspell(bt), fields[-1][0], fields[0][0]))
        for f, w, _ in fields:
            body.append('  PS ("%s.x.%s", z.%s);' % (name, f, f))
        text = "\n".join(glob) + "\nstatic void %s (void) {\n%s\n}\n" % (name, "\n".join(body))
        return {"name": name, "kind": "bitf", "text": text, "expect": {name + ".size": size}, "lean": [],
                "bf": {"tag": name + ".zb", "S": S, "size": size, "stores": bfq}, "info": "%s x%d" % (bt, nf)}

    # ------------------------------------------------------------------ initialisers
    def agg_type(self, depth, name):
        """returns (decl text list, type spelling, tree) ; tree = ('s', [(member, sub)]) | ('a', n, sub) | ('i', ctype) | ('u', [...]) | ('c', n, chartype)"""
        r = self.r
        mems, decls = [], []
        nm = 2 + r.below(4)
        for i in range(nm):
            c = r.below(10)
            m = "m%d" % i
            if r.chance(1, 5):      # character array (initialised by string literals)
                t = r.choice(["char", "char", "schar", "uchar"]); n = 1 + r.below(7)
                if depth > 0 and r.chance(1, 4):
                    k = 1 + r.below(3)
                    mems.append((m, ("a", k, ("c", n, t)), "%s %s[%d][%d];" % (cspell(t), m, k, n)))
                else:
                    mems.append((m, ("c", n, t), "%s %s[%d];" % (cspell(t), m, n)))
            elif c < 5 or depth == 0:
                t = r.choice(TNAMES[1:])
                mems.append((m, ("i", t), "%s %s;" % (cspell(t), m)))
            elif c < 7:
                t = r.choice(TNAMES[1:]); n = 1 + r.below(4)
                mems.append((m, ("a", n, ("i", t)), "%s %s[%d];" % (cspell(t), m, n)))
            elif c < 9:
                d, sp, tr = self.agg_type(depth - 1, "%s_%d" % (name, i))
                decls += d
                mems.append((m, tr, "%s %s;" % (sp, m)))
            else:
                d, sp, tr = self.agg_type(depth - 1, "%s_%d" % (name, i)); n = 1 + r.below(3)
                decls += d
                mems.append((m, ("a", n, tr), "%s %s[%d];" % (sp, m, n)))
        union = depth > 0 and r.chance(1, 8)
        kw = "union" if union else "struct"
        decls.append("%s %s { %s };" % (kw, name, " ".join(x[2] for x in mems)))
        return decls, "%s %s" % (kw, name), ("u" if union else "s", [(x[0], x[1]) for x in mems])

    def agg_init(self, tr, override):
        """initialiser for the aggregate `tr`; with override=True scalar subobjects may be initialised twice
        (the later initialiser wins, C11 6.7.9p19)"""
        r = self.r
        if tr[0] == "i":
            return clit(tr[1], self.val(tr[1]))
        if tr[0] == "c":
            return self.str_init(tr[1])
        if tr[0] == "a":
            n = tr[1]
            if tr[2][0] in ("i", "c") and r.chance(1, 5):      # complete brace elision: exactly n elements, no braces
                return ", ".join(self.agg_init(tr[2], False) if tr[2][0] == "i" else self.str_init(tr[2][1], bare=True) for _ in range(n))
            items, pos, need = [], 0, False
            for _ in range(n + 2):
                if pos >= n: break
                c = r.below(8)
                if c == 0:
                    pos += 1; need = True
                elif c == 1:
                    k = r.below(n) if (override and tr[2][0] == "i") else pos + r.below(n - pos)
                    items.append("[%d] = %s" % (k, self.agg_init(tr[2], override))); pos = k + 1; need = False
                else:
                    items.append(("[%d] = " % pos if need else "") + self.agg_init(tr[2], override)); pos += 1; need = False
            return "{ %s }" % ", ".join(items) if items else "{ 0 }"
        mems = tr[1]
        if tr[0] == "u":
            m, sub = mems[0]
            return ("{ .%s = %s }" if r.chance(1, 2) else "{ %.0s%s }") % (m, self.agg_init(sub, override))
        items, i, done = [], 0, set()
        while i < len(mems):
            c = r.below(15)
            if c < 5:
                j = r.below(len(mems)) if override else i + r.below(len(mems) - i)
                if j < i and mems[j][1][0] != "i":      # re-initialising a whole aggregate member: semantics debated (DR 413)
                    j = i
                if j in done and mems[j][1][0] != "i": break
                items.append(".%s = %s" % (mems[j][0], self.agg_init(mems[j][1], override))); done.add(j); i = j + 1
            elif c < 7:
                i += 1      # leave member i zero
                if i < len(mems):
                    if i in done and mems[i][1][0] != "i": break
                    items.append(".%s = %s" % (mems[i][0], self.agg_init(mems[i][1], override))); done.add(i); i += 1
            else:
                if i in done and mems[i][1][0] != "i": break
                items.append(self.agg_init(mems[i][1], override)); done.add(i); i += 1
        return "{ %s }" % ", ".join(items) if items else "{ 0 }"

    def str_lit(self, L):
        r = self.r
        return '"%s"' % "".join(r.choice(["\\n", "\\\\", '\\"', "\\101", "\\0"]) if r.chance(1, 12)
                                else chr(r.choice([65, 97]) + r.below(26)) for _ in range(L))

    def str_init(self, n, bare=False):
        """initialiser of a character array of n elements: string literal (shorter, exact fit without the
        terminating NUL), the same in braces, a list of character constants, a designated list"""
        r = self.r
        c = r.below(10)
        L = n if r.chance(1, 3) else r.below(n + 1)
        if c < 5 or bare:
            return self.str_lit(L)
        if c < 7:
            return "{ %s }" % self.str_lit(L)
        if c < 9:
            return "{ %s }" % (", ".join("'%s'" % chr(97 + r.below(26)) for _ in range(max(1, L))))
        k = r.below(n)
        return "{ [%d] = '%s'%s }" % (k, chr(97 + r.below(26)), ", %d" % r.below(100) if k + 1 < n else "")

    def agg_print(self, tr, path, tag, out):
        if tr[0] == "i":
            out.append('  %s ("%s", %s);' % ("PS" if signed(tr[1]) else "PU", tag, path))
        elif tr[0] == "c":
            for i in range(tr[1]):
                out.append('  %s ("%s[%d]", %s[%d]);' % ("PS" if signed(tr[2]) else "PU", tag, i, path, i))
        elif tr[0] == "a":
            for i in range(tr[1]):
                self.agg_print(tr[2], "%s[%d]" % (path, i), "%s[%d]" % (tag, i), out)
        elif tr[0] == "s":
            for m, sub in tr[1]:
                self.agg_print(sub, "%s.%s" % (path, m), "%s.%s" % (tag, m), out)
        else:   # union: only its first member is ever initialised
            m, sub = tr[1][0]
            self.agg_print(sub, "%s.%s" % (path, m), "%s.%s" % (tag, m), out)

    def unit_init(self):
        name = self.uname()
        decls, sp, tr = self.agg_type(2, name + "_t")
        body, glob = [], list(decls)
        for k in range(2):
            glob.append("static %s %s_g%d = %s;" % (sp, name, k, self.agg_init(tr, True)))
            self.agg_print(tr, "%s_g%d" % (name, k), "%s.g%d" % (name, k), body)
            body.append('  dump ("%s.g%db", &%s_g%d, (int) sizeof (%s_g%d));' % (name, k, name, k, name, k))
        self.auto_ctx = True
        body.insert(0, "  %s l0 = %s;\n  %s l1 = %s;\n  %s arr[2] = { [1] = %s };" % (
            sp, self.agg_init(tr, True), sp, self.agg_init(tr, True), sp, self.agg_init(tr, False)))
        self.auto_ctx = False
        self.agg_print(tr, "l0", name + ".l0", body)
        self.agg_print(tr, "l1", name + ".l1", body)
        self.agg_print(tr, "arr[0]", name + ".a0", body)
        self.agg_print(tr, "arr[1]", name + ".a1", body)
        body.append("  l0 = l1; l1 = arr[1];")
        self.agg_print(tr, "l0", name + ".c0", body)
        self.agg_print(tr, "l1", name + ".c1", body)
        body.append('  PS ("%s.size", (int) sizeof (l0));' % name)
        # string tables: arrays of unknown bound of character arrays / of records that start with one
        r = self.r
        K = 1 + r.below(6)
        rows = [self.str_init(K) for _ in range(1 + r.below(4))]
        if r.chance(1, 3):
            rows += ["'%s'" % chr(97 + r.below(26)), "0"][:1 + r.below(2)]      # brace-elided scalars open one more row
        glob.append("static %s %s_st[][%d] = { %s };" % (r.choice(["char", "unsigned char", "signed char"]), name, K, ", ".join(rows)))
        body.append('  dump ("%s.st", %s_st, (int) sizeof (%s_st));' % (name, name, name))
        K1, K2 = 1 + r.below(6), 1 + r.below(4)
        t1, t2 = r.choice(TNAMES[1:]), r.choice(TNAMES[1:])
        rt = "struct %s_rt { char tag[%d]; %s v; unsigned char s2[%d]; %s w; }" % (name, K1, cspell(t1), K2, cspell(t2))
        recs = []
        self.auto_ctx = True       # the same list initialises an automatic copy below
        for _ in range(1 + r.below(3)):
            c = r.below(4)
            if c == 0:
                recs.append("{ %s, %s, %s, %s }" % (self.str_init(K1), clit(t1, self.val(t1)), self.str_init(K2), clit(t2, self.val(t2))))
            elif c == 1:
                recs.append("{ .tag = %s, .w = %s }" % (self.str_init(K1), clit(t2, self.val(t2))))
            elif c == 2:
                recs.append("{ %s, %s, .w = %s }" % (self.str_init(K1, bare=True), clit(t1, self.val(t1)), clit(t2, self.val(t2))))
            else:
                recs.append("%s, %s, %s, %s" % (self.str_init(K1, bare=True), clit(t1, self.val(t1)), self.str_init(K2, bare=True), clit(t2, self.val(t2))))
        self.auto_ctx = False
        glob.append("%s;" % rt)
        glob.append("static struct %s_rt %s_rg[] = { %s };" % (name, name, ", ".join(recs)))
        body.append('  dump ("%s.rg", %s_rg, (int) sizeof (%s_rg));' % (name, name, name))
        body.append("  { struct %s_rt rl[] = { %s }; int i_, j_;" % (name, ", ".join(recs)))
        body.append('    PS ("%s.rl.n", (int) (sizeof (rl) / sizeof (rl[0])));' % name)
        body.append("    for (i_ = 0; i_ < (int) (sizeof (rl) / sizeof (rl[0])); i_++) {")
        body.append('      for (j_ = 0; j_ < %d; j_++) PS ("%s.rl.tag", rl[i_].tag[j_]);' % (K1, name))
        body.append('      for (j_ = 0; j_ < %d; j_++) PS ("%s.rl.s2", rl[i_].s2[j_]);' % (K2, name))
        body.append('      %s ("%s.rl.v", rl[i_].v); %s ("%s.rl.w", rl[i_].w); } }' % (
            "PS" if signed(t1) else "PU", name, "PS" if signed(t2) else "PU", name))
        text = "\n".join(glob) + "\nstatic void %s (void) {\n%s\n}\n" % (name, "\n".join(body))
        return {"name": name, "kind": "init", "text": text, "expect": {}, "lean": [], "info": ""}

    # ------------------------------------------------------------------ safe expressions
    def sexpr(self, t, vars_, depth):
        """C expression of exactly type t over variables vars_ = [(name, type)], never UB"""
        r = self.r
        T = cspell(t)
        if depth == 0 or r.chance(1, 5):
            if vars_ and r.chance(3, 4):
                n, vt = r.choice(vars_)
                return "((%s) %s)" % (T, n) if t != "bool" else "(%s != 0)" % n
            return clit(t, self.val(t))
        if t == "bool":
            a = self.sexpr(r.choice(TNAMES[1:]), vars_, depth - 1)
            b = self.sexpr(r.choice(TNAMES[1:]), vars_, depth - 1)
            return "((_Bool) (%s %s %s))" % (a, r.choice(list(CMPOPS.values())), b)
        p = promote(t)
        UT = cspell(UNS[p])
        W = width(p)
        a = self.sexpr(t, vars_, depth - 1)
        c = r.below(16)
        if c < 3:
            b = self.sexpr(t, vars_, depth - 1)
            return "%s (%s, %s, %s, %s)" % (r.choice(["SADD", "SSUB", "SMUL"]), T, UT, a, b)
        if c < 5:
            b = self.sexpr(t, vars_, depth - 1)
            if signed(t):
                return "%s (%s, %s, %s, %s)" % (r.choice(["SDIVS", "SMODS"]), T, clit(t, tmin(t)), a, b)
            return "%s (%s, %s, %s)" % (r.choice(["SDIVU", "SMODU"]), T, a, b)
        if c < 8:
            t2 = r.choice(TNAMES[1:])
            b = self.sexpr(t2, vars_, depth - 1)    # mixed-type bitwise: implicit usual conversions
            return "((%s) (%s %s %s))" % (T, a, r.choice(["&", "|", "^"]), b)
        if c < 10:
            t2 = r.choice(TNAMES[1:])
            b = self.sexpr(t2, vars_, depth - 1)
            if r.chance(1, 2):
                return "SSHL (%s, %s, %d, %s, %s)" % (T, UT, W, a, b)
            return "SSHR (%s, %d, %s, %s)" % (T, W, a, b)
        if c < 12:
            t2 = r.choice(TNAMES[1:])
            b = self.sexpr(t2, vars_, depth - 1)    # mixed-type comparison
            return "((%s) (%s %s %s))" % (T, a, r.choice(list(CMPOPS.values())), b)
        if c < 13:
            return "((%s) ~%s)" % (T, a)
        if c < 14:
            return "((%s) (0u - (%s) %s))" % (T, UT, a)
        if c < 15:
            b = self.sexpr(t, vars_, depth - 1)
            cnd = self.sexpr(r.choice(TNAMES[1:]), vars_, depth - 1)
            return "(%s ? %s : %s)" % (cnd, a, b)
        t2 = r.choice(TNAMES[1:])
        return "((%s) %s)" % (T, self.sexpr(t2, vars_, depth - 1))    # explicit conversion chain

    # ------------------------------------------------------------------ control flow
    def unit_ctrl(self):
        r = self.r
        name = self.uname()
        nv = 3 + r.below(4)
        vars_ = [("x%d" % i, r.choice(TNAMES[1:])) for i in range(nv)]
        body = ["  %s %s = %s;" % (cspell(t), n, clit(t, self.val(t))) for n, t in vars_]
        body.append("  int i0 = 0, i1 = 0, i2 = 0, i3 = 0, j, k = 0, g = 0;")
        lab = [0]

        def assign(ind):
            n, t = r.choice(vars_)
            e = self.sexpr(t, vars_, 2)
            if e == "((%s) %s)" % (cspell(t), n):       # `x = (T) x` in a loop: known generator crash (C07:engines-disagree:gen-opt:crash)
                e = "SADD (%s, %s, %s, %s)" % (cspell(t), cspell(UNS[promote(t)]), n, clit(t, 1))
            return "%s%s = %s;" % (ind, n, e)

        def stmts(ind, depth, in_loop):
            out = []
            for _ in range(1 + r.below(3)):
                c = r.below(12)
                if c < 4 or depth == 0:
                    out.append(assign(ind))
                elif c < 6:
                    n = 1 + r.below(6)
                    out.append("%sfor (i%d = 0; i%d < %d; i%d++) {" % (ind, depth, depth, n, depth))
                    out += stmts(ind + "  ", depth - 1, True)
                    out.append("%s}" % ind)
                elif c < 7:
                    n = 1 + r.below(5)
                    out.append("%sj = %d; while (j-- > 0) {" % (ind, n))
                    out += stmts(ind + "  ", 0, True)
                    out.append("%s}" % ind)
                elif c < 9:
                    nvar, t = r.choice(vars_)
                    out.append("%sswitch ((int) (%s & 7)) {" % (ind, nvar))
                    used = set()
                    for _ in range(1 + r.below(4)):
                        cv = r.below(8)
                        if cv in used: continue
                        used.add(cv)
                        out.append("%scase %d:" % (ind, cv))
                        out.append(assign(ind + "  "))
                        if r.chance(2, 3): out.append("%s  break;" % ind)
                    if r.chance(1, 2):
                        out.append("%sdefault:" % ind); out.append(assign(ind + "  "))
                    out.append("%s}" % ind)
                elif c < 10:
                    lab[0] += 1
                    L = "L%d" % lab[0]
                    out.append("%sg = 0;" % ind)
                    out.append("%s%s: g++;" % (ind, L))
                    out.append(assign(ind))
                    out.append("%sif (g < %d) goto %s;" % (ind, 1 + r.below(4), L))
                elif c < 11:
                    cnd = self.sexpr(r.choice(TNAMES), vars_, 2)
                    out.append("%sif (%s) {" % (ind, cnd))
                    out += stmts(ind + "  ", depth - 1, in_loop)
                    out.append("%s} else {" % ind)
                    out.append(assign(ind + "  "))
                    out.append("%s}" % ind)
                else:
                    if in_loop:
                        out.append("%sif (%s) %s;" % (ind, self.sexpr("bool", vars_, 1), r.choice(["break", "continue"])))
                    else:
                        lab[0] += 1
                        L = "F%d" % lab[0]
                        out.append("%sif (%s) goto %s;" % (ind, self.sexpr("bool", vars_, 1), L))
                        out.append(assign(ind))
                        out.append("%s%s: k++;" % (ind, L))
            return out

        body += stmts("  ", 3, False)
        for n, t in vars_:
            body.append('  %s ("%s.%s", %s);' % ("PS" if signed(t) else "PU", name, n, n))
        body.append('  PS ("%s.k", k);' % name)
        text = "static void %s (void) {\n%s\n}\n" % (name, "\n".join(body))
        return {"name": name, "kind": "ctrl", "text": text, "expect": {}, "lean": [], "info": ""}

    # ------------------------------------------------------------------ struct copies
    def unit_scopy(self, sizes):
        r = self.r
        name = self.uname()
        glob, body = [], ["  int i;"]
        for n in sizes:
            s = "%s_s%d" % (name, n)
            # a struct of exactly n bytes: chars, or short/int/long members when n allows, keeping size == n
            c = r.below(4)
            if c == 1 and n % 2 == 0:
                mem = "unsigned short h[%d];" % (n // 2)
            elif c == 2 and n % 4 == 0:
                mem = "unsigned int w[%d];" % (n // 4)
            elif c == 3 and n % 8 == 0:
                mem = "unsigned long d[%d];" % (n // 8)
            else:
                mem = "unsigned char b[%d];" % n
            glob.append("struct %s { %s };" % (s, mem))
            glob.append("struct %s_box { unsigned char pre[8]; struct %s v; unsigned char post[8]; };" % (s, s))
            glob.append("static struct %s %s_mk (int seed) { struct %s r; unsigned char *p = (unsigned char *) &r; int i;"
                        " for (i = 0; i < %d; i++) p[i] = (unsigned char) (seed * 31 + i * 7 + 1); return r; }" % (s, s, s, n))
            glob.append("static struct %s %s_id (struct %s a, int k, struct %s b) { return k ? a : b; }" % (s, s, s, s))
            glob.append("static struct %s_box %s_gb;" % (s, s))
            body.append("  { struct %s_box x, y[2]; struct %s t = %s_mk (%d), *p = &x.v, *q = &t;" % (s, s, s, r.below(100)))
            body.append("    memset (&x, 0x5a, sizeof (x)); memset (y, 0xa5, sizeof (y)); memset (&%s_gb, 0x3c, sizeof (%s_gb));" % (s, s))
            body.append("    x.v = t; dump (\"%s.%d.a\", &x, (int) sizeof (x));" % (name, n))
            body.append("    y[1].v = x.v; *p = %s_mk (%d); y[0].v = *p; dump (\"%s.%d.b\", y, (int) sizeof (y));" % (s, r.below(100), name, n))
            body.append("    %s_gb.v = %s_id (y[1].v, %d, *q); dump (\"%s.%d.c\", &%s_gb, (int) sizeof (%s_gb));" % (s, s, r.below(2), name, n, s, s))
            body.append("    for (i = 0; i < 2; i++) y[i].v = %s_id (*q, i, x.v); dump (\"%s.%d.d\", y, (int) sizeof (y));" % (s, name, n))
            body.append('    PS ("%s.%d.size", (int) sizeof (struct %s)); }' % (name, n, s))
        text = "\n".join(glob) + "\nstatic void %s (void) {\n%s\n}\n" % (name, "\n".join(body))
        return {"name": name, "kind": "scopy", "text": text, "expect": {}, "lean": [], "info": ",".join(map(str, sizes))}

    # ------------------------------------------------------------------ calls
    def unit_calls(self):
        r = self.r
        name = self.uname()
        glob, body = [], []
        nf = 2 + r.below(3)
        funcs = []
        for k in range(nf):
            np_ = 1 + r.below(12)
            ps = [("p%d" % i, r.choice(TNAMES[1:] + ["double"] * 2)) for i in range(np_)]
            rt = r.choice(TNAMES[1:])
            ivars = [(n, t) for n, t in ps if t != "double"]
            dvars = [n for n, t in ps if t == "double"]
            fn = "%s_f%d" % (name, k)
            sig = ", ".join("%s %s" % ("double" if t == "double" else cspell(t), n) for n, t in ps)
            fb = ["  %s acc = %s;" % (cspell(rt), self.sexpr(rt, ivars, 2))]
            for _ in range(1 + r.below(3)):
                fb.append("  acc = %s;" % self.sexpr(rt, ivars + [("acc", rt)], 2))
            for d in dvars:
                fb.append("  acc = (%s) (acc ^ (%s) (long) (%s * 4.0));" % (cspell(rt), cspell(rt), d))
            callee = funcs[r.below(len(funcs))] if funcs and r.chance(1, 2) else None
            if callee:
                cfn, cps, crt = callee
                args = ", ".join("%d.5" % r.below(50) if t == "double" else self.sexpr(r.choice(TNAMES[1:]), ivars, 1) for _, t in cps)
                fb.append("  acc = (%s) (acc ^ (%s) %s (%s));" % (cspell(rt), cspell(rt), cfn, args))
            fb.append("  return acc;")
            glob.append("static %s %s (%s) {\n%s\n}" % (cspell(rt), fn, sig, "\n".join(fb)))
            funcs.append((fn, ps, rt))
        # recursion + function pointer
        glob.append("static unsigned %s_rec (unsigned n, unsigned a) { return n == 0 ? a : %s_rec (n - 1, a * 3u + n); }" % (name, name))
        glob.append("static int %s_cmp (const void *a, const void *b) { int x = *(const int *) a, y = *(const int *) b; return (x > y) - (x < y); }" % name)
        for fn, ps, rt in funcs:
            for _ in range(2):
                # arguments of arbitrary integer types: implicit conversion to the parameter type
                args = []
                for _, t in ps:
                    if t == "double":
                        args.append("%d.25" % (r.below(200) - 100))
                    else:
                        at = r.choice(TNAMES[1:])
                        args.append(clit(at, self.val(at)))
                body.append('  %s ("%s", %s (%s));' % ("PS" if signed(rt) else "PU", fn, fn, ", ".join(args)))
        fn0, ps0, rt0 = funcs[0]
        body.append("  { %s (*fp) (%s) = %s; %s (\"%s.fp\", fp (%s)); }" % (
            cspell(rt0), ", ".join("double" if t == "double" else cspell(t) for _, t in ps0), fn0,
            "PS" if signed(rt0) else "PU", name, ", ".join("1.5" if t == "double" else "1" for _, t in ps0)))
        body.append('  PU ("%s.rec", %s_rec (%du, %du));' % (name, name, 1 + r.below(30), r.below(1000)))
        arr = [r.below(2000) - 1000 for _ in range(4 + r.below(12))]
        body.append("  { int a[%d] = { %s }; int i; qsort (a, %d, sizeof (int), %s_cmp); for (i = 0; i < %d; i++) PS (\"%s.q\", a[i]); }" % (
            len(arr), ", ".join(map(str, arr)), len(arr), name, len(arr), name))
        vs = [(t, self.val(t)) for t in [r.choice(["int", "uint", "long", "ulong", "llong", "ullong"]) for _ in range(10)]]
        fmt = " ".join({"int": "%d", "uint": "%u", "long": "%ld", "ulong": "%lu", "llong": "%lld", "ullong": "%llu"}[t] for t, _ in vs)
        body.append('  { char buf[400]; snprintf (buf, sizeof (buf), "%s %%s %%c %%.3f", %s, "s", \'c\', %d.125); printf ("%s.pf %%s\\n", buf); }' % (
            fmt, ", ".join(clit(t, v) for t, v in vs), r.below(100), name))
        text = "\n".join(glob) + "\nstatic void %s (void) {\n%s\n}\n" % (name, "\n".join(body))
        return {"name": name, "kind": "calls", "text": text, "expect": {}, "lean": [], "info": ""}


    # ------------------------------------------------------------------ constant folding over integer and floating types
    def fval(self, t):
        r = self.r
        if isf(t):
            c = r.below(6)
            if c == 0: return Fraction(0)
            if c == 1: return Fraction(r.below(17) - 8)
            return Fraction(r.below(257) - 128, 8)
        c = r.below(8)
        if c < 5:
            v = r.below(41) - 20
            return conv(t, v) if (signed(t) or v >= 0) and t != "bool" else (v & 1 if t == "bool" else abs(v))
        return self.val(t)

    def fexpr(self, depth, ice=False):
        """random tree; ice=True: strictly conforming integer constant expression (floating constants only as
        immediate operands of casts to integer types, no comma)"""
        r = self.r
        if depth == 0 or r.chance(1, 7):
            if ice:
                if r.chance(1, 3):
                    ft = r.choice(FNAMES)
                    return ("cast", r.choice(["int", "long", "short", "uint", "llong"]), ("lit", ft, abs(self.fval(ft))))
                t = r.choice(TNAMES)
                return ("lit", t, self.fval(t))
            t = r.choice(TNAMES + FNAMES * 3)
            return ("lit", t, self.fval(t))
        c = r.below(24)
        sub = lambda: self.fexpr(depth - 1, ice)
        if c < 7: return ("cond", sub(), sub(), sub())
        if c < 10: return ("land", sub(), sub())
        if c < 13: return ("lor", sub(), sub())
        if c < 16: return ("cast", r.choice(TNAMES if ice else TNAMES + FNAMES * 2), sub())
        if c < 18: return ("cmp", r.choice(list(CMPOPS)), sub(), sub())
        if c < 20: return ("un", r.choice(["neg", "plus", "lnot"] + (["bnot"] if ice else [])), sub())
        ops = list(BINOPS) if ice else ["add", "sub", "mul", "add", "sub", "mul", "div", "and", "or", "xor", "lsh", "rsh", "mod"]
        return ("bin", r.choice(ops), sub(), sub())

    @staticmethod
    def fok(e):
        try:
            feval(e)
            return True
        except (UB, Inexact):
            return False

    def frepair(self, e):
        """make the tree defined and exact: children first, then the node is replaced by the first working
        variant (operands cast to double / long long / int, a small right operand, a comparison, a child)"""
        if e[0] == "lit":
            return e
        e = (e[0],) + tuple(self.frepair(x) if isinstance(x, tuple) else x for x in e[1:])
        if self.fok(e):
            return e
        r = self.r
        k = e[0]
        kids = [x for x in e[1:] if isinstance(x, tuple)]
        cands = []
        if k == "cast":
            ts = ["double", "ldouble", "llong", "long", "int", "float", "ullong", "uint"]
            st = r.below(len(ts))
            cands += [("cast", t, kids[0]) for t in ts[st:] + ts[:st]]
        elif k == "un":
            cands += [("un", e[1], ("cast", t, kids[0])) for t in ("double", "llong", "ullong", "int")] + [("un", "lnot", kids[0])]
        elif k == "bin":
            a, b = kids
            small = ("lit", r.choice(["int", "double", "float", "long"]), 1 + r.below(7))
            casts = ["double", "ldouble", "llong", "int", "ullong", "uint"]
            st = r.below(3)
            for t in casts[st:] + casts[:st]:
                cands.append(("bin", e[1], ("cast", t, a), ("cast", t, b)))
                cands.append(("bin", e[1], ("cast", t, a), b))
            cands.append(("bin", e[1], a, small))
            cands.append(("bin", e[1], a, ("lit", "double", Fraction(r.choice([2, 4, 8, 1]), r.choice([1, 2, 4])))))
            cands.append(("bin", e[1], ("cast", "int", a), ("lit", "int", 1 + r.below(7))))
            cands += [("bin", r.choice(["add", "sub"]), ("cast", "double", a), ("cast", "double", b)), ("cmp", r.choice(list(CMPOPS)), a, b)]
        elif k in ("cmp", "cond"):
            head = kids[:-2]
            a, b = kids[-2:]
            for t in ("double", "llong", "ldouble", "int"):
                cands.append((k,) + ((e[1],) if k == "cmp" else ()) + tuple(head) + (("cast", t, a), ("cast", t, b)))
            cands.append((k,) + ((e[1],) if k == "cmp" else ()) + tuple(head) + (a, ("lit", "int", r.below(9))))
            cands.append((k,) + ((e[1],) if k == "cmp" else ()) + tuple(head) + (("lit", "double", Fraction(r.below(33) - 16, 4)), b))
        cands += [("land", kids[0], kids[-1]), kids[-1]]
        for c in cands:
            if self.fok(c):
                return c
        return kids[-1]

    def unit_fcexpr(self, n=7):
        r = self.r
        name = self.uname()
        glob, body, expect = [], [], {}

        def P(t): return "PF" if isf(t) else "PS" if signed(t) else "PU"
        for i in range(n):
            e = self.frepair(self.fexpr(2 + r.below(3)))
            t, v = feval(e)
            tag = "%s.%d" % (name, i)
            ct = to_cx(e, lambda l: flit(l[1], l[2]))
            ls = leaves(e, [])
            vn = {}
            for j, l in enumerate(ls):
                vn[id(l)] = "%s_v%d_%d" % (name, i, j)
                glob.append("static volatile %s %s = %s;" % (xspell(l[1]), vn[id(l)], flit(l[1], l[2])))
            rt = to_cx(e, lambda l: vn[id(l)])
            half = {id(l) for l in ls if r.chance(1, 2)}
            mt = to_cx(e, lambda l: vn[id(l)] if id(l) in half else flit(l[1], l[2]))
            glob.append("static const %s %s_g%d = %s;" % (xspell(t), name, i, ct))
            body.append('  %s ("%s.c", %s); %s ("%s.g", %s_g%d);' % (P(t), tag, ct, P(t), tag, name, i))
            body.append('  %s ("%s.r", %s); %s ("%s.m", %s);' % (P(t), tag, rt, P(t), tag, mt))
            body.append('  { %s a_ = %s; %s l_[2] = { %s, %s }; %s ("%s.l", a_); %s ("%s.l0", l_[0]); %s ("%s.l1", l_[1]); }'
                        % (xspell(t), ct, xspell(t), mt, ct, P(t), tag, P(t), tag, P(t), tag))
            for sfx in (".c", ".g", ".r", ".m", ".l", ".l0", ".l1"):
                expect[tag + sfx] = v
            # converting initialisers: to double, float, long long
            for sfx, dt in ((".d", "double"), (".f", "float"), (".q", "llong"), (".u", "uchar")):
                try:
                    dv = fconv(dt, t, v)
                except (UB, Inexact):
                    continue
                if dt == "uchar" and isf(t) and v < 0:
                    continue
                glob.append("static %s %s_%s%d = %s;" % (xspell(dt), name, sfx[1], i, ct))
                body.append('  %s ("%s%s", %s_%s%d); { %s x_ = %s; %s ("%s%sl", x_); }' % (
                    P(dt), tag, sfx, name, sfx[1], i, xspell(dt), mt, P(dt), tag, sfx))
                expect[tag + sfx] = dv
                expect[tag + sfx + "l"] = dv
            # the comma operator and a second tree: value of the right operand
            e2 = self.frepair(self.fexpr(2))
            t2, v2 = feval(e2)
            body.append('  %s ("%s.k", (%s , %s)); %s ("%s.k2", (%s , %s));' % (
                P(t2), tag, mt, to_cx(e2, lambda l: flit(l[1], l[2])), P(t), tag, to_cx(e2, lambda l: flit(l[1], l[2])), ct))
            expect[tag + ".k"] = v2
            expect[tag + ".k2"] = v
            if not isf(t):
                body.append('  PS ("%s.t", TYPEID (%s) * 100 + (int) sizeof (%s));' % (tag, ct, mt))
                expect[tag + ".t"] = TNAMES.index(t) * 100 + width(t) // 8
            else:
                body.append('  PS ("%s.t", (int) sizeof (%s) * 100 + (int) sizeof (%s));' % (tag, ct, rt))
                sz = {"float": 4, "double": 8, "ldouble": 16}[t]
                expect[tag + ".t"] = sz * 101
            # strictly conforming integer constant expressions in the places that require them
            ie = self.frepair(self.fexpr(2 + r.below(2), ice=True))
            it, iv = feval(ie)
            if isf(it):
                continue
            ic = to_cx(ie, lambda l: flit(l[1], l[2]))
            ils = leaves(ie, [])
            ivn = {}
            for j, l in enumerate(ils):
                ivn[id(l)] = "%s_w%d_%d" % (name, i, j)
                glob.append("static volatile %s %s = %s;" % (xspell(l[1]), ivn[id(l)], flit(l[1], l[2])))
            irt = to_cx(ie, lambda l: ivn[id(l)])
            PI = "PS" if signed(it) else "PU"
            body.append('  %s ("%s.ic", %s); %s ("%s.ir", %s);' % (PI, tag, ic, PI, tag, irt))
            expect[tag + ".ic"] = iv
            expect[tag + ".ir"] = iv
            body.append('  PS ("%s.ia", (int) sizeof (char[(%s & 7) + 1]));' % (tag, ic))
            expect[tag + ".ia"] = (iv & 7) + 1
            glob.append("static char %s_arr%d[(%s & 15) + 1]; struct %s_bf%d { unsigned f : (%s & 7) + 1; };" % (name, i, ic, name, i, ic))
            body.append('  PS ("%s.ig", (int) sizeof (%s_arr%d)); { struct %s_bf%d b_; b_.f = 255; PS ("%s.iw", b_.f); }' % (
                tag, name, i, name, i, tag))
            expect[tag + ".ig"] = (iv & 15) + 1
            expect[tag + ".iw"] = (1 << ((iv & 7) + 1)) - 1 & 255
            body.append('  switch (%s & 3) { case (%s & 3): PS ("%s.is", 1); break; default: PS ("%s.is", 0); }' % (irt, ic, tag, tag))
            expect[tag + ".is"] = 1
            if -2 ** 31 <= iv < 2 ** 31:
                glob.append("enum { %s_e%d = %s };" % (name, i, ic))
                body.append('  PS ("%s.ie", %s_e%d);' % (tag, name, i))
                expect[tag + ".ie"] = iv
        # constants that are NOT representable in float, converted to float and used further at compile time
        for i in range(4):
            tag = "%s.r%d" % (name, i)
            c = r.below(4)
            if c == 0:
                txt = r.choice(["0.1", "0.3", "1e-3", "2.7182818284590452", "123456.789", "0.7", "1e10", "3.3e5", "0.2"])
                C = Fraction(float(txt)); st = "double"
            elif c == 1:
                m = (r.next() >> (64 - 30 - r.below(22))) | 1
                C = Fraction(m, 1 << r.below(31)) * r.choice([1, -1]); st = "double"; txt = flit("double", C)
            elif c == 2:
                st = r.choice(["int", "long", "llong", "ulong", "uint"])
                iv = ((1 << (24 + r.below(min(30, width(st) - 26)))) | (r.next() & 0xffffff) | 1) * (r.choice([1, -1]) if signed(st) else 1)
                C = Fraction(conv(st, iv)); txt = clit(st, conv(st, iv))
            else:
                m = (r.next() >> 12) | 1
                C = Fraction(m, 1 << (52 - r.below(40))); st = "ldouble"; txt = flit("ldouble", C)
            F = round_to(C, 24)
            small = abs(F) < 2 ** 30
            eqf = 1 if not isf(st) else int(F == C)               # (float) C == C: an integer C is converted to float
            nef = int(F != (round_to(C, 53) if not isf(st) else C))    # (double) (float) C != C: an integer C to double
            glob.append("static volatile %s %s_rv%d = %s;" % (xspell(st), name, i, txt))
            glob.append("static double %s_rd%d = (float) %s; static float %s_rf%d = %s; static long double %s_rl%d = (float) %s; static double %s_rs%d = (float) %s + 0.0;"
                        % (name, i, txt, name, i, txt, name, i, txt, name, i, txt))
            glob.append("static long long %s_rq%d = (long long) (float) %s; static double %s_rc%d = (float) (double) (float) %s; enum { %s_re%d = ((float) %s == %s), %s_rn%d = ((double) (float) %s != %s) };"
                        % (name, i, txt, name, i, txt, name, i, txt, txt, name, i, txt, txt))
            body.append('  PF ("%s.d", %s_rd%d); PF ("%s.f", %s_rf%d); PF ("%s.l", %s_rl%d); PF ("%s.s", %s_rs%d); PS ("%s.q", %s_rq%d); PF ("%s.cc", %s_rc%d); PS ("%s.e", %s_re%d); PS ("%s.n", %s_rn%d);'
                        % (tag, name, i, tag, name, i, tag, name, i, tag, name, i, tag, name, i, tag, name, i, tag, name, i, tag, name, i))
            for sfx, val in ((".d", F), (".f", F), (".l", F), (".s", F), (".q", int(F)), (".cc", F), (".e", eqf), (".n", nef)):
                expect[tag + sfx] = val
            body.append('  PF ("%s.o1", (float) %s); PF ("%s.o2", (float) %s + 0.0); PS ("%s.o3", (float) %s == %s); PF ("%s.o4", (double) (float) %s * 2); PF ("%s.o5", -(float) %s); PS ("%s.o6", (long long) (float) %s);'
                        % (tag, txt, tag, txt, tag, txt, txt, tag, txt, tag, txt, tag, txt))
            body.append('  PF ("%s.r1", (float) %s_rv%d); PF ("%s.r2", (float) %s_rv%d + 0.0); PS ("%s.r3", (float) %s_rv%d == %s_rv%d); PS ("%s.r6", (long long) (float) %s_rv%d); { float lf_ = %s; double ld_ = (float) %s; PF ("%s.a1", lf_); PF ("%s.a2", ld_); }'
                        % (tag, name, i, tag, name, i, tag, name, i, name, i, tag, name, i, txt, txt, tag, tag))
            for sfx, val in ((".o1", F), (".o2", F), (".o3", eqf), (".o4", 2 * F), (".o5", -F), (".o6", int(F)),
                             (".r1", F), (".r2", F), (".r3", eqf), (".r6", int(F)), (".a1", F), (".a2", F)):
                expect[tag + sfx] = val
            glob.append("static char %s_ra%d[((long long) (float) %s & 7) + 1];" % (name, i, txt))
            body.append('  PS ("%s.a", (int) sizeof (%s_ra%d)); switch ((int) ((long long) (float) %s_rv%d & 3)) { case (int) ((long long) (float) %s & 3): PS ("%s.c", 1); break; default: PS ("%s.c", 0); }'
                        % (tag, name, i, name, i, txt, tag, tag))
            expect[tag + ".a"] = (int(F) & 7) + 1
            expect[tag + ".c"] = 1
            if small:
                glob.append("enum { %s_ri%d = (int) (float) %s };" % (name, i, txt))
                body.append('  PS ("%s.i", %s_ri%d);' % (tag, name, i))
                expect[tag + ".i"] = int(F)
        text = "\n".join(glob) + "\nstatic void %s (void) {\n%s\n}\n" % (name, "\n".join(body))
        return {"name": name, "kind": "fcexpr", "text": text, "expect": expect, "lean": [], "info": ""}

    # ------------------------------------------------------------------ struct assignment between addressing shapes
    SADDR_SIZES = [1, 2, 3, 4, 5, 6, 7, 8, 9, 12, 15, 16, 17, 24, 31, 32, 33, 48, 63, 64, 65, 100, 127, 128, 129, 255, 256, 257, 300, 1000]

    def unit_saddr(self, size_index):
        r = self.r
        name = self.uname()
        n = self.SADDR_SIZES[size_index % len(self.SADDR_SIZES)]
        S = "struct %s_s" % name
        c = r.below(4)
        mem = ("unsigned short h[%d];" % (n // 2) if c == 1 and n % 2 == 0 else "unsigned int w[%d];" % (n // 4) if c == 2 and n % 4 == 0
               else "unsigned long d[%d];" % (n // 8) if c == 3 and n % 8 == 0 else "unsigned char b[%d];" % n)
        W = "struct %s_w" % name
        itypes = ["int", "long", "unsigned", "unsigned char", "short", "unsigned long", "signed char", "long long"]
        ti, tj = r.choice(itypes), r.choice(itypes)
        glob = ["%s { %s };" % (S, mem),
                "%s { int pad; %s m; char c; %s a[3]; };" % (W, S, S),
                "static %s %s_A[6], %s_B[6], %s_g; static %s %s_w, %s_wa[3];" % (S, name, name, name, W, name, name),
                "static void %s_fill (int seed) { unsigned char *p; unsigned k; unsigned x = (unsigned) seed * 2654435761u + 12345u;" % name,
                "#define FILL_(o) for (p = (unsigned char *) &(o), k = 0; k < sizeof (o); k++) { x = x * 1103515245u + 12345u; p[k] = (unsigned char) (x >> 16); }",
                "  FILL_ (%s_A) FILL_ (%s_B) FILL_ (%s_g) FILL_ (%s_w) FILL_ (%s_wa)" % (name, name, name, name, name),
                "#undef FILL_",
                "}",
                "static void %s_hash (const char *tag) { ull h = 1469598103934665603ULL; const unsigned char *p; unsigned k;" % name,
                "#define HASH_(o) for (p = (const unsigned char *) &(o), k = 0; k < sizeof (o); k++) h = (h ^ p[k]) * 1099511628211ULL;",
                "  HASH_ (%s_A) HASH_ (%s_B) HASH_ (%s_g) HASH_ (%s_w.m) HASH_ (%s_w.a) HASH_ (%s_wa[0].m) HASH_ (%s_wa[1].m) HASH_ (%s_wa[2].m)"
                % (name, name, name, name, name, name, name, name),
                "  HASH_ (%s_wa[0].a) HASH_ (%s_wa[1].a) HASH_ (%s_wa[2].a)" % (name, name, name),
                "#undef HASH_",
                '  mix (h); printf ("%s %llu\\n", tag, h); }',
                "static %s %s_mk (int seed) { %s r_; unsigned char *p = (unsigned char *) &r_; unsigned k;"
                " for (k = 0; k < sizeof (r_); k++) p[k] = (unsigned char) (seed * 29 + k * 5 + 3); return r_; }" % (S, name, S)]
        # lvalue shapes over a base pointer; i, j volatile-initialised index variables, C constants
        def ptr_shapes(B):
            return ["*%s" % B, "%s[i]" % B, "%s[%d]" % (B, r.below(3)), "*(%s + i)" % B, "%s[i + %d]" % (B, r.below(3)),
                    "*(%s + %d)" % (B, r.below(3)), "%s[j]" % B, "(&%s[i])[%d]" % (B, r.below(3)), "*(j + %s)" % B]
        core = ptr_shapes("p") + ptr_shapes("q")
        other = ["s", "%s_g" % name, "%s_w.m" % name, "pw->m", "(*pw).m", "%s_wa[i].m" % name, "pw->a[i]", "pw[j].a[%d]" % r.below(3),
                 "%s_w.a[%d]" % (name, r.below(3)), "pw[i].m", "(pw + j)->a[i]", "ps->m", "*pq[i]"]
        src_only = ["%s_mk (%d)" % (name, r.below(50)), "(i ? p[i] : *q)", "(j ? *p : q[i])", "(0, q[i])", "(*p = q[j])", "(pw->m = p[i])",
                    "*(i ? p : q + j)"]
        pairs = [(d, s_) for d in core for s_ in core]
        for _ in range(70):
            pairs.append((r.choice(core + other), r.choice(core + other + src_only)))
            pairs.append((r.choice(other), r.choice(other + core)))
        f = ["static void %s_f (%s *p, %s *q, %s *pw, int cfg) {" % (name, S, S, W),
             "  volatile %s vi = %d; volatile %s vj = %d; %s i = vi; %s j = vj; %s s = %s_mk (7); %s *ps = pw + 1; %s *pq[3];"
             % (ti, r.below(3), tj, r.below(3), ti, tj, S, name, W, S),
             "  char tag[40]; pq[0] = q; pq[1] = p + 2; pq[2] = &pw->m;"]
        body_stm = []
        for k, (d, s_) in enumerate(pairs):
            body_stm.append('  %s_fill (%d); %s = %s; sprintf (tag, "%s.%%d.%d", cfg); %s_hash (tag);' % (name, k, d, s_, name, k, name))
        f += body_stm
        f.append("  { %s t_ = s; %s_g = t_; %s_hash (\"%s.s\"); }" % (S, name, name, name))
        f.append("}")
        glob += f
        body = ["  %s_f (%s_A, %s_A + 1, %s_wa, 0);" % (name, name, name, name),
                "  %s_f (%s_A, %s_B, %s_wa, 1);" % (name, name, name, name),
                "  %s_f (%s_B + 1, %s_B + 1, %s_wa, 2);" % (name, name, name, name),
                '  PS ("%s.size", (int) sizeof (%s));' % (name, S)]
        text = "\n".join(glob) + "\nstatic void %s (void) {\n%s\n}\n" % (name, "\n".join(body))
        return {"name": name, "kind": "saddr", "text": text, "expect": {name + ".size": n}, "lean": [], "info": str(n)}



    # ------------------------------------------------------------------ narrowing casts consumed directly
    NCAST_SRC = ["float", "double", "ldouble", "int", "uint", "long", "ulong", "llong", "ullong", "short", "ushort"]
    NCAST_DST = ["schar", "uchar", "char", "short", "ushort", "int", "uint"]

    def ncast_values(self, S, T):
        r = self.r
        w = width(T)
        lo, hi = tmin(T), tmax(T)
        half = 1 << (w - 1)
        if isf(S):
            base = ([half - 1, half, hi, half + 1, 0, hi - 1] if not signed(T) else [hi, lo, -1, half >> 1, lo + 1, 0])
            out = []
            for b in base:
                fr = Fraction(r.choice([0, 1, 2, 3]), 4)
                v = Fraction(b) + (fr if b >= 0 else -fr)
                if b == 0 and r.chance(1, 2): v = -Fraction(r.choice([1, 2, 3]), 4)
                cand = None
                for c in (v, Fraction(b)):
                    if representable(c, S):
                        cand = c
                        break
                if cand is None:       # clear low bits until the source type can hold it (float and 32-bit targets)
                    k, a = 1, abs(b)
                    while not representable(Fraction(a - a % (1 << k)), S): k += 1
                    cand = Fraction(a - a % (1 << k)) * (1 if b >= 0 else -1)
                if lo - 1 < cand < hi + 1 and cand not in out:
                    out.append(cand)
            return out[:3] + ([out[3 + r.below(len(out) - 3)]] if len(out) > 3 else [])
        full = 1 << w
        cands = [half - 1, half, full - 1, full, full + half, -1, -half, -half - 1, half + 1 + r.below(50), r.next()]
        out = []
        for c in cands:
            v = conv(S, c)
            if v not in out: out.append(v)
        return out[:3] + [out[3 + r.below(len(out) - 3)]] if len(out) > 4 else out

    def unit_ncast(self, src_index):
        r = self.r
        name = self.uname()
        S = self.NCAST_SRC[src_index % len(self.NCAST_SRC)]
        glob, body, expect = [], [], {}
        glob.append("static volatile int %s_one = 1, %s_zero = 0;" % (name, name))
        n = 0
        for T in self.NCAST_DST:
            for v in self.ncast_values(S, T):
                try:
                    e = fconv(T, S, v)
                except (UB, Inexact):
                    continue
                var = "%s_v%d" % (name, n)
                glob.append("static volatile %s %s = %s;" % (xspell(S), var, flit(S, v)))
                L = ("lit", T, e)
                pt = promote(T)
                pe = conv(pt, e)
                bound = (1 << (width(T) - 1)) - 1 if width(T) < 32 else 0
                first = not any(k.startswith("%s.T%s." % (name, T)) for k in expect)
                expect["%s.T%s.%d" % (name, T, n)] = None
                for mode, X in (("r", "((%s) %s)" % (cspell(T), var)), ("c", "((%s) %s)" % (cspell(T), flit(S, v))))[:2 if first else 1]:
                    tag = "%s.%d.%s" % (name, n, mode)
                    ctx = []        # (suffix, statement, expected)
                    ctx.append(("w", '{ ll w_ = %s; PS ("%s.w", w_); }' % (X, tag), e))
                    ctx.append(("uw", '{ ull w_ = %s; PU ("%s.uw", w_); }' % (X, tag), conv("ullong", e)))
                    ctx.append(("i", '{ int w_ = %s; unsigned u_ = %s; PS ("%s.i", w_); PU ("%s.iu", u_); }' % (X, X, tag, tag), conv("int", e)))
                    expect[tag + ".iu"] = conv("uint", e)
                    ctx.append(("d", '{ double w_ = %s; PF ("%s.d", w_); }' % (X, tag), e))
                    for sfx, tree, txt in (("a1", ("bin", "add", L, ("lit", "int", 1)), "%s + 1" % X),
                                           ("m2", ("bin", "mul", L, ("lit", "long", 2)), "%s * 2L" % X),
                                           ("s1", ("bin", "rsh", L, ("lit", "int", 1)), "%s >> 1" % X),
                                           ("d3", ("bin", "div", L, ("lit", "int", 3)), "%s / 3" % X),
                                           ("ng", ("un", "neg", L), "-%s" % X),
                                           ("nt", ("un", "bnot", L), "~%s" % X),
                                           ("ul", ("bin", "add", L, ("lit", "ulong", 0)), "%s + 0UL" % X),
                                           ("gt", ("cmp", "gt", L, ("lit", "int", bound)), "%s > %s" % (X, clit("int", bound))),
                                           ("lt", ("cmp", "lt", L, ("lit", "int", 0)), "%s < 0" % X),
                                           ("eq", ("cmp", "eq", L, ("lit", pt, pe)), "%s == %s" % (X, clit(pt, pe))),
                                           ("lc", ("cmp", "le", L, ("lit", "long", e)), "%s <= %s" % (X, clit("long", e))),
                                           ("q1", ("cond", ("lit", "int", 1), L, ("lit", "long", 0)), "%s_one ? %s : 0L" % (name, X)),
                                           ("q2", ("cond", ("lit", "int", 0), ("lit", "int", 0), L), "%s_zero ? 0 : %s" % (name, X)),
                                           ("q3", ("cond", L, ("lit", "int", 5), ("lit", "int", 6)), "%s ? 5 : 6" % X),
                                           ("la", ("land", L, ("lit", "int", 1)), "%s && %s_one" % (X, name))):
                        try:
                            rt_, rv = ceval(tree)
                        except UB:
                            continue
                        ctx.append((sfx, '%s ("%s.%s", %s);' % ("PS" if signed(rt_) else "PU", tag, sfx, txt), rv))
                    ctx.append(("fa", 'PF ("%s.fa", %s + 0.5);' % (tag, X), Fraction(e) + Fraction(1, 2)))
                    ctx.append(("wd", 'PS ("%s.wd", wid_ (%s)); PU ("%s.uwd", uwid_ (%s)); PF ("%s.dwd", dwid_ (%s));' % (tag, X, tag, X, tag, X), e))
                    expect[tag + ".uwd"] = conv("ullong", e)
                    expect[tag + ".dwd"] = e
                    fmt = "%u" if pt == "uint" else "%d"
                    ctx.append(("va", 'printf ("%s.va %s\\n", %s); { char b_[60]; sprintf (b_, "%s%s", %s, %s); printf ("%s.vb %%s\\n", b_ + (b_[0] == \'-\')); }'
                                % (tag, fmt, X, fmt, fmt, X, X, tag), pe))
                    ctx.append(("sw", 'switch (%s) { case %s: PS ("%s.sw", 1); break; default: PS ("%s.sw", 0); }' % (X, clit(pt, pe), tag, tag), 1))
                    if width(T) <= 16:
                        ctx.append(("ix", 'PS ("%s.ix", mid_ ()[%s]); PS ("%s.ip", *(mid_ () + %s));' % (tag, X, tag, X), ((e + 65536) * 7 + 3) & 255))
                        expect[tag + ".ip"] = ((e + 65536) * 7 + 3) & 255
                    for sfx, st, ev in ctx:
                        body.append("  " + st)
                        expect[tag + "." + sfx] = ev
                n += 1
        expect = {k: v for k, v in expect.items() if v is not None}
        text = "\n".join(glob) + "\nstatic void %s (void) {\n%s\n}\n" % (name, "\n".join(body))
        return {"name": name, "kind": "ncast", "text": text, "expect": expect, "lean": [], "info": S}


    # ------------------------------------------------------------------ objects modified through character-type lvalues
    PUN_TYPES = ["int", "uint", "long", "ulong", "llong", "ullong", "short", "ushort", "char", "schar", "uchar", "float", "double", "ptr"]

    def unit_pun(self, type_index):
        """write an object through its own type, modify some of its bytes through a char / signed char /
        unsigned char lvalue (or memcpy, or a union member), read it back through its own type, and the other
        way round; locals whose address is taken, parameters, pointer parameters (the accesses may or may not
        alias), struct members, array elements, globals.  Only character types, memcpy and unions are used:
        they are the accesses C11 6.5p7 / 6.5.2.3 allow."""
        r = self.r
        name = self.uname()
        tn = self.PUN_TYPES[type_index % len(self.PUN_TYPES)]
        T = {"float": "float", "double": "double", "ptr": "void *"}.get(tn) or cspell(tn)
        size = {"float": 4, "double": 8, "ptr": 8}.get(tn) or width(tn) // 8
        UT = {1: "unsigned char", 2: "unsigned short", 4: "unsigned int", 8: "unsigned long"}[size]
        glob = ["typedef %s %s_T; typedef %s %s_U;" % (T, name, UT, name),
                "static %s_U %s_bits (%s_T x) { %s_U u; memcpy (&u, &x, sizeof (u)); return u; }" % (name, name, name, name),
                "static %s_T %s_mk (%s_U u) { %s_T x; memcpy (&x, &u, sizeof (x)); return x; }" % (name, name, name, name),
                "struct %s_S { char c; %s_T m; short s; %s_T a[2]; };" % (name, name, name),
                "union %s_N { %s_T t; unsigned char b[%d]; signed char sb[%d]; char cb[%d]; %s };" % (
                    name, name, size, size, size, "unsigned short h[%d];" % (size // 2) if size >= 2 else "unsigned char h[1];"),
                "static %s_T %s_g; static struct %s_S %s_gs;" % (name, name, name, name)]
        body = ["  volatile %s_U v1 = %s, v2 = %s; volatile int k = %d, k2 = %d; volatile unsigned char vb = %d, vb2 = %d; %s_T x_, y_; struct %s_S s_; %s_T arr_[3];"
                % (name, clit("ullong", r.next() & ((1 << 8 * size) - 1))[:-3] + "u" if size < 8 else clit("ulong", r.next()),
                   clit("ullong", r.next() & ((1 << 8 * size) - 1))[:-3] + "u" if size < 8 else clit("ulong", r.next()),
                   r.below(size), r.below(size), 1 + r.below(255), r.below(256), name, name, name),
                "  memset (&s_, 0, sizeof (s_)); memset (arr_, 0, sizeof (arr_)); x_ = %s_mk (v1); y_ = %s_mk (v2);" % (name, name)]
        n = 0
        for CT, cn in (("char", "c"), ("signed char", "s"), ("unsigned char", "u")):
            f = "%s_%s" % (name, cn)
            # pointer parameters: store via T*, store via CT*, reload via T*  (+ the reverse order, + read of the byte)
            glob.append("static %s_U %s_p1 (%s_T *x, %s *p, int i, %s_T v, unsigned char b) { *x = v; p[i] = (%s) b; return %s_bits (*x); }" % (name, f, name, CT, name, CT, name))
            glob.append("static %s_U %s_p2 (%s_T *x, %s *p, int i, %s_T v, unsigned char b) { p[i] = (%s) b; *x = v; return (unsigned char) p[i]; }" % (name, f, name, CT, name, CT))
            glob.append("static %s_U %s_p3 (%s_T *x, %s *p, int i, %s_T v, %s_T w, unsigned char b) { %s_U r_; *x = v; r_ = (unsigned char) p[i]; *x = w; r_ = r_ * 256 + (unsigned char) p[i]; p[i] ^= (%s) b; return r_ ^ %s_bits (*x); }"
                        % (name, f, name, CT, name, name, name, CT, name))
            glob.append("static %s_U %s_p4 (%s_T *x, %s *p, int n, %s_T v) { int i; %s_U r_ = 0; for (i = 0; i < n; i++) { *x = v; p[i] = (%s) (p[i] + i + 1); r_ = r_ * 3 + %s_bits (*x); v = *x; } return r_; }"
                        % (name, f, name, CT, name, name, CT, name))
            # parameter and local whose address is taken
            glob.append("static %s_U %s_q1 (%s_T x, int i, unsigned char b) { %s *p = (%s *) &x; p[i] = (%s) b; return %s_bits (x); }" % (name, f, name, CT, CT, CT, name))
            glob.append("static %s_U %s_q2 (%s_T v, int i, unsigned char b) { %s_T x = v; %s *p = (%s *) &x; %s_U r_; p[i] = (%s) b; r_ = %s_bits (x); x = v; p[i] = (%s) (p[i] + 1); return r_ ^ (%s_bits (x) << 1); }"
                        % (name, f, name, name, CT, CT, name, CT, name, CT, name))
            glob.append("static %s_U %s_q3 (%s_T v, int i) { %s_T x = v; return (unsigned char) ((%s *) &x)[i]; }" % (name, f, name, name, CT))
            # struct member, array element, global
            glob.append("static %s_U %s_m1 (struct %s_S *s, int i, %s_T v, unsigned char b) { s->m = v; ((%s *) &s->m)[i] = (%s) b; s->a[1] = s->m; ((%s *) s->a)[sizeof (%s_T) + i] ^= (%s) 0x55; return %s_bits (s->m) ^ (%s_bits (s->a[1]) << 1); }"
                        % (name, f, name, name, CT, CT, CT, name, CT, name, name))
            glob.append("static %s_U %s_a1 (%s_T *a, int j, int i, %s_T v, unsigned char b) { a[j] = v; ((%s *) a)[j * sizeof (%s_T) + i] = (%s) b; return %s_bits (a[j]); }"
                        % (name, f, name, name, CT, name, CT, name))
            glob.append("static %s_U %s_g1 (int i, %s_T v, unsigned char b) { %s *p = (%s *) &%s_g; %s_g = v; p[i] = (%s) b; return %s_bits (%s_g); }"
                        % (name, f, name, CT, CT, name, name, CT, name, name))
            calls = [("p1", "%s_p1 (&x_, (%s *) &x_, k, y_, vb)" % (f, CT)), ("p1n", "%s_p1 (&x_, (%s *) &y_, k, y_, vb)" % (f, CT)),
                     ("p2", "%s_p2 (&x_, (%s *) &x_, k, y_, vb)" % (f, CT)), ("p3", "%s_p3 (&x_, (%s *) &x_, k2, %s_mk (v1), y_, vb2)" % (f, CT, name)),
                     ("p4", "%s_p4 (&x_, (%s *) &x_, %d, %s_mk (v2))" % (f, CT, size, name)),
                     ("q1", "%s_q1 (%s_mk (v1), k, vb)" % (f, name)), ("q2", "%s_q2 (%s_mk (v2), k2, vb2)" % (f, name)), ("q3", "%s_q3 (%s_mk (v1), k)" % (f, name)),
                     ("m1", "%s_m1 (&s_, k, %s_mk (v1), vb)" % (f, name)), ("m1g", "%s_m1 (&%s_gs, k2, %s_mk (v2), vb2)" % (f, name, name)),
                     ("a1", "%s_a1 (arr_, %d, k, %s_mk (v1), vb)" % (f, r.below(3), name)), ("g1", "%s_g1 (k, %s_mk (v2), vb)" % (f, name))]
            for sfx, c in calls:
                body.append('  PU ("%s.%s.%s", %s); PU ("%s.%s.%s.x", %s_bits (x_));' % (name, cn, sfx, c, name, cn, sfx, name))
            # in-line in this function too (locals x_, y_ have their address taken above)
            body.append('  { %s *p = (%s *) &x_; x_ = %s_mk (v1); p[k] = (%s) vb; PU ("%s.%s.i1", %s_bits (x_)); x_ = %s_mk (v2); PU ("%s.%s.i2", (unsigned char) p[k2]); p[k2]++; PU ("%s.%s.i3", %s_bits (x_)); }'
                        % (CT, CT, name, CT, name, cn, name, name, name, cn, name, cn, name))
        # memcpy and union members
        glob.append("static %s_U %s_mc (%s_T *x, int i, %s_T v, unsigned char b) { unsigned char buf[sizeof (%s_T)]; *x = v; memcpy ((char *) x + i, &b, 1); memcpy (buf, x, sizeof (buf)); buf[0] ^= 1; *x = v; memcpy (x, buf, sizeof (buf)); return %s_bits (*x); }"
                    % (name, name, name, name, name, name))
        glob.append("static %s_U %s_un (union %s_N *u, int i, %s_T v, unsigned char b) { %s_U r_; u->t = v; u->b[i] = b; r_ = %s_bits (u->t); u->t = v; u->sb[i] = (signed char) b; r_ ^= %s_bits (u->t) << 1; u->t = v; u->cb[i] ^= (char) b; u->h[i / 2 %% %d] += 3; return r_ ^ (%s_bits (u->t) << 2); }"
                    % (name, name, name, name, name, name, name, max(1, size // 2), name))
        body.append('  { union %s_N u_; memset (&u_, 0, sizeof (u_)); PU ("%s.mc", %s_mc (&x_, k, y_, vb)); PU ("%s.un", %s_un (&u_, k2, %s_mk (v1), vb2)); }' % (name, name, name, name, name, name))
        text = "\n".join(glob) + "\nstatic void %s (void) {\n%s\n}\n" % (name, "\n".join(body))
        return {"name": name, "kind": "pun", "text": text, "expect": {}, "lean": [], "info": tn}

    # ------------------------------------------------------------------ switch over every integer type
    SW_TYPES = ["int", "uint", "long", "ulong", "llong", "ullong", "short", "ushort", "char", "schar", "uchar"]

    def unit_sw(self, type_index):
        r = self.r
        name = self.uname()
        t = self.SW_TYPES[type_index % len(self.SW_TYPES)]
        pt = promote(t)
        T = cspell(t)
        marks = [0, 1, -1, 2 ** 7 - 1, 2 ** 7, 2 ** 8 - 1, 2 ** 8, 2 ** 15 - 1, 2 ** 15, 2 ** 16 - 1, 2 ** 16, 2 ** 31 - 1, 2 ** 31, 2 ** 31 + 1,
                 2 ** 32 - 1, 2 ** 32, 2 ** 32 + 1, 2 ** 32 + 5, 3 * 2 ** 32 + 1, 2 ** 33, 2 ** 63 - 1, 2 ** 63, 2 ** 63 + 1, 2 ** 64 - 1,
                 -2 ** 7, -2 ** 15, -2 ** 31, -2 ** 31 - 1, -2 ** 32, -2 ** 32 + 1, -2 ** 63, -2 ** 63 + 1, 1000, 5]
        inr = sorted({m for m in marks if tmin(t) <= m <= tmax(t)})          # representable in the controlling type
        glob, body = [], []
        tests = set()
        nf = 0

        def func(cases, default, dflt_pos, fall):
            """cases: distinct values of type t"""
            nonlocal nf
            fn = "%s_f%d" % (name, nf); nf += 1
            lines = ["static int %s (%s x) {" % (fn, T), "  int r_ = 0;", "  switch (%s) {" % r.choice(["x", "x", "x + 0", "(%s) x" % T])]
            items = [("case %s:" % clit(pt, c), 10 + i) for i, c in enumerate(cases)]
            if default:
                items.insert(min(dflt_pos, len(items)), ("default:", -1))
            for lab, val in items:
                lines.append("  %s r_ += %d;%s" % (lab, val * 7 + 1, "" if (fall and r.chance(1, 4)) else " break;"))
            lines += ["  }", "  return r_;", "}"]
            glob.append("\n".join(lines))
            vals = set()
            for c in cases:
                for d in (0, 1, -1, 2 ** 32, -2 ** 32, 2 ** 31, 2 ** 16, 2 ** 8, 2 ** 33 + 0, 5 * 2 ** 32):
                    vals.add(conv(t, c + d))
                    if width(t) == 64: vals.add(conv(t, (c % 2 ** 32) + d * 3))      # same low 32 bits, other high half
            for m in r.choice([inr, inr[::2], inr[1::2]]):
                vals.add(m)
            vals = sorted(vals)
            glob.append("static volatile %s %s_v[] = { %s };" % (T, fn, ", ".join(clit(t, v) for v in vals)))
            body.append('  { int i_; for (i_ = 0; i_ < %d; i_++) PS ("%s", %s (%s_v[i_])); }' % (len(vals), fn, fn, fn))

        # dense sets (jump table) at several bases, sparse sets (compare chain) of boundary constants
        bases = [b for b in (0, -3, 2 ** 31 - 4, 2 ** 32 - 3, 2 ** 32, 2 ** 63 - 5, 2 ** 63 - 2, -2 ** 31 - 3, tmax(t) - 7, tmin(t), 100, 2 ** 15 - 3, 2 ** 7 - 4)
                 if tmin(t) <= b and b + 9 <= tmax(t)]
        for b in [bases[0]] + [r.choice(bases) for _ in range(2)]:
            n = 4 + r.below(6)
            cs = [b + i for i in range(n) if not r.chance(1, 8)]
            func(cs, r.chance(3, 4), r.below(n + 1), r.chance(1, 2))
        for _ in range(3):
            k = 2 + r.below(6)
            cs = sorted({r.choice(inr) for _ in range(k)} | {c for c in (r.choice(inr) + r.below(3) for _ in range(2)) if tmin(t) <= c <= tmax(t)})
            r2 = list(cs)
            if r.chance(1, 2): r2.reverse()
            func(r2, r.chance(3, 4), r.below(len(r2) + 1), r.chance(1, 3))
        # nested switch + switch on a wider expression of the value
        glob.append("static int %s_n (%s x, %s y) { switch (x) { case %s: switch (y) { case %s: return 1; case %s: return 2; default: return 3; } case %s: return 4; } return 5; }"
                    % (name, T, T, clit(pt, inr[0]), clit(pt, inr[-1]), clit(pt, inr[len(inr) // 2]), clit(pt, inr[-1])))
        body.append('  { volatile %s a_ = %s, b_ = %s, c_ = %s; PS ("%s.n", %s_n (a_, b_) * 100 + %s_n (a_, c_) * 10 + %s_n (b_, a_)); }' % (
            T, clit(t, inr[0]), clit(t, inr[-1]), clit(t, inr[len(inr) // 2]), name, name, name, name))
        text = "\n".join(glob) + "\nstatic void %s (void) {\n%s\n}\n" % (name, "\n".join(body))
        return {"name": name, "kind": "sw", "text": text, "expect": {}, "lean": [], "info": t}


    # ------------------------------------------------------------------ bit-field promotion at the boundary widths
    def unit_bfp(self, index):
        """bit-fields of width 1, 7, 8, 15, 16, 31, 32 (and 33, base width - 1, base width for wider bases) holding
        values at and above their sign boundary, used DIRECTLY as operands: / % >> < > == conversions to wider
        integer types and to double, unary and binary operators, ?:, arguments.  For the standard bit-field types
        (int, unsigned) everything incl. the promoted type (_Generic, sizeof) is compared; for wider declared types
        only operations whose value does not depend on the width the arithmetic is carried out in (gcc keeps the
        odd width, and promotes widths <= 32 by value range: known finding C07:wide-bitfield-promotion)."""
        r = self.r
        name = self.uname()
        bases = ["int", "uint", "int", "uint", "long", "ulong", "llong", "ullong", "short", "ushort", "uchar", "schar"]
        bt = bases[index % len(bases)]
        S = width(bt)
        std = bt in ("int", "uint")
        lim = 32 if "C07:wide-bitfield-promotion" in AVOID else 33      # widths below lim promote like int bit-fields
        ws = sorted({w for w in (1, 2, 7, 8, 15, 16, 31, 32, 33, S - 1, S) if 1 <= w <= S})
        glob = ["struct %s_s { %s };" % (name, " ".join("%s f%d:%d;" % (cspell(bt), w, w) for w in ws)),
                "static ll %s_w (ll x) { return x; } static double %s_d (double x) { return x; }" % (name, name)]
        body = ["  struct %s_s s; volatile int one = 1, three = 3; memset (&s, 0, sizeof (s));" % name]
        k = 0
        for w in ws:
            if signed(bt):
                vals = [-(1 << (w - 1)), -1, (1 << (w - 1)) - 1, 0 if w == 1 else 1]
            else:
                vals = [(1 << w) - 1, 1 << (w - 1), (1 << (w - 1)) - 1, (1 << (w - 1)) + 1 if w > 1 else 0]
            f = "s.f%d" % w
            for v in vals[:2] + [r.choice(vals[2:])]:
                body.append("  { volatile %s src_ = %s; %s = src_; }" % (cspell(bt), clit(bt, conv(bt, v)), f))
                tag = "%s.%d.%d" % (name, w, k); k += 1
                ops = ["%s / 3" % f, "%s %% 7" % f, "%s >> 1" % f, "%s / three" % f, "%s < 1" % f, "%s > 0" % f, "%s < one" % f,
                       "%s == %s" % (f, clit(bt, conv(bt, v))), "%s >= %s" % (f, clit("int", 2)), "%s ? 3 : 4" % f, "!%s" % f, "%s && one" % f]
                conv_ops = ['PS ("%s.ll", (ll) %s); PU ("%s.ull", (ull) %s); PF ("%s.db", (double) %s); PF ("%s.fl", (float) %s);' % (tag, f, tag, f, tag, f, tag, f),
                            '{ ll w_ = %s; double d_ = %s; unsigned long u_ = %s; PS ("%s.wl", w_); PF ("%s.wd", d_); PU ("%s.wu", u_); }' % (f, f, f, tag, tag, tag),
                            'PS ("%s.aw", %s_w (%s)); PF ("%s.ad", %s_d (%s)); printf ("%s.va %%lld\\n", (ll) (%s / 1));' % (tag, name, f, tag, name, f, tag, f)]
                if std or w < lim:
                    # arithmetic whose result depends on the promoted type
                    ops += ["%s > -1" % f, "%s < -1" % f, "%s / -1" % f if not (signed(bt) and v == -(1 << (w - 1)) and w == 32) else "%s / 1" % f,
                            "%s >> 31" % f, "~%s" % f, "%s + 0u" % f, "%s * 2u" % f, "%s - 1u" % f, "(%s, %s)" % (f, f), "one ? %s : 0" % f, "one ? %s : 0u" % f]
                    if not signed(bt) or v != -(1 << (w - 1)) or w < 32:
                        ops.append("-%s" % f)
                for j, o in enumerate(ops):
                    body.append('  PS ("%s.o%d", (ll) (%s));' % (tag, j, o))
                    if (std or w < lim) and not o.startswith("(") and (j % 4 == 0 or o.startswith(("~", "-", "one ?")) or o.endswith("u")):
                        body.append('  PS ("%s.t%d", TYPEID (%s) * 100 + (int) sizeof (%s));' % (tag, j, o, o))
                for c in conv_ops:
                    if w == 64 and not signed(bt) and "C07:bitfield-u64-to-double" in AVOID:
                        c = re.sub(r'PF \("[^"]*", [^;]*\);|double d_ = [^;]*;|PF \("[^"]*\.wd", d_\);', "", c)
                    body.append("  " + c)
        text = "\n".join(glob) + "\nstatic void %s (void) {\n%s\n}\n" % (name, "\n".join(body))
        return {"name": name, "kind": "bfp", "text": text, "expect": {}, "lean": [], "info": bt}

    # ------------------------------------------------------------------ several struct results alive in one expression
    def unit_sret(self):
        """functions returning structs by value - through a hidden address (> 16 bytes), in two registers, in one -
        with several results alive in ONE full expression: as arguments of another call, operands of ?: and comma,
        `.member` of a result, nested, mixed with scalar and double arguments"""
        r = self.r
        name = self.uname()
        glob, body = [], []
        kinds, inl = [], []
        for i, (nm, mem) in enumerate((("b", r.choice(["long x, y, z;", "long x; int y; long z; char q; long t;", "double x; long y, z;", "int v[7]; long y, z;", "long x, y, z, t, u, w, q;"])),
                                       ("m", r.choice(["long x, y;", "int x; long y; int z;", "double x; long y;"])),
                                       ("s", r.choice(["int x, y;", "char x; short y; char z;", "int y; float x;"])))):
            S = "struct %s_%s" % (name, nm)
            has_z = " z" in mem or ", z" in mem
            glob.append("%s { %s };" % (S, mem))
            first = "v[0]" if "v[7]" in mem else "x"
            glob.append("static %s %s_mk%s (long a, long b) { %s r_; memset (&r_, 0, sizeof (r_)); r_.%s = a; r_.y = b + %d; return r_; }" % (S, name, nm, S, first, i))
            glob.append("static long %s_dot%s (%s p, %s q) { return (long) p.%s * 3 + (long) q.%s * 5 + (long) p.y * 7 + (long) q.y * 11; }" % (name, nm, S, S, first, first))
            glob.append("static %s %s_add%s (%s p, %s q) { %s r_ = p; r_.%s = p.%s + q.%s; r_.y = p.y - q.y; return r_; }" % (S, name, nm, S, S, S, first, first, first))
            # the same without any call inside (inlinable at -O2): initialiser list, direct member use
            if "v[7]" not in mem:
                glob.append("static %s %s_in%s (long v) { %s r_ = { v, %s }; return r_; }" % (S, name, nm, S, "-v" if nm == "s" else "v * 10"))
                glob.append("static long %s_df%s (%s p, %s q) { return (long) (p.%s - q.%s) * 1000 + (long) (p.y - q.y); }" % (name, nm, S, S, first, first))
                inl.append(nm)
            kinds.append((nm, S, first))
        glob.append("static long %s_mix (struct %s_b p, struct %s_s q, double d, struct %s_m u, struct %s_b v, int n) { return (long) p.y * 2 + (long) q.y * 3 + (long) (d * 2) + (long) u.y * 5 + (long) v.y * 7 + n; }"
                    % (name, name, name, name, name))
        body.append("  volatile long a = %d, b = %d, c = %d; volatile int t = 1, z = 0;" % (r.below(100) - 50, r.below(100), r.below(1000)))

        def mk(nm, depth):
            c = r.below(6) if depth > 0 else 0
            A = lambda: r.choice(["a", "b", "c", str(r.below(50)), "a + %d" % r.below(9)])
            if c <= 1: return "%s_mk%s (%s, %s)" % (name, nm, A(), A())
            if c == 2: return "%s_add%s (%s, %s)" % (name, nm, mk(nm, depth - 1), mk(nm, depth - 1))
            if c == 3: return "(%s ? %s : %s)" % (r.choice(["t", "z", "a > b"]), mk(nm, depth - 1), mk(nm, depth - 1))
            if c == 4: return "(%s, %s)" % (mk(r.choice("bms"), depth - 1), mk(nm, depth - 1))
            return "%s_add%s (%s, %s_mk%s (%s_dot%s (%s, %s), 1))" % (name, nm, mk(nm, depth - 1), name, nm, name, nm, mk(nm, 0), mk(nm, 0))

        n = 0
        # small callers (MIR inlines only into functions of < 200 insns): results of different struct types one
        # after the other, the inlined callees' frames overlay each other
        for wk in range(4):
            if "C07:gvn-load-alias" in AVOID: break
            order = [r.choice(inl) for _ in range(2 + r.below(3))] if inl else []
            if not order: break
            terms = ["%s_df%s (%s_in%s (%s), %s_in%s (%s))" % (name, nm, name, nm, r.choice(["a", "9", "b + 1"]), name, nm, r.choice(["c", "4", "a - 2"]))
                     for nm in order]
            lines = ["  long r%d = %s;" % (i, t) for i, t in enumerate(terms)]
            glob.append("static long %s_w%d (long a, long b, long c) {\n%s\n  return %s;\n}" % (
                name, wk, "\n".join(lines), " + ".join("r%d * %d" % (i, 3 + 2 * i) for i in range(len(terms)))))
            body.append('  PS ("%s.w%d", %s_w%d (a, b, c));' % (name, wk, name, wk))
        for nm, S, first in kinds:
            for _ in range(4 if nm == "b" else 2):
                body.append('  PS ("%s.%s.%d", %s_dot%s (%s, %s));' % (name, nm, n, name, nm, mk(nm, 2), mk(nm, 2))); n += 1
                body.append('  PS ("%s.%s.%d", %s.y + %s.%s);' % (name, nm, n, mk(nm, 2), mk(nm, 1), first)); n += 1
            body.append("  { %s l_ = %s; %s m_[2]; m_[0] = %s; m_[1] = %s_add%s (l_, m_[0]); PS (\"%s.%s.%d\", %s_dot%s (m_[1], l_)); }"
                        % (S, mk(nm, 2), S, mk(nm, 1), name, nm, name, nm, n, name, nm)); n += 1
        for _ in range(4):
            body.append('  PS ("%s.x.%d", %s_mix (%s, %s, %d.5, %s, %s, (int) %s_dotb (%s, %s)));' % (
                name, n, name, mk("b", 2), mk("s", 1), r.below(20), mk("m", 1), mk("b", 1), name, mk("b", 1), mk("b", 0))); n += 1
        text = "\n".join(glob) + "\nstatic void %s (void) {\n%s\n}\n" % (name, "\n".join(body))
        return {"name": name, "kind": "sret", "text": text, "expect": {}, "lean": [], "info": ""}


def assemble(units):
    src = [PRELUDE]
    for u in units:
        src.append(u["text"])
    src.append("int main (void) {")
    for u in units:
        src.append("  %s ();" % u["name"])
    src.append('  printf ("chk %llu\\n", chk);\n  return (int) (chk & 63);\n}')
    return "\n".join(src) + "\n"


def gen_program(rng, index, pair_cursor):
    """one program: a mix of units; `pair_cursor` walks through the 144 type pairs"""
    g = Gen(rng)
    kinds = [["conv", "conv", "cexpr", "ctrl", "fcexpr", "pun"], ["bitf", "bfp", "init", "cexpr", "saddr", "ncast"],
             ["scopy", "calls", "ctrl", "conv", "fcexpr", "sw", "sret"], ["conv", "bitf", "calls", "init", "saddr", "ncast"]][index % 4]
    units = []
    for k in kinds:
        if k == "conv":
            units.append(g.unit_conv(pair_cursor[0])); pair_cursor[0] += 1
        elif k == "cexpr": units.append(g.unit_cexpr())
        elif k == "bitf": units.append(g.unit_bitf())
        elif k == "init": units.append(g.unit_init())
        elif k == "ctrl": units.append(g.unit_ctrl())
        elif k == "scopy":
            base = (index // 4 * 8) % 64
            units.append(g.unit_scopy([base + i + 1 for i in range(8)]))
        elif k == "calls": units.append(g.unit_calls())
        elif k == "fcexpr": units.append(g.unit_fcexpr())
        elif k == "saddr": units.append(g.unit_saddr(index // 2))
        elif k == "ncast": units.append(g.unit_ncast(index // 2))
        elif k == "pun": units.append(g.unit_pun(index // 4))
        elif k == "bfp": units.append(g.unit_bfp(index // 4))
        elif k == "sret": units.append(g.unit_sret())
        elif k == "sw": units.append(g.unit_sw(index // 4))
    return units
