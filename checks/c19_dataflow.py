"""C19, dataflow-solver part: correspondence of lean/MirVerif/Model/Dataflow.lean (driver mirdrv_c19d) with
`solve_dataflow` of /repo/mir-gen.c, the consumer of the bitmap change flags named in the property's anchors.

Called by checks/c19.py:  SUPPORT and run(ck).

Tie: on every run the text of rpost_cmp / post_cmp / struct data_flow_ctx / the worklist macros /
solve_dataflow is cut out of /repo/mir-gen.c and compiled between harness/c19_dataflow_pre.inc (minimal
struct bb / edge / gen_ctx) and harness/c19_dataflow_main.inc (problems from stdin; confluence and transfer
callbacks built on the real bitmap_ior / bitmap_and / bitmap_ior_and / bitmap_ior_and_compl, whose return
values are the flags the solver relies on).  Both sides solve the same random problems (union and
intersection problems, forward and backward, universes of 1..200 bits so that bitmaps of different
lengths meet) and must print the same visiting trace (which blocks, in which order, with which flags) and the same final in/out sets.

Verdicts:
  * the real solver stops at sets that do not satisfy the equations (`fix=0`, decided bit by bit by the
    harness, independently of the model)      => the property's consequence fails on the real code => violation
  * trace or sets differ from the model but fix=1 => only the tie is broken                         => broken_ties
"""
import os, subprocess, time
from vf import VERIF, REPO, LEAN, CACHE, SplitMix

SUPPORT = ["MirVerif.Model.Dataflow", "MirVerif.Lemmas.Dataflow"]
DRV = os.path.join(LEAN, ".lake", "build", "bin", "mirdrv_c19d")
SAN = ["-fsanitize=address,undefined", "-fno-sanitize-recover=all"]
CORPUS = os.path.join(VERIF, "corpus", "C19", "dataflow.txt")


def extract():
    src = open(os.path.join(REPO, "mir-gen.c"), errors="replace").read()
    i = src.index("static int rpost_cmp (")
    j = src.index("static void solve_dataflow (")
    k = src.index("\n}\n", j) + 3
    return src[i:k]


def gen_problem(rng, small):
    n = 1 + rng.below(4 if small else 12)
    u = rng.choice([1, 3, 7, 64, 65, 130, 200] if not small else [1, 2, 3, 65, 130])
    fwd = rng.below(2)
    mode = rng.below(2)
    ne = rng.below(2 * n + 2)
    edges = []
    # mostly a chain with extra (back/self/duplicate) edges, sometimes arbitrary
    if rng.chance(2, 3):
        for b in range(n - 1):
            if rng.chance(5, 6):
                edges.append((b, b + 1))
    for _ in range(ne):
        edges.append((rng.below(n), rng.below(n)))
    rpost = list(range(n))
    for i in range(n - 1, 0, -1):        # random permutation (distinct keys: qsort order is determined)
        k = rng.below(i + 1)
        rpost[i], rpost[k] = rpost[k], rpost[i]

    def mask(dens):
        m = 0
        for b in range(u):
            if rng.chance(1, dens):
                m |= 1 << b
        # whole high words clear / set now and then: the lengths of the bitmaps differ
        if u > 64 and rng.chance(1, 3):
            m &= (1 << 64) - 1
        return m
    gen = [mask(rng.choice([2, 6, 40])) for _ in range(n)]
    kill = [mask(rng.choice([2, 6, 40])) for _ in range(n)]
    full = (1 << u) - 1
    if mode == 0:
        out0 = [0] * n if rng.chance(1, 2) else list(gen)
    else:
        out0 = [full] * n
    toks = ["D", fwd, mode, n, u, len(edges)]
    for s, d in edges:
        toks += [s, d]
    toks += rpost + ["%x" % x for x in gen + kill + out0]
    return " ".join(map(str, toks))


def canon(o):
    """pass boundaries are not observable from the callbacks (the harness guesses them from the sort keys), so
    the compared trace is the sequence of events; the number of passes is reported from the model only"""
    t = o.split(" ")
    return " ".join(x.replace("|", ",") for x in t if not x.startswith("passes="))


def run_lines(exe, lines, timeout=600):
    r = subprocess.run([exe], input="\n".join(lines) + "\n", stdout=subprocess.PIPE, stderr=subprocess.PIPE,
                       text=True, timeout=timeout)
    return r.returncode, r.stdout.split("\n"), r.stderr


def run(ck):
    t0 = time.time()
    try:
        text = extract()
    except ValueError as e:
        ck.broken_ties.append({"kind": "extract", "name": "solve_dataflow", "log": str(e)})
        ck.stage("c19_dataflow", ok=False)
        return
    gdir = os.path.join(CACHE, "c19_dataflow")
    os.makedirs(gdir, exist_ok=True)
    import hashlib
    h = hashlib.sha256(text.encode()).hexdigest()[:16]
    cfile = os.path.join(gdir, f"c19_dataflow_{h}.c")
    if not os.path.exists(cfile):
        with open(cfile + f".{os.getpid()}", "w") as f:
            f.write('#include "c19_dataflow_pre.inc"\n' + text + '\n#include "c19_dataflow_main.inc"\n')
        os.replace(cfile + f".{os.getpid()}", cfile)
    deps = [os.path.join(VERIF, "harness", x) for x in ("c19_dataflow_pre.inc", "c19_dataflow_main.inc")]
    built = ck.cc_par([("c19_dataflow_chk", [cfile], ["-O1", "-g"] + SAN, deps),
                       ("c19_dataflow_ndebug", [cfile], ["-O2", "-g", "-DNDEBUG"] + SAN, deps)])
    exes = {}
    for name in ("c19_dataflow_chk", "c19_dataflow_ndebug"):
        if built.get(name) is None:
            ck.broken_ties.append({"kind": "harness-compile", "name": name,
                                   "log": getattr(ck, "last_cc_log", "")[-1500:]})
        else:
            exes[name] = built[name]
    if not os.path.exists(DRV):
        ck.broken_ties.append({"kind": "driver-missing", "name": "mirdrv_c19d"})
    if len(exes) < 2 or not os.path.exists(DRV):
        ck.stage("c19_dataflow", ok=False)
        return

    lines = []
    if os.path.exists(CORPUS):
        lines += [l.strip() for l in open(CORPUS) if l.startswith("D ")]
    ncorpus = len(lines)
    nsmall, nbig = (1500, 2500) if ck.tier == "quick" else (20000, 40000)
    rng = SplitMix(ck.seed * 7919 + 19)
    lines += [gen_problem(rng, True) for _ in range(nsmall)]
    lines += [gen_problem(rng, False) for _ in range(nbig)]

    rc_m, out_m, err_m = run_lines(DRV, lines)
    if rc_m != 0 or len(out_m) < len(lines):
        ck.broken_ties.append({"kind": "driver-run", "name": "mirdrv_c19d", "log": err_m[-800:]})
        ck.stage("c19_dataflow", ok=False)
        return
    stats = {"problems": len(lines), "corpus": ncorpus, "passes_hist": {}, "multi_pass": 0, "modes": {}}
    for l, o in zip(lines, out_m):
        t = l.split()
        key = ("fwd" if t[1] == "1" else "bwd") + ("-union" if t[2] == "0" else "-inter")
        stats["modes"][key] = stats["modes"].get(key, 0) + 1
        p = o.split(" ")[0]
        stats["passes_hist"][p] = stats["passes_hist"].get(p, 0) + 1
        if p not in ("passes=1", "passes=2"):
            stats["multi_pass"] += 1
    nviol = ntie = 0
    for name, exe in exes.items():
        try:
            rc, out, err = run_lines(exe, lines)
        except subprocess.TimeoutExpired:
            rc, out, err = -9, [], "timeout (the real solver did not terminate on some problem)"
        for idx, l in enumerate(lines):
            o_c = out[idx] if idx < len(out) else f"<no output: rc={rc} {err[-300:]}>"
            o_m = out_m[idx]
            if canon(o_c) == canon(o_m) and "MODEL-MISMATCH" not in o_m and " fix=1 " in o_c:
                continue
            replay = {"stage": "c19_dataflow", "flavour": name, "problem": l, "code": o_c, "model": o_m,
                      "how": f"echo '{l}' | <harness built by checks/c19_dataflow.py> ; echo '{l}' | {DRV}"}
            if " fix=0 " in o_c or idx >= len(out):
                # the real solver stopped at a non-solution (or crashed / hung): the property's consequence fails
                if nviol < 3:
                    ck.violation(replay, what="solve_dataflow stops at sets that violate the dataflow equations "
                                              "(or does not finish) on: " + l[:200])
                nviol += 1
            else:
                if ntie < 3:
                    ck.broken_ties.append({"kind": "correspondence", "name": "solve_dataflow vs Model/Dataflow.lean",
                                           "flavour": name, "problem": l, "code": o_c[:600], "model": o_m[:600]})
                ntie += 1
            if idx >= len(out):
                break
    ck.cov["evaluations"] += 2 * len(lines)
    ck.cov["distinct_nontrivial"] += stats["multi_pass"]
    ck.stage("c19_dataflow", ok=(nviol == 0 and ntie == 0), seconds=round(time.time() - t0, 1),
             violations=nviol, tie_differences=ntie, **stats)
