"""C08 — c2mir lays out and passes C data exactly as the platform ABI (x86-64 System V) does.

Stages
 1. proof gate: MirVerif.Props.C08 (+ models, lemmas), driver mirdrv_c08.
 2. c2m is built from VERIF_REPO's *current* sources; a small harness exposes `get_result_type`.
 3. layout tie: random declarations -> one TU compiled by c2m (run with -ei) and by gcc, both print
    sizeof/_Alignof/offsetof and bit-field byte images; both must equal `mirdrv_c08 layout`
    (c2m side = model of the code, gcc side = specification).
 4. passing tie: prototypes with aggregates in parameter positions 1..10 and as return value;
    (a) where every eightbyte travels (captured registers / stack) for c2m and gcc callers must
    equal `mirdrv_c08 proto`; (b) values must arrive intact gcc->c2m and c2m->gcc, -eg and -ei.
A mismatch between the real c2m and gcc is shrunk with the real compilers and named by the
features of the minimal declaration; listed classes are KNOWN-FINDINGs, unlisted ones VIOLATIONs.
"""
import json, os, subprocess, sys, tempfile, shutil, time
from concurrent.futures import ThreadPoolExecutor
from vf import Check, VERIF, REPO
import c08_gen as G
import c08_pass as P

ck = Check("C08")
QUICK = ck.tier == "quick"
WORK = tempfile.mkdtemp(prefix="c08-")          # scratch only; removed at the end


OUT_CAP = 32 << 20          # bytes of stdout/stderr kept per child
FSIZE_CAP = 256 << 20       # RLIMIT_FSIZE for every child (also caps its redirected stdout)


def _child_limits():
    import resource
    os.setsid()
    resource.setrlimit(resource.RLIMIT_FSIZE, (FSIZE_CAP, FSIZE_CAP))
    resource.setrlimit(resource.RLIMIT_CORE, (0, 0))
    resource.setrlimit(resource.RLIMIT_CPU, (900, 900))


def run(cmd, inp=None, timeout=120, cwd=None):
    """run a child with a wall-clock timeout (whole process group is killed), CPU and file-size
    limits, no core dumps; stdout/stderr go to size-capped scratch files, at most OUT_CAP is read"""
    import signal
    fo = tempfile.TemporaryFile(dir=WORK)
    fe = tempfile.TemporaryFile(dir=WORK)
    try:
        p = subprocess.Popen(cmd, stdin=subprocess.PIPE if inp is not None else subprocess.DEVNULL,
                             stdout=fo, stderr=fe, cwd=cwd, preexec_fn=_child_limits)
        try:
            p.communicate(inp.encode() if inp is not None else None, timeout=timeout)
            rc = p.returncode
        except subprocess.TimeoutExpired:
            try:
                os.killpg(p.pid, signal.SIGKILL)
            except OSError:
                pass
            p.wait()
            rc = -999
        fo.seek(0)
        fe.seek(0)
        out = fo.read(OUT_CAP).decode(errors="replace")
        err = fe.read(OUT_CAP).decode(errors="replace")
        return rc, out, (err if rc != -999 else err + "timeout")
    finally:
        fo.close()
        fe.close()


# ------------------------------------------------------------------------------------- 1. proofs
SUPPORT = ["MirVerif.Model.Layout", "MirVerif.Model.Classify", "MirVerif.Lemmas.Layout",
           "MirVerif.Lemmas.LayoutBf", "MirVerif.Lemmas.Classify"]
SUPPORT = [m for m in SUPPORT if os.path.exists(os.path.join(VERIF, "lean", m.replace(".", "/") + ".lean"))]
ck.proof_gate(["MirVerif.Props.C08"], support_modules=SUPPORT, exes=["mirdrv_c08"])

# ------------------------------------------------------------------------------------- 2. build
srcs = [os.path.join(REPO, f) for f in ("mir.c", "mir-gen.c", "c2mir/c2mir.c", "c2mir/c2mir-driver.c")]
built = ck.cc_par([("c08_c2m", srcs, ["-O1", "-DNDEBUG", "-w"]),
                   ("c08_merge", ["harness/c08_merge.c", os.path.join(REPO, "mir.c")], ["-O1", "-DNDEBUG", "-w"])])
C2M, MERGE = built["c08_c2m"], built["c08_merge"]
if C2M is None:
    ck.broken_ties.append({"kind": "harness-compile", "name": "c08_c2m", "log": getattr(ck, "last_cc_log", "")[-1500:]})
    ck.finish()
if MERGE is None:
    ck.broken_ties.append({"kind": "harness-compile", "name": "c08_merge", "log": getattr(ck, "last_cc_log", "")[-1500:]})


def drv(lines):
    rc, out, err = ck.drv("mirdrv_c08", [], "\n".join(lines) + "\n")
    res = out.split("\n")
    if rc != 0 or len(res) < len(lines):
        ck.broken_ties.append({"kind": "driver", "name": "mirdrv_c08", "log": (err or out)[-800:]})
        return [""] * len(lines)
    return res[:len(lines)]


# ------------------------------------------------------------------------------------- merge table
def merge_tie():
    if MERGE is None:
        return
    rc, out, err = run([MERGE])
    model = drv(["merge"])[0]
    real = out.strip()
    ck.cov["merge_table"] = real
    if rc != 0 or real != model:
        # the property-level consequence is searched by the passing tie; here the tie itself is broken
        ck.broken_ties.append({"kind": "correspondence", "name": "get_result_type vs c2mMerge",
                               "first_diff": {"impl": real, "model": model}})


# ------------------------------------------------------------------------------------- 2b. enum rule tie
def enum_tie(ranges, origin, regress=()):
    """underlying type of `enum { A = least, B = greatest }`: freshly built c2m and gcc (sizeof, _Alignof,
    signedness) against c2mEnumBase / gccEnumBase; c2m vs gcc is the property (enum_base_meets_gcc)"""
    src = ["#include <stdio.h>\n"]
    for i, (mn, mx) in enumerate(ranges):
        src.append(f"enum t{i} {{ T{i}A = {G.c_int(mn)}, T{i}B = {G.c_int(mx)} }};\n")
    src.append("int main(void) {\n")
    for i in range(len(ranges)):
        src.append(f"  printf(\"N {i} %d %d %d\\n\", (int) sizeof(enum t{i}), (int) _Alignof(enum t{i}), (enum t{i}) -1 < 0);\n")
    src.append("  return 0;\n}\n")
    (r2, o2, e2), (rg, og, eg) = compile_run_both("".join(src), "enum")
    # GCC diagnoses a range that no 64-bit type holds with the unconditional warning "enumeration values
    # exceed range of largest integer" (and goes on with a wrapped value); c2mir makes it an error
    dpath = os.path.join(WORK, f"enumdiag{next(_tu_n)}.c")
    with open(dpath, "w") as f:
        f.write("".join(src))
    _, _, gdiag = run(["gcc", "-fsyntax-only", dpath], timeout=120)
    os.remove(dpath)
    gcc_rejects = "exceed range of largest integer" in gdiag
    if (r2 != 0 or rg != 0 or gcc_rejects) and len(ranges) > 1:
        # a compiler rejects one of the declarations: evaluate every range on its own
        st = {"ranges": 0, "c2m_eq_gcc": 0, "both_reject": 0, "model_c2m_mismatch": 0, "model_gcc_mismatch": 0, "one_by_one": True}
        for rg1 in ranges:
            s1 = enum_tie([rg1], origin, regress)
            for k in ("ranges", "c2m_eq_gcc", "both_reject", "model_c2m_mismatch", "model_gcc_mismatch"):
                st[k] += s1[k]
        return st

    def parse(out):
        d = {}
        for ln in out.split("\n"):
            f = ln.split()
            if len(f) == 5 and f[0] == "N":
                d[int(f[1])] = (int(f[2]), int(f[3]), int(f[4]))
        return d
    pc, pg = parse(o2), ({} if gcc_rejects else parse(og))
    lines = drv([f"enum {mn} {mx}" for mn, mx in ranges])
    SIGNED = {"int": 1, "long": 1, "llong": 1, "uint": 0, "ulong": 0, "ullong": 0}
    st = {"ranges": len(ranges), "c2m_eq_gcc": 0, "both_reject": 0, "model_c2m_mismatch": 0, "model_gcc_mismatch": 0}
    for i, (mn, mx) in enumerate(ranges):
        parts = [x.split() for x in lines[i].split("|")]
        try:
            mc = (int(parts[0][3]), int(parts[0][3]), SIGNED[parts[0][2]]) if parts[0][4] == "ok=1" else None
            mg = (int(parts[1][2]), int(parts[1][2]), SIGNED[parts[1][1]]) if parts[1][3] == "ok=1" else None
        except (IndexError, ValueError, KeyError):
            ck.broken_ties.append({"kind": "driver", "name": "mirdrv_c08 enum", "first_diff": {"line": lines[i]}})
            continue
        c, g = pc.get(i), pg.get(i)
        if g != mg or (mg is not None and G.enum_size(mn, mx) != mg[0]):
            st["model_gcc_mismatch"] += 1
            ck.broken_ties.append({"kind": "correspondence", "name": "gccEnumBase vs gcc",
                                   "first_diff": {"range": [mn, mx], "gcc": g, "model": mg}})
        if c == g:
            st["c2m_eq_gcc"] += 1
            st["both_reject"] += c is None
            if c != mc:
                st["model_c2m_mismatch"] += 1
                ck.broken_ties.append({"kind": "correspondence", "name": "c2mEnumBase vs c2m (c2m agrees with gcc)",
                                       "first_diff": {"range": [mn, mx], "c2m": c, "model": mc}})
            continue
        if c is None:
            sig = ("C08:enum-negative-and-llong-max-rejected" if mn < 0 and mx == 2 ** 63 - 1 and "not represented by an int" in e2
                   else "C08:enum-rejected-by-c2m")
        elif g is None:
            sig = "C08:enum-accepted-by-c2m-rejected-by-gcc"
        elif c[:2] != g[:2]:
            sig = "C08:enum-underlying-size" + ("+model-says-equal" if mc is not None and mg is not None and mc[:2] == mg[:2] else "")
        elif g[0] == 8 and mn == 0:
            sig = "C08:enum64-without-negative-enumerator-is-signed"
        else:
            sig = "C08:enum-underlying-signedness"
        if (mn, mx) in regress:
            sig = "C08:regression-of-fixed-finding:" + sig.split(":", 1)[-1]      # never listed
        ck.violation({"stage": "tie", "theorem_or_correspondence": "enum_base_meets_gcc: c2m vs gcc",
                      "input": {"kind": "enum", "least": mn, "greatest": mx, "origin": origin,
                                "c_source": f"enum e {{ A = {G.c_int(mn)}, B = {G.c_int(mx)} }};  /* sizeof, _Alignof, (enum e) -1 < 0 */"},
                      "model_output": {"c2mEnumBase": lines[i].split("|")[0].strip(), "gccEnumBase": lines[i].split("|")[1].strip()},
                      "impl_output": {"c2m [size, align, signed]": c, "gcc": g, "c2m_rc": r2, "c2m_err": e2[-300:] if r2 else ""},
                      "spec_verdict": "an enumerated type differs in size or signedness from the platform compiler's",
                      "how_to_rerun": "cd /verif && ./check C08 --replay <this file>"},
                     what=f"enum {{{mn} .. {mx}}}: c2m (size, align, signed) {c} vs gcc {g}", signature=sig)
    return st


# ------------------------------------------------------------------------------------- 3. layout tie
HDR = "#include <stdio.h>\n#include <string.h>\n#include <stddef.h>\n"
HEX = ("static void hex(const unsigned char *p, unsigned long n) { unsigned long i; "
       "for (i = 0; i < n; i++) printf(\"%02x\", p[i]); printf(\"\\n\"); }\n")


def layout_tu(types):
    """C source printing the layout of every typedef needed for `types`; returns (src, items) with
    items = [(typedef name, type)] (nested named aggregates included)"""
    rend = G.Renderer("T")
    for t in types:
        rend.typedef(t)
    items = [(name, G.from_tokens(key.split())) for key, name in rend.names.items()]
    src = [HDR, rend.text(), HEX]
    for idx, (name, t) in enumerate(items):
        b = [f"static void chk{idx}(void) {{ {name} v; printf(\"T {idx} %lu %lu\\n\", "
             f"(unsigned long) sizeof({name}), (unsigned long) _Alignof({name}));"]
        for j, (path, kind, mt) in enumerate(G.member_paths(t)):
            if kind == "p":
                b.append(f"  printf(\"M {idx} {j} %lu %lu\\n\", (unsigned long) offsetof({name}, {path}), "
                         f"(unsigned long) sizeof(v.{path}));")
            else:
                val = "1" if mt[1] == "bool" else "-1"
                b.append(f"  memset(&v, 0, sizeof v); v.{path} = {val}; printf(\"B {idx} {j} \"); "
                         f"hex((unsigned char *) &v, sizeof v);")
        b.append("}\n")
        src.append("\n".join(b))
    src.append("int main(void) {\n" + "".join(f"  chk{i}();\n" for i in range(len(items))) + "  return 0;\n}\n")
    return "".join(src), items


def parse_layout(out, n):
    """-> list of canonical strings 'size align m,m,...' (m = bitpos:nbits), None where missing"""
    head = [None] * n
    mem = [dict() for _ in range(n)]
    for line in out.split("\n"):
        f = line.split()
        try:
            if len(f) == 4 and f[0] == "T":
                head[int(f[1])] = (int(f[2]), int(f[3]))
            elif len(f) == 5 and f[0] == "M":
                mem[int(f[1])][int(f[2])] = f"{int(f[3]) * 8}:{int(f[4]) * 8}"
            elif len(f) == 4 and f[0] == "B":
                v = int.from_bytes(bytes.fromhex(f[3]), "little")
                if v == 0:
                    s = "none"
                else:
                    lo = (v & -v).bit_length() - 1
                    cnt = bin(v).count("1")
                    s = f"{lo}:{cnt}" if v == ((1 << cnt) - 1) << lo else f"img{f[3]}"
                mem[int(f[1])][int(f[2])] = s
        except (ValueError, IndexError):
            pass
    res = []
    for i in range(n):
        if head[i] is None:
            res.append(None)
            continue
        ms = [mem[i].get(j, "?") for j in range(len(mem[i]))]
        res.append(f"{head[i][0]} {head[i][1]} {','.join(ms) if ms else '-'}")
    return res


import itertools
_tu_n = itertools.count(1)


def compile_run_both(src, tag):
    """-> ((rc,out,err) for c2m -ei, (rc,out,err) for gcc)"""
    base = os.path.join(WORK, f"{tag}{next(_tu_n)}")
    with open(base + ".c", "w") as f:
        f.write(src)
    rc2 = run([C2M, base + ".c", "-ei"], timeout=300)
    rc, out, err = run(["gcc", "-O0", "-w", base + ".c", "-o", base + ".exe"], timeout=300)
    rg = run([base + ".exe"]) if rc == 0 else (rc, "", err)
    for ext in (".c", ".exe"):
        try:
            os.remove(base + ext)
        except OSError:
            pass
    return rc2, rg


def layout_eval(types, tag="lay"):
    """run the real compilers and both models on all typedefs of `types`.
    -> list of records {decl, c2m, gcc, m_c2m, m_sysv, flags}"""
    src, items = layout_tu(types)
    (r2, o2, e2), (rg, og, eg) = compile_run_both(src, tag)
    n = len(items)
    pc, pg = parse_layout(o2, n), parse_layout(og, n)
    if rg != 0 or any(x is None for x in pg):
        ck.broken_ties.append({"kind": "reference-compiler", "name": "gcc rejected a generated TU",
                               "log": eg[-600:], "decls": [G.to_str(t) for t in types][:5]})
    lines = drv(["layout " + G.to_str(t) for _, t in items])
    recs = []
    for i, (name, t) in enumerate(items):
        parts = [p.strip() for p in lines[i].split("|")]
        ok = len(parts) == 3 and parts[0].startswith("L c2m ") and parts[1].startswith("sysv ")
        recs.append({"decl": G.to_str(t), "type": t, "c2m": pc[i], "gcc": pg[i],
                     "m_c2m": parts[0][6:] if ok else None, "m_sysv": parts[1][5:] if ok else None,
                     "flags": dict(kv.split("=") for kv in parts[2].split()) if ok else {},
                     "c2m_rc": r2, "c2m_err": e2[-300:] if r2 != 0 else ""})
    return recs


def real_differs(r):
    return r["c2m"] != r["gcc"]


def deviates(r):
    """the freshly built c2m does not do what the model of the current code says"""
    return r["c2m"] != r["m_c2m"]


def shrink_layout(t, max_rounds=40, pred=None):
    """greedy shrinking with the *real* compilers: smallest declaration on which c2m and gcc differ
    (or, with `pred`, on which that predicate of the evaluation record holds)"""
    pred = pred or real_differs
    cur = t
    for _ in range(max_rounds):
        cands = [c for c in G.shrink_candidates(cur)]
        # unique, smaller first
        seen, uniq = set(), []
        for c in sorted(cands, key=G.type_weight):
            k = G.to_str(c)
            if k not in seen and G.type_weight(c) < G.type_weight(cur):
                seen.add(k)
                uniq.append(c)
        if not uniq:
            break
        recs = {r["decl"]: r for r in layout_eval(uniq, "shr")}
        nxt = None
        for c in uniq:
            r = recs.get(G.to_str(c))
            if r is not None and r["gcc"] is not None and pred(r):
                nxt = c
                break
        if nxt is None:
            break
        cur = nxt
    return cur


def diff_kind(r):
    a, b = (r["c2m"] or "? ? ?").split(" "), (r["gcc"] or "? ? ?").split(" ")
    if a[2:] != b[2:]:
        return "offsets"
    if a[1] != b[1]:
        return "align"
    return "size"


def layout_signature(t, rec):
    """name of the mismatch class of a *shrunk* declaration"""
    if rec["c2m"] is None:
        return "C08:c2m-rejects-or-crashes"
    ft = G.features(t)
    top_first_zero = t[0] == "agg" and t[2] and t[2][0][0] == "b" and t[2][0][1] == 0
    dk = diff_kind(rec)
    if "bf" not in ft:
        return "C08:layout-nonbitfield-" + dk
    if top_first_zero and dk == "offsets":
        return "C08:leading-zero-width"
    if "bf-zero" in ft or "bf-unnamed" in ft:
        if dk in ("align", "size"):
            return "C08:unnamed-bitfield-raises-align"
        return "C08:unnamed-bitfield-displaces-member"
    if "bf-mixed-sizes" in ft:
        return "C08:bitfield-mixed-declared-types"
    return "C08:bitfield-same-type-" + dk


lay_stats = {"typedefs": 0, "with_bf": 0, "real_equal": 0, "real_differ": 0, "simple_true": 0,
             "simple_true_equal": 0, "nobf": 0, "model_c2m_mismatch": 0, "model_sysv_mismatch": 0,
             "classes": {}}
seen_decl = set()
shrunk_count = {}
reported = set()
SHRINK_CAP = 12


def layout_process(types, origin):
    recs = layout_eval(types)
    differing = []
    for r in recs:
        if r["decl"] in seen_decl:
            continue
        seen_decl.add(r["decl"])
        lay_stats["typedefs"] += 1
        fl = r["flags"]
        if fl.get("nobf") == "1":
            lay_stats["nobf"] += 1
        else:
            lay_stats["with_bf"] += 1
        if r["gcc"] is None:
            continue
        # (i) specification vs reference compiler
        if r["gcc"] != r["m_sysv"]:
            lay_stats["model_sysv_mismatch"] += 1
            ck.broken_ties.append({"kind": "correspondence", "name": "sysvLay vs gcc",
                                   "first_diff": {"decl": r["decl"], "gcc": r["gcc"], "model": r["m_sysv"]}})
        # (ii) model of the code vs the code
        model_ok = r["c2m"] == r["m_c2m"]
        if not model_ok:
            lay_stats["model_c2m_mismatch"] += 1
        # (iii) the property on the real code
        if fl.get("simple") == "1":
            lay_stats["simple_true"] += 1
        if not real_differs(r):
            lay_stats["real_equal"] += 1
            if fl.get("simple") == "1":
                lay_stats["simple_true_equal"] += 1
            if not model_ok:
                ck.broken_ties.append({"kind": "correspondence", "name": "c2mLay vs c2m (c2m agrees with gcc)",
                                       "first_diff": {"decl": r["decl"], "c2m": r["c2m"], "model": r["m_c2m"]}})
            continue
        lay_stats["real_differ"] += 1
        differing.append(r)

    def shrink_one(r):
        # a class that is listed and has already been shrunk SHRINK_CAP times in this run is named from
        # the unshrunk declaration when that already gives the same listed name (saves compiler runs)
        if deviates(r):
            # c2m differs from gcc AND from the model of the current code: not one of the listed deviations
            # (those are predicted exactly by c2mLay); minimise on "c2m != c2mLay"
            small = shrink_layout(r["type"], pred=deviates)
            srec = [x for x in layout_eval([small], "min") if x["decl"] == G.to_str(small)][0]
            return small, srec
        pre = layout_signature(r["type"], r)
        if ck.is_known(pre) and shrunk_count.get(pre, 0) >= SHRINK_CAP and r["c2m"] == r["m_c2m"]:
            lay_stats["not_shrunk_listed_class"] = lay_stats.get("not_shrunk_listed_class", 0) + 1
            return r["type"], r
        small = shrink_layout(r["type"])
        srec = [x for x in layout_eval([small], "min") if x["decl"] == G.to_str(small)][0]
        sg = layout_signature(small, srec)
        shrunk_count[sg] = shrunk_count.get(sg, 0) + 1
        return small, srec
    with ThreadPoolExecutor(max_workers=16) as ex:
        shrunk = list(ex.map(shrink_one, differing))
    for r, (small, srec) in zip(differing, shrunk):
        fl = r["flags"]
        sig = layout_signature(small, srec)
        if deviates(r) or deviates(srec):
            # a listed finding is the deviation of the *unchanged* code, which c2mLay predicts bit for bit;
            # anything c2mLay does not predict is new, whatever listed class it resembles
            sig = "C08:code-deviates-from-model-of-current-code:" + sig.split(":", 1)[-1]
        lay_stats["classes"][sig] = lay_stats["classes"].get(sig, 0) + 1
        if fl.get("simple") == "1" or fl.get("nobf") == "1":
            sig += "+side-condition-holds"
        if (sig, G.to_str(small)) in reported:
            lay_stats["duplicate_reports_suppressed"] = lay_stats.get("duplicate_reports_suppressed", 0) + 1
            continue
        reported.add((sig, G.to_str(small)))
        ck.violation({"stage": "tie", "theorem_or_correspondence": "layout: c2m vs gcc (layout_meets_sysv)",
                      "input": {"kind": "layout", "decl": G.to_str(small), "found_in": r["decl"], "origin": origin,
                                "c_source": c_text(small)},
                      "model_output": {"c2mLay": srec["m_c2m"], "sysvLay": srec["m_sysv"]},
                      "impl_output": {"c2m": srec["c2m"], "gcc": srec["gcc"], "c2m_rc": srec["c2m_rc"], "c2m_err": srec["c2m_err"]},
                      "spec_verdict": "sizeof/_Alignof/member placement differ from the platform compiler",
                      "model_agrees_with_code": srec["c2m"] == srec["m_c2m"],
                      "listed_findings_are": "deviations predicted by c2mLay (model of the unchanged code): c2m == c2mLay != gcc",
                      "how_to_rerun": "cd /verif && ./check C08 --replay <this file>"},
                     what=f"layout of `{G.to_str(small)}`: c2m {srec['c2m']} vs gcc {srec['gcc']}", signature=sig)
    return recs


def c_text(t):
    r = G.Renderer("T")
    r.typedef(t)
    return r.text()


# ------------------------------------------------------------------------------------- main
def corpus_cases():
    d = os.path.join(VERIF, "corpus", "C08")
    out = []
    if os.path.isdir(d):
        for f in sorted(os.listdir(d)):
            if f.endswith(".json"):
                with open(os.path.join(d, f)) as fh:
                    c = json.load(fh)
                c["_file"] = f
                out.append(c)
    return out


def small_scope_decls():
    """every struct/union with 1..3 members taken from a fixed menu (exhaustive)"""
    import itertools as it
    menu = [("p", ("sc", x)) for x in ("char", "short", "int", "long", "float", "double", "ldouble")]
    menu += [("p", ("arr", 3, ("sc", "char")))]
    menu += [("b", w, nm, ("sc", sc)) for (w, nm, sc) in
             [(1, True, "int"), (31, True, "int"), (3, True, "char"), (33, True, "long"), (9, True, "ushort"),
              (0, False, "int"), (5, False, "int")]]
    out = []
    for n in (1, 2, 3):
        for combo in it.product(menu, repeat=n):
            if all(m[0] == "b" and m[1] == 0 for m in combo):
                continue
            for u in (False, True):
                out.append(("agg", u, list(combo)))
    return out, len(menu)


def boundary_decls():
    """systematic boundary cases of the bit-field placement (quick and thorough):
    (a) ordinary member M followed by a bit-field `B b:w` with bits(M) + w = bits(B) - 1 / 0 / + 1,
        alone, behind a leading char, and followed by a char;
    (b) runs of 2 and 3 bit-fields of one declared size whose widths sum to bits(B) - 1 / 0 / + 1;
    (c) boundary enums; (d) adjacent bit-fields of different declared sizes around either unit boundary"""
    SZ = {"char": 1, "uchar": 1, "short": 2, "ushort": 2, "int": 4, "uint": 4, "long": 8, "ulong": 8}
    ords = [(("sc", "char"), 1), (("sc", "short"), 2), (("sc", "int"), 4), (("arr", 3, ("sc", "char")), 3),
            (("arr", 5, ("sc", "char")), 5), (("arr", 3, ("sc", "short")), 6), (("arr", 7, ("sc", "char")), 7)]
    out, seen = [], set()

    def add(ms):
        t = ("agg", False, ms)
        k = G.to_str(t)
        if k not in seen:
            seen.add(k)
            out.append(t)
    ch = ("p", ("sc", "char"))
    for bt in ("char", "ushort", "int", "uint", "long", "ulong"):
        unit = 8 * SZ[bt]
        for m, msz in ords:
            for d in (-1, 0, 1):
                w = unit - 8 * msz + d
                if 1 <= w <= unit:
                    bf = ("b", w, True, ("sc", bt))
                    add([("p", m), bf])
                    add([("p", m), bf, ch])
                    if msz % 2 == 1 or m[0] == "arr":
                        w2 = unit - 8 * (msz + 1) + d      # M is then at offset 1
                        if 1 <= w2 <= unit and m[0] == "arr" and m[2][1] == "char" or (1 <= w2 <= unit and m == ("sc", "char")):
                            add([ch, ("p", m), ("b", w2, True, ("sc", bt))])
        for w1 in sorted({1, unit // 2, unit - 2, unit - 1} - {0}):
            for d in (-1, 0, 1):
                w2 = unit - w1 + d
                if 1 <= w2 <= unit:
                    run = [("b", w1, True, ("sc", bt)), ("b", w2, True, ("sc", bt))]
                    add(run)
                    add(run + [ch])
                    add([ch] + run) if 8 + w1 <= unit else None
                if w1 < unit - 2:
                    wa = max(1, (unit - w1) // 2)
                    wb = unit - w1 - wa + d
                    if 1 <= wb <= unit:
                        add([("b", w1, True, ("sc", bt)), ("b", wa, True, ("sc", bt)), ("b", wb, True, ("sc", bt))])
    # (d) adjacent bit-fields whose declared types differ in size: widths summing to the boundary -1/0/+1 of
    #     either storage unit (the unchanged code deviates from gcc on some of these - listed finding #22 -
    #     exactly as c2mLay predicts)
    for b1 in ("uchar", "ushort", "uint", "ulong"):
        for b2 in ("char", "short", "int", "long"):
            u1, u2 = 8 * SZ[b1], 8 * SZ[b2]
            if u1 == u2:
                continue
            for w1 in sorted({1, 4, u1 // 2 + 2, u1 - 1, u1}):
                if not 1 <= w1 <= u1:
                    continue
                for tgt in (u1, u2):
                    for d in (-1, 0, 1):
                        w2 = tgt - w1 + d
                        if 1 <= w2 <= u2:
                            add([("b", w1, True, ("sc", b1)), ("b", w2, True, ("sc", b2))])
                add([("b", w1, True, ("sc", b1)), ("b", min(10, u2), True, ("sc", b2)), ("b", 2, True, ("sc", "uchar"))])
    add([("b", 10, True, ("sc", "ushort")), ("b", 20, True, ("sc", "uint")), ("b", 2, True, ("sc", "uchar"))])
    add([("b", 4, True, ("sc", "char")), ("b", 10, True, ("sc", "int"))])
    # (c) enumerated types on the int / unsigned int / long boundaries: member, array element, bit-field
    #     declared type, in a union
    for en in G.ENUM_NAMES:
        e = ("sc", en)
        unit = 8 * G.SC_SIZE[en]
        add([ch, ("p", e)])
        add([("p", e), ch])
        add([ch, ("p", ("arr", 3, e))])
        add([ch, ("b", 3, True, e), ("b", unit - 4, True, e)])
        add([("b", unit - 1, True, e), ch])
        out.append(("agg", True, [("p", e), ("p", ("arr", 5, ("sc", "char")))]))
    return out


def main():
    merge_tie()
    t0 = time.time()
    cases = corpus_cases()
    if ck.replay:
        with open(ck.replay) as f:
            rp = json.load(f)
        cases = [rp.get("input", rp)]
        ck.log("replaying", cases[0])
    enum_cases = [(c["least"], c["greatest"]) for c in cases if c.get("kind") == "enum"]
    enum_regress = {(c["least"], c["greatest"]) for c in cases if c.get("kind") == "enum" and c.get("expect") == "pass"}
    if not ck.replay:
        L63 = 2 ** 63
        enum_cases += list(G.BOUND_ENUMS) + [(0, 0), (-7, 7), (0, L63 - 1), (0, L63), (-L63 + 1, 0), (-1, L63 - 1), (-1, L63),
                                                (0, 2 ** 64 - 1), (-1, 2 ** 64 - 1)]
        enum_cases += [(-ck.rng.below(2) * ck.rng.below(2 ** 33), ck.rng.below(2 ** 33)) for _ in range(10)]
    if enum_cases:
        est = enum_tie(sorted(set(enum_cases)), "corpus/boundaries/seed", enum_regress)
        est["regressions_replayed"] = len(enum_regress)
        ck.stage("enum-tie", **est)
        ck.cov["enum_tie"] = est
    lay_corpus = [G.from_tokens(c["decl"].split()) for c in cases if c.get("kind") == "layout"]
    only = os.environ.get("C08_ONLY", "")
    if lay_corpus:
        layout_process(lay_corpus, "corpus")
    ck.cov["corpus_replayed"] = len(cases)
    pass_cases = [c for c in cases if c.get("kind") == "proto"]
    if not ck.replay and only != "pass":
        n_batches, per = (6, 60) if QUICK else (50, 80)
        batches = [[G.gen_decl(ck.rng) for _ in range(per)] for _ in range(n_batches)]
        for b in batches[:2]:
            for t in b[:2]:
                ck.sample({"layout_decl": G.to_str(t)})
        for i, b in enumerate(batches):
            layout_process(b, f"seed={ck.seed} batch={i}")
    if not ck.replay and only != "pass":
        bd = boundary_decls()
        before = lay_stats["typedefs"]
        for i in range(0, len(bd), 150):
            layout_process(bd[i:i + 150], f"boundary {i}")
        lay_stats["boundary"] = {"declarations": len(bd), "new_typedefs": lay_stats["typedefs"] - before,
                                 "rule": "ordinary member (7 sizes) x bit-field declared type (6) x width with member bits + width = unit-1/0/+1 "
                                         "(alone, behind a char, before a char); runs of 2-3 same-size bit-fields ending at unit-1/0/+1; "
                                         f"{len(G.ENUM_NAMES)} enumerated types with extreme enumerators on the int/unsigned/long boundaries as "
                                         "member, array element, bit-field declared type and union member"}
    if not ck.replay and only != "pass" and not QUICK:
        decls, nmenu = small_scope_decls()
        before = lay_stats["typedefs"]
        for i in range(0, len(decls), 150):
            layout_process(decls[i:i + 150], f"small-scope {i}")
        lay_stats["small_scope"] = {"declarations": len(decls), "new_typedefs": lay_stats["typedefs"] - before,
                                    "rule": f"all struct/union with 1..3 members from a menu of {nmenu} (7 scalars, char[3], 7 bit-field shapes)"}
    ck.stage("layout-tie", wall=round(time.time() - t0, 1), **{k: v for k, v in lay_stats.items() if k != "classes"})
    ck.log("layout tie:", lay_stats)
    t1 = time.time()
    pstats = P.run(ck, C2M, WORK, drv, run, pass_cases, QUICK, layout_eval) if only != "layout" else {}
    ck.stage("passing-tie", wall=round(time.time() - t1, 1))
    ck.cov["evaluations"] = lay_stats["typedefs"] + pstats.get("protos", 0)
    ck.cov["distinct_nontrivial"] = lay_stats["with_bf"] + pstats.get("protos_reg_aggregate", 0)
    ck.cov["rule"] = ("layout: distinct typedefs (incl. nested named aggregates) generated from VERIF_SEED, each compiled by "
                      "the freshly built c2m (-ei) and gcc and evaluated by both Lean models; non-trivial = contains a bit-field. "
                      "passing: distinct prototypes with >=1 aggregate parameter/return; non-trivial = some aggregate "
                      "travels (partly) in registers")
    ck.cov["distribution"] = {"layout": lay_stats, "passing": pstats}
    ck.cov["exhaustive"] = (not QUICK)   # thorough: the small-scope sub-spaces below are enumerated completely
    ck.cov["exhaustive_subspaces"] = [] if QUICK else [
        lay_stats.get("small_scope", {}).get("rule", ""), pstats.get("small_scope", {}).get("rule", "")]
    ck.assumptions += [
        "object sizes < 2^31 (C arithmetic in mir_size_t/int modelled in Nat)",
        "gcc 12 -O0 is the platform ABI reference (psABI + GCC bit-field rules); sysvLay/sysvClass are checked against it on every run",
        "no _Alignas/packed, no vector/complex types, no flexible array members, no empty structs",
        "MIR's own handling of BLK arguments (C05/C06) is trusted to follow the blk kind chosen by c2mir; it is exercised but not modelled here",
    ]


try:
    main()
    for b in ck.broken_ties[:10]:
        ck.log("BROKEN TIE:", json.dumps(b, default=str)[:1200])
finally:
    shutil.rmtree(WORK, ignore_errors=True)
ck.finish()
