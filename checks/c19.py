"""C19 — container headers behave as the abstract map / bit-set / sequences they model."""
from vf import Check
import c19_htab, c19_sets, c19_dataflow
ck = Check("C19")
ck.proof_gate(["MirVerif.Props.C19.Htab", "MirVerif.Props.C19.Bitmap", "MirVerif.Props.C19.Seq",
               "MirVerif.Props.C19.Dataflow"],
              support_modules=c19_htab.SUPPORT + c19_sets.SUPPORT + c19_dataflow.SUPPORT,
              bridge_modules=getattr(c19_htab, "BRIDGE", []),
              exes=["mirdrv_c19", "mirdrv_c19b", "mirdrv_c19d"])
c19_htab.run(ck)
c19_sets.run(ck)
c19_dataflow.run(ck)
ck.finish()
