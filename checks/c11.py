"""C11 — binary MIR written by MIR_write reads back as the same module, deterministically.

proof gate : lake build MirVerif.Props.C11 (+ bridge lemmas, axiom audit)
tie (T1)   : translate/c11_tables.py regenerates bin_tag_t / insn_code_nops / reader facts from the
             source under test; translate/c11_cfun.py regenerates uint_length / int_length
tie (T2)   : harness/c11_harness.c (real MIR_write / MIR_read / reduce_decode / read_token ...)
             against lean/Drv/C11.lean (mirdrv_c11, the model):
   (a) raw bytes of MIR_write (after the real reduce_decode) == model bytes, FILE and callback API
   (b) two consecutive writes identical
   (c) structural dump and MIR_output text before == after MIR_read in a fresh context
   (d) MIR_interp results equal before/after
   (e) model reader on the raw bytes == real reader
   (f) model-written bytes, compressed by the real reduce_encode, read by the real MIR_read
   (t) token level: real write_uint/int/float/…/write_str_tag/write_lab and read_token on a
       boundary grid (1–4 byte string numbers, 1–8 byte integers) against the model
"""
import json, os, re, shutil, subprocess, sys, time
from concurrent.futures import ThreadPoolExecutor

from vf import Check, VERIF, REPO, CACHE, sh

sys.path.insert(0, os.path.join(VERIF, "translate"))
import c11_gen  # noqa: E402

ck = Check("C11")
THOROUGH = ck.tier == "thorough"
RUN = os.path.join(CACHE, "c11_run_%d" % os.getpid())
DRV = os.path.join(VERIF, "lean", ".lake", "build", "bin", "mirdrv_c11")

# ---------------------------------------------------------------------------------------------
# stage 1-3: translators, proofs, harness
# ---------------------------------------------------------------------------------------------
ok = ck.proof_gate(["MirVerif.Props.C11"],
                   support_modules=["MirVerif.Model.BinIO", "MirVerif.Model.BinIORead"],
                   bridge_modules=["MirVerif.Lemmas.BridgeC11"],
                   exes=["mirdrv_c11"], translators=["c11_tables.py", "c11_cfun.py"])
import c11_tables  # noqa: E402
try:
    TAB = c11_tables.load()
except SystemExit:
    # a reader fact is no longer recognised: the tie is broken (recorded), but the search still runs,
    # with the canonical facts assumed for what could not be read, against the real-code oracles
    try:
        TAB = c11_tables.load(strict=False)
        ck.broken_ties.append({"kind": "translator", "name": "c11_tables.load",
                               "unrecognised": TAB["unrecognised"]})
        ck.log("reader facts not recognised, canonical values assumed: %s" % TAB["unrecognised"])
    except SystemExit:
        TAB = None
        ck.broken_ties.append({"kind": "translator", "name": "c11_tables.load (tables)"})
if TAB is None:
    ck.log("no tables: cannot run the correspondence")
    ck.finish()
HAVE_DRV = os.path.exists(DRV)
if not HAVE_DRV:
    ck.log("no driver (lake build failed): only the real-code oracles are run")

T = c11_gen.Tables(TAB)
CFG = TAB["cfg"]
FLAGS = ["-O1", "-g", "-w", "-DNDEBUG", "-fsanitize=address", "-fno-omit-frame-pointer"]
jobs = [("c11_harness", ["harness/c11_harness.c"], FLAGS)]
if THOROUGH:
    jobs.append(("c11_harness_assert", ["harness/c11_harness.c"], ["-O1", "-g", "-w"]))
exes = ck.cc_par(jobs)
HARNESS = exes.get("c11_harness")
HARNESS_ASSERT = exes.get("c11_harness_assert")
if HARNESS is None:
    ck.broken_ties.append({"kind": "harness-compile", "name": "c11_harness",
                           "log": getattr(ck, "last_cc_log", "")[-1500:]})
    ck.finish()
ck.stage("build", harness=os.path.basename(HARNESS))
os.makedirs(RUN, exist_ok=True)
ENV = dict(os.environ, ASAN_OPTIONS="detect_leaks=0:abort_on_error=0:allocator_may_return_null=1")


def limits():
    """resource caps for every child process: no core files, files at most 1 GiB, 40 min of CPU"""
    import resource
    resource.setrlimit(resource.RLIMIT_CORE, (0, 0))
    resource.setrlimit(resource.RLIMIT_FSIZE, (1 << 30, 1 << 30))
    resource.setrlimit(resource.RLIMIT_CPU, (2400, 2400))


# ---------------------------------------------------------------------------------------------
# running harness and driver
# ---------------------------------------------------------------------------------------------
class Case:
    def __init__(self, cid, lines, flags=(), kind="gen", calls=(), text=None, meta=None):
        self.id = cid
        self.lines = list(lines)      # description lines (builder input)
        self.flags = list(flags)      # exec / load / labelbase=N
        self.calls = list(calls)
        self.text = text              # path of a textual MIR file instead of a description
        self.kind = kind
        self.meta = meta or {}

    def emit(self):
        hdr = ["case", self.id] + self.flags
        if self.text:
            hdr += ["text", self.text]
        return "\n".join([" ".join(hdr)] + self.lines + self.calls + ["end"]) + "\n"

    def to_json(self):
        return {"id": self.id, "lines": self.lines, "flags": self.flags, "calls": self.calls,
                "text": self.text, "kind": self.kind}

    @staticmethod
    def from_json(d):
        return Case(d["id"], d["lines"], d.get("flags", []), d.get("kind", "replay"), d.get("calls", []),
                    d.get("text"))


def run_harness(cases, tag, exe=None, timeout=900):
    """returns {id: result dict}; a crash of the harness is recorded on the case being processed"""
    path = os.path.join(RUN, "in_%s.txt" % tag)
    with open(path, "w") as f:
        for c in cases:
            f.write(c.emit())
    try:
        p = subprocess.run([exe or HARNESS, path], stdout=subprocess.PIPE, stderr=subprocess.PIPE, env=ENV,
                           timeout=timeout, preexec_fn=limits)
        out, err, rc = p.stdout.decode("latin-1"), p.stderr.decode("latin-1"), p.returncode
    except subprocess.TimeoutExpired as e:
        out = (e.stdout or b"").decode("latin-1")
        err, rc = "timeout", -9
    res, cur = {}, None
    for line in out.split("\n"):
        if line.startswith("begin "):
            cur = {"D1": [], "D2": [], "T1": [], "T2": [], "C2": [], "X1": [], "X2": [], "L1": [], "L2": [],
                   "done": False}
            res[line[6:]] = cur
            continue
        if cur is None:
            continue
        if line.startswith("done "):
            cur["done"] = True
            cur = None
            continue
        k, _, v = line.partition(" ")
        if k in ("D1", "D2", "T1", "T2", "C2", "X1", "X2", "L1", "L2"):
            cur[k].append(v)
        elif k in ("RAW", "W1", "W2", "wlen", "w2", "wcb", "text", "readerr", "builderr", "writeerr", "readcb",
                   "decodeerr", "rebuild", "wmod", "wafter"):
            cur[k] = v
        elif k.startswith("MRAW"):
            cur.setdefault("MRAW", {})[int(k[4:])] = v
    os.remove(path)
    for c in cases:
        if c.id not in res:
            res[c.id] = {"done": False, "D1": [], "D2": [], "X1": [], "X2": [], "C2": [], "T1": [], "T2": [],
                         "L1": [], "L2": []}
        if not res[c.id]["done"]:
            res[c.id]["crash"] = "rc=%s %s" % (rc, err[-1500:])
    return res


def run_driver(cmds, timeout=1800):
    """cmds: list of ('write', [lines]) | ('read', hex) | ('readx', flags, hex) | ('raw', 'line').
    returns list of results: write -> {'bytes','ldpad','nstr'} or {'error'}; read -> {'lines'} or {'error'}"""
    inp = []
    for c in cmds:
        if c[0] == "write":
            inp.append("write")
            inp += c[1]
            inp.append("end")
        elif c[0] == "read":
            inp.append("read " + c[1])
        elif c[0] == "readx":
            inp.append("readx %s %s" % (c[1], c[2]))
        elif c[0] == "ctr":
            inp.append("ctr " + c[1])
        else:
            inp.append(c[1])
    p = subprocess.run([DRV], input=("\n".join(inp) + "\n").encode(), stdout=subprocess.PIPE,
                       stderr=subprocess.PIPE, timeout=timeout, preexec_fn=limits)
    out = p.stdout.decode("latin-1").split("\n")
    res, i = [], 0

    def nxt():
        nonlocal i
        if i >= len(out):
            return "error driver output ended (rc=%s %s)" % (p.returncode, p.stderr.decode("latin-1")[-300:])
        i += 1
        return out[i - 1]

    for c in cmds:
        if c[0] == "write":
            l = nxt()
            if l.startswith("error"):
                res.append({"error": l[6:]})
            else:
                lp, ns = nxt(), nxt()
                res.append({"bytes": l[6:], "ldpad": [int(x) for x in lp.split()[1:]], "nstr": int(ns.split()[1])})
        elif c[0] in ("read", "readx", "ctr"):
            lines, e = [], None
            while True:
                l = nxt()
                if l == "end":
                    break
                if l.startswith("error"):
                    e = l[6:]
                    if "driver output ended" in l:
                        break
                else:
                    lines.append(l)
            res.append({"error": e} if e is not None else {"lines": lines})
        else:
            res.append({"line": nxt()})
    return res


def mask(hexs, offs):
    b = bytearray(bytes.fromhex(hexs))
    for o in offs:
        if o < len(b):
            b[o] = 0
    return bytes(b)


# ---------------------------------------------------------------------------------------------
# judging one case
# ---------------------------------------------------------------------------------------------
PROP_CODES = {T.code[n] for n in ("PRSET", "PRBEQ", "PRBNE") if n in T.code}


def features(d1):
    f = set()
    for i, l in enumerate(d1):
        if l == "endfunc" and i > 0 and d1[i - 1].startswith("label "):
            f.add("trailing")
        w = l.split(" ", 3)
        if w[0] == "global":
            f.add("global")
        elif w[0] == "lref":
            f.add("lref")
            if l.split()[3] == "0":
                f.add("lref0")
        elif w[0] == "data" and w[2] == "11":
            f.add("data_p")
        elif w[0] == "insn" and int(w[1]) in PROP_CODES:
            f.add("props")
    return f


def classify(case, hr, dr_read, dr_alt):
    """decide which listed quirk (if any) explains a failed real round trip.
    hr: harness result; dr_read: model read of RAW with the current cfg; dr_alt: {flag: model read}"""
    d1 = hr["D1"]
    feats = features(d1)
    real_bad = ("readerr" in hr) or (hr["D2"] != d1)
    if real_bad:
        model_same = ("error" in dr_read and "readerr" in hr) or (dr_read.get("lines") == hr["D2"] and "readerr" not in hr)
        if model_same:
            for flag, feat, sig in (("c", "props", "C11:property-insns-rejected"),
                                    ("p", "data_p", "C11:data-type-p"),
                                    ("g", "global", "C11:global-hard-reg-var"),
                                    ("e", "trailing", "C11:trailing-label"),
                                    ("z", "lref0", "C11:lref-base-label-0")):
                r = dr_alt.get(flag)
                if feat in feats and r is not None and r.get("lines") == d1:
                    return sig
        err = hr.get("readerr", "")
        if "garbage at the end of file" in err and len(hr.get("RAW", "")) // 2 % (1 << 18) == 0 and hr.get("RAW"):
            return "C11:raw-length-multiple-of-buffer"
        if "not found item .lc" in err and "postlink" in case.flags:
            return "C11:written-after-link-lc-items"
        return "C11:roundtrip"
    return None


stats = {"cases": 0, "nontrivial": 0, "bytes_total": 0, "max_raw": 0, "kinds": {}, "ld_pad_nonzero": 0,
         "builderr": 0, "exec_calls": 0, "model_read_ok": 0, "known": {}, "raw_multi_buffer": 0,
         "opcodes": set(), "item_kinds": {}, "idx_bytes": {1: 0, 2: 0, 3: 0, 4: 0}}
failures = []      # (case, what, signature, detail)
tie_breaks = []    # (case, name, detail)
seen_raw = set()


def judge(case, hr, drw, drr, dalt):
    """returns list of (what, signature, detail) property violations and records tie breaks"""
    out = []
    stats["cases"] += 1
    stats["kinds"][case.kind] = stats["kinds"].get(case.kind, 0) + 1
    if "crash" in hr:
        out.append(("harness crashed or timed out on this case: " + hr["crash"][-400:], "C11:crash", {}))
        return out
    if "builderr" in hr:
        stats["builderr"] += 1
        case.meta["builderr"] = hr["builderr"]
        return out
    if "writeerr" in hr:
        if drw is not None and "error" in drw:
            return out          # both refuse (UNSPEC/USE/PHI)
        tie_breaks.append((case, "write-refused", {"impl": hr["writeerr"], "model": "writes"}))
        return out
    raw = hr.get("RAW", "")
    d1 = hr["D1"]
    for l in d1:
        w = l.split(" ", 2)
        stats["item_kinds"][w[0]] = stats["item_kinds"].get(w[0], 0) + 1
        if w[0] == "insn":
            stats["opcodes"].add(int(w[1]))
    stats["bytes_total"] += len(raw) // 2
    stats["max_raw"] = max(stats["max_raw"], len(raw) // 2)
    if len(raw) // 2 > 2 * (1 << 18):
        stats["raw_multi_buffer"] += 1
    if raw not in seen_raw and len(d1) > 3:
        seen_raw.add(raw)
        stats["nontrivial"] += 1
    # (b) determinism and API equivalence
    if hr.get("w2") != "same":
        out.append(("two consecutive MIR_write calls gave different bytes", "C11:write-nondeterministic",
                    {"W1": hr.get("W1", "")[:4000], "W2": hr.get("W2", "")[:4000]}))
    if hr.get("wcb") != "same":
        out.append(("MIR_write_with_func and MIR_write gave different bytes", "C11:write-api-differ", {}))
    if "decodeerr" in hr:
        out.append(("reduce_decode rejects the output of MIR_write", "C11:decode", {}))
    # histories of writes in one context: a module's image must not depend on earlier writes, and
    # must be what a fresh context writes (= the model's bytes for that module alone)
    if hr.get("wmod", "same") != "same":
        out.append(("MIR_write_module of the same module in one context gave different bytes: " + hr["wmod"],
                    "C11:write-history-dependent", {}))
    if hr.get("wafter", "same") != "same" and "readerr" not in hr and hr["D2"] == d1:
        out.append(("MIR_write from the context the module was read into differs from the original image: "
                    + hr["wafter"], "C11:write-after-read-differs", {}))
    for i, mres in enumerate(hr.get("_single_model", [])):
        real = hr["MRAW"].get(i)
        if real is None or "bytes" not in mres:
            continue
        stats["single_module_writes"] = stats.get("single_module_writes", 0) + 1
        if real != mres["bytes"] and mask(real, mres["ldpad"]) != mask(mres["bytes"], mres["ldpad"]):
            a_, b_ = bytes.fromhex(mres["bytes"]), bytes.fromhex(real)
            k_ = next((j for j in range(min(len(a_), len(b_))) if a_[j] != b_[j]), min(len(a_), len(b_)))
            out.append(("module %d written alone after other writes in the same context is not the image a fresh "
                        "context writes (model): %d vs %d bytes, first difference at raw offset %d"
                        % (i, len(b_), len(a_), k_), "C11:write-history-dependent",
                        {"model_at": a_[max(0, k_ - 8):k_ + 16].hex(), "impl_at": b_[max(0, k_ - 8):k_ + 16].hex()}))
            break
    # (a) model bytes
    if drw is None or "error" in drw:
        tie_breaks.append((case, "write-bytes", {"model": (drw or {}).get("error", "no answer"), "impl": "writes"}))
    else:
        mb = drw["bytes"]
        if mb != raw:
            if drw["ldpad"] and mask(mb, drw["ldpad"]) == mask(raw, drw["ldpad"]):
                stats["ld_pad_nonzero"] += 1
            else:
                a, b = bytes.fromhex(mb), bytes.fromhex(raw)
                k = next((i for i in range(min(len(a), len(b))) if a[i] != b[i]), min(len(a), len(b)))
                tie_breaks.append((case, "write-bytes", {"first_diff_offset": k, "model_len": len(a), "impl_len": len(b),
                                                         "model_at": a[max(0, k - 8):k + 16].hex(),
                                                         "impl_at": b[max(0, k - 8):k + 16].hex()}))
    # (c) round trip
    sig = classify(case, hr, drr or {}, dalt or {})
    if sig is not None:
        det = {"readerr": hr.get("readerr"), "first_diff": first_diff(d1, hr["D2"]) if "readerr" not in hr else None}
        out.append(("module is not read back as written: %s" % (hr.get("readerr") or "structure differs"), sig, det))
    else:
        if hr.get("text", "").split(" ")[0] != "same":
            out.append(("MIR_output text differs after the round trip", "C11:text-differs",
                        {"first_diff": first_diff(hr["T1"], hr["T2"])}))
        if hr.get("readcb") != "same":
            out.append(("MIR_read_with_func result differs from MIR_read: %s" % hr.get("readcb"), "C11:read-api-differ", {}))
    # (e) model reader (the compression layer is not part of the model)
    if drr is not None and sig != "C11:raw-length-multiple-of-buffer":
        if "readerr" in hr:
            if "error" not in drr:
                tie_breaks.append((case, "read", {"impl": hr["readerr"], "model": "accepts"}))
        elif "error" in drr:
            tie_breaks.append((case, "read", {"impl": "accepts", "model": drr["error"]}))
        elif drr["lines"] != hr["D2"]:
            tie_breaks.append((case, "read", {"first_diff": first_diff(drr["lines"], hr["D2"])}))
        else:
            stats["model_read_ok"] += 1
    if "D2_from_model_bytes" in hr:
        stats["read_from_model_bytes"] = stats.get("read_from_model_bytes", 0) + 1
        if hr["D2_from_model_bytes"] != hr["D2"]:
            tie_breaks.append((case, "read-model-bytes", {"first_diff": first_diff(hr["D2_from_model_bytes"] or ["<error>"], hr["D2"])}))
    # temp-name counters restored by the reader
    mc = hr.get("model_ctr")
    if mc is not None and "lines" in mc and "readerr" not in hr:
        if mc["lines"] != hr["C2"]:
            tie_breaks.append((case, "temp-counters", {"first_diff": first_diff(mc["lines"], hr["C2"])}))
        else:
            stats["counters_checked"] = stats.get("counters_checked", 0) + len(hr["C2"])
            stats["counters_nonzero"] = stats.get("counters_nonzero", 0) + sum(1 for l in hr["C2"] if not l.endswith(" 0"))
    # label identity (pointer level) in the re-read module
    if "readerr" not in hr and hr["L2"]:
        bad_f = [l for l in hr["L2"] if l.startswith("func") and
                 (l.split("ops=")[1].split()[0] != l.split("attached=")[1].split()[0] or not l.endswith("dup=0"))]
        if bad_f:
            out.append(("a label operand of the re-read module is not the label insn of its function",
                        "C11:label-identity", {"lines": bad_f[:5]}))
        stats["label_ops_checked"] = stats.get("label_ops_checked", 0) + sum(
            int(l.split("ops=")[1].split()[0]) for l in hr["L2"] if l.startswith("func"))
        l1 = [l for l in hr["L1"] if l.startswith("lref")]
        l2 = [l for l in hr["L2"] if l.startswith("lref")]
        # only lref items whose labels were label insns of a function before the round trip count
        bad_l = [b for a_, b in zip(l1, l2) if a_ != b and ("attached=0" in b or ",0" in b)] if len(l1) == len(l2) else l2
        exp_orphan = CFG["lrefOrphan"]
        if bad_l:
            out.append(("the labels of an lref item of the re-read module are not label insns of any function "
                        "(model: lrefOrphan=%s)" % exp_orphan,
                        "C11:lref-orphan-labels" if exp_orphan else "C11:lref-after-other-func", {"lines": bad_l[:5]}))
        elif exp_orphan and any(l.startswith("lref") for l in hr["L2"]):
            tie_breaks.append((case, "lref-labels", {"model": "orphan labels", "impl": hr["L2"][:5]}))
    if [l for l in hr["L1"] if l.startswith("func") and
            l.split("ops=")[1].split()[0] != l.split("attached=")[1].split()[0]]:
        case.meta["input_labels_detached"] = True
    # the same description built twice (differently scribbled stack) must give the same bytes
    rb = hr.get("rebuild")
    if rb is not None and rb.startswith("diff"):
        off = int(rb.split("raw-offset=")[1].split()[0])
        if drw is not None and "ldpad" in drw and off in drw["ldpad"]:
            out.append(("the padding bytes of a long double token are uninitialised memory: the same module built "
                        "twice is written differently (%s)" % rb, "C11:ldouble-padding-uninit", {"rebuild": rb}))
        else:
            out.append(("the same module description built twice is written differently (%s)" % rb,
                        "C11:write-nondeterministic", {"rebuild": rb}))
    ra = hr.get("RAW_again")
    if ra is not None and ra != raw:
        a, b = bytes.fromhex(raw), bytes.fromhex(ra)
        k = next((i for i in range(min(len(a), len(b))) if a[i] != b[i]), min(len(a), len(b)))
        diffs = [i for i in range(min(len(a), len(b))) if a[i] != b[i]]
        if drw is not None and "ldpad" in drw and len(a) == len(b) and all(i in set(drw["ldpad"]) for i in diffs):
            out.append(("two runs of the same program write the same module differently: the 6 padding bytes of "
                        "long double tokens are uninitialised memory (first difference at raw offset %d: %s vs %s)"
                        % (k, a[k:k + 6].hex(), b[k:k + 6].hex()), "C11:ldouble-padding-uninit",
                        {"offsets": diffs[:12]}))
        else:
            out.append(("two runs of the same program write the same module differently (raw offset %d)" % k,
                        "C11:write-nondeterministic", {"offsets": diffs[:12]}))
    # (d) execution / loadability
    if hr["X1"] or hr["X2"]:
        x1, x2 = hr["X1"], hr["X2"]
        stats["exec_calls"] += sum(1 for l in x1 if l.startswith("call"))
        if x1 != x2 and "readerr" not in hr:
            if (x1[:1] == ["load ok"] and x2 and x2[0].startswith("loaderr") and "A label not from any function" in x2[0]
                    and "lref" in features(d1)):
                out.append(("module with lref data cannot be loaded after the round trip: " + x2[0],
                            "C11:lref-orphan-labels" if CFG["lrefOrphan"] else "C11:lref-after-other-func",
                            {"X1": x1[:3], "X2": x2[:3]}))
            else:
                out.append(("load/execution differs after the round trip", "C11:exec-differs",
                            {"first_diff": first_diff(x1, x2)}))
    return out


def first_diff(a, b):
    for i in range(max(len(a), len(b))):
        x = a[i] if i < len(a) else "<missing>"
        y = b[i] if i < len(b) else "<missing>"
        if x != y:
            return {"line": i, "a": x[:400], "b": y[:400]}
    return None


def process(cases, tag, exe=None, timeout=600):
    """run one chunk through harness and driver; returns [(case, violations)]"""
    hres = run_harness(cases, tag, exe, timeout=timeout)
    undone = [c for c in cases if "crash" in hres[c.id]]
    if undone and len(cases) > 1:
        # the harness died inside one case: re-run the unfinished ones alone to find the culprit
        for c in undone:
            hres[c.id] = run_harness([c], tag + "_solo", exe, timeout=240)[c.id]
    cmds, idx = [], {}
    for c in cases:
        hr = hres[c.id]
        if "crash" in hr or "builderr" in hr:
            continue
        k = len(cmds)
        cmds.append(("write", hr["D1"]))
        n = 1
        if "RAW" in hr:
            cmds.append(("read", hr["RAW"]))
            n += 1
            bad = ("readerr" in hr) or (hr["D2"] != hr["D1"])
            if bad:
                for fl in ("g", "c", "p", "e", "z"):
                    cmds.append(("readx", fl, hr["RAW"]))
                n += 5
            else:
                cmds.append(("ctr", hr["RAW"]))
                n += 1
        idx[c.id] = (k, n)
        if "MRAW" in hr:
            mods, curm = [], []
            for l in hr["D1"]:
                curm.append(l)
                if l == "endmodule":
                    mods.append(curm)
                    curm = []
            hr["_single_at"] = len(cmds)
            hr["_single_n"] = len(mods)
            for m in mods:
                cmds.append(("write", m))
    if HAVE_DRV:
        dres = run_driver(cmds) if cmds else []
    else:
        dres = [{"error": "no driver"} for _ in cmds]
    # (f) model-written bytes -> real reduce_encode -> real MIR_read must give the same modules
    rawc = []
    for c in cases:
        if c.id in idx and "bytes" in dres[idx[c.id][0]] and "RAW" in hres[c.id] and "readerr" not in hres[c.id]:
            mb = dres[idx[c.id][0]]["bytes"]
            if mb != hres[c.id]["RAW"] or (sum(map(ord, c.id)) % 5 == 0 and len(mb) < 400000):
                rawc.append(Case(c.id + "~raw", ["hex " + mb], flags=["raw"], kind="raw"))
    if rawc:
        h3 = run_harness(rawc, tag + "_raw", exe, timeout=timeout)
        for rc in rawc:
            hres[rc.id[:-4]]["D2_from_model_bytes"] = h3[rc.id].get("D2") if "readerr" not in h3[rc.id] else None
    # the same cases once more in another process (address space layout differs): same bytes expected
    again = [c for c in cases if "rebuild" in c.flags and "RAW" in hres[c.id]]
    if again:
        h2 = run_harness(again, tag + "_again", exe, timeout=timeout)
        for c in again:
            if "RAW" in h2[c.id]:
                hres[c.id]["RAW_again"] = h2[c.id]["RAW"]
    out = []
    for c in cases:
        hr = hres[c.id]
        drw = drr = None
        dalt = {}
        if c.id in idx:
            k, n = idx[c.id]
            drw = dres[k]
            if n >= 2:
                drr = dres[k + 1]
            if n >= 7:
                dalt = {"g": dres[k + 2], "c": dres[k + 3], "p": dres[k + 4], "e": dres[k + 5], "z": dres[k + 6]}
            elif n == 3:
                hr["model_ctr"] = dres[k + 2]
        if "_single_at" in hr:
            hr["_single_model"] = dres[hr["_single_at"]:hr["_single_at"] + hr["_single_n"]]
        c.hr, c.drw = hr, drw
        out.append((c, judge(c, hr, drw, drr, dalt)))
    return out


# ---------------------------------------------------------------------------------------------
# case sources
# ---------------------------------------------------------------------------------------------
def x(b):
    return c11_gen.xs(b)


def defect_probes():
    """small modules that carry the features of the listed findings (re-found on every run)"""
    C = T.code
    P = []
    # #30 global tied to a hard register (several table sizes => different misreads)
    for i, pad in enumerate([0, 3, 70]):
        L = ["module " + x(b"m")]
        for j in range(pad):
            L.append("import " + x(b"pad%d" % j))
        L += ["func %s 0 1 6 1 6 %s 0" % (x(b"f"), x(b"a")), "global 6 %s %s" % (x(b"g"), x(b"r13")),
              "insn %d 3 r:%s r:%s r:%s" % (C["ADD"], x(b"g"), x(b"g"), x(b"a")),
              "insn %d 1 r:%s" % (C["RET"], x(b"g")), "endfunc", "endmodule"]
        P.append(Case("known-global-%d" % i, L, kind="probe"))
    # #31 property insns
    L = ["module " + x(b"m"), "func %s 0 1 6 1 6 %s 0" % (x(b"f"), x(b"a")),
         "insn %d 2 r:%s i:7" % (C["PRSET"], x(b"a")), "insn %d 1 r:%s" % (C["RET"], x(b"a")), "endfunc", "endmodule"]
    P.append(Case("known-prset", L, kind="probe"))
    L = ["module " + x(b"m"), "func %s 0 1 6 1 6 %s 0" % (x(b"f"), x(b"a")),
         "insn %d 3 l:1 r:%s i:7" % (C["PRBEQ"], x(b"a")), "label 1",
         "insn %d 3 l:1 r:%s i:8" % (C["PRBNE"], x(b"a")),
         "insn %d 1 r:%s" % (C["RET"], x(b"a")), "endfunc", "endmodule"]
    P.append(Case("known-prbeq", L, kind="probe"))
    # #34 data of type p
    L = ["module " + x(b"m"), "data %s 11 2 4660 0" % x(b"d"), "endmodule"]
    P.append(Case("known-data-p", L, kind="probe"))
    L = ["module " + x(b"m"), "data - 11 1 18446744073709551615", "endmodule"]
    P.append(Case("known-data-p2", L, kind="probe"))
    # #6 lref
    L = ["module " + x(b"m"), "func %s 0 1 6 1 6 %s 0" % (x(b"f"), x(b"a")), "label 1",
         "insn %d 3 r:%s r:%s i:1" % (C["ADD"], x(b"a"), x(b"a")), "label 2",
         "insn %d 1 r:%s" % (C["RET"], x(b"a")), "endfunc",
         "lref %s 1 - 0" % x(b"l1"), "lref - 2 1 8", "endmodule"]
    P.append(Case("known-lref", L, flags=["load"], kind="probe"))
    # an lref item separated from the function that owns its labels by another function
    L = ["module " + x(b"m"), "func %s 0 1 6 1 6 %s 0" % (x(b"f"), x(b"a")), "label 1",
         "insn %d 3 r:%s r:%s i:1" % (C["ADD"], x(b"a"), x(b"a")), "label 2",
         "insn %d 1 r:%s" % (C["RET"], x(b"a")), "endfunc",
         "func %s 0 1 6 1 6 %s 0" % (x(b"g"), x(b"a")), "label 3", "insn %d 1 r:%s" % (C["RET"], x(b"a")), "endfunc",
         "lref %s 2 1 0" % x(b"t"), "endmodule"]
    P.append(Case("known-lref-after-other-func", L, flags=["modlabels", "load"], kind="probe"))
    # a label after the last instruction of a function
    L = ["module " + x(b"m"), "func %s 0 1 6 1 6 %s 0" % (x(b"f"), x(b"a")),
         "insn %d 1 l:1" % C["JMP"], "insn %d 1 r:%s" % (C["RET"], x(b"a")), "label 1", "endfunc", "endmodule"]
    P.append(Case("probe-trailing-label", L, kind="probe"))
    return P


def unit_probes():
    """edge modules the proof's WF conditions point at (empty module list, empty names, ...)"""
    C = T.code
    P = [Case("unit-empty", [], kind="unit")]
    P.append(Case("unit-empty-module", ["module " + x(b""), "endmodule"], kind="unit"))
    P.append(Case("unit-two-modules", ["module " + x(b"a"), "endmodule", "module " + x(b"a"), "endmodule"], kind="unit"))
    # names equal to the reserved statement names
    L = ["module " + x(b"module")]
    for n in (b"func", b"endfunc", b"local", b"global", b"data", b"endmodule", b"import"):
        L.append("import " + x(n))
    L += ["func %s 0 0 1 6 %s 0" % (x(b"proto"), x(b"local")), "local 6 %s" % x(b"global"),
          "insn %d 2 r:%s r:%s" % (C["MOV"], x(b"global"), x(b"local")),
          "insn %d 0" % C["RET"], "endfunc", "endmodule"]
    P.append(Case("unit-keyword-names", L, kind="unit"))
    # every integer length as int / uint immediates and as data
    L = ["module " + x(b"m"), "func %s 0 0 0" % x(b"f"), "local 6 %s" % x(b"r")]
    vals = sorted(set(c11_gen.INTERESTING + [(1 << (8 * k)) - 1 for k in range(1, 9)] + [1 << (8 * k) for k in range(1, 8)]))
    for v in vals:
        L.append("insn %d 2 r:%s i:%d" % (C["MOV"], x(b"r"), v))
        L.append("insn %d 2 r:%s u:%d" % (C["MOV"], x(b"r"), v))
    L += ["insn %d 0" % C["RET"], "endfunc"]
    for ty, b in ((0, 8), (1, 8), (2, 16), (3, 16), (4, 32), (5, 32), (6, 64), (7, 64)):
        vs = sorted({v & ((1 << b) - 1) for v in vals})
        L.append("data - %d %d %s" % (ty, len(vs), " ".join(map(str, vs))))
    L.append("data - 8 %d %s" % (len(c11_gen.F_BITS), " ".join(map(str, c11_gen.F_BITS))))
    L.append("data - 9 %d %s" % (len(c11_gen.D_BITS), " ".join(map(str, c11_gen.D_BITS))))
    L.append("data - 10 %d %s" % (len(c11_gen.LD_BITS), " ".join("%d_%d" % p for p in c11_gen.LD_BITS)))
    L.append("endmodule")
    P.append(Case("unit-int-lengths", L, flags=["rebuild"], kind="unit"))
    # long double immediates: the token carries 6 padding bytes
    L = ["module " + x(b"m"), "func %s 0 1 10 0" % x(b"f"), "local 10 %s" % x(b"r")]
    for lo, hi in c11_gen.LD_BITS:
        L.append("insn %d 2 r:%s L:%d_%d" % (C["LDMOV"], x(b"r"), lo, hi))
    L += ["insn %d 1 L:5_16384" % C["RET"], "endfunc", "endmodule"]
    P.append(Case("unit-ldouble-imm", L, flags=["rebuild"], kind="unit"))
    # every memory operand shape x alias
    L = ["module " + x(b"m"), "func %s 0 0 1 6 %s 0" % (x(b"f"), x(b"b")), "local 6 %s" % x(b"i"),
         "local 6 %s" % x(b"r")]
    for disp in (0, 1, (1 << 64) - 8):
        for base in ("-", x(b"b")):
            for idx, sc in (("-", 0), (x(b"i"), 1), (x(b"i"), 8), (x(b"i"), 255)):
                for al, nal in ((b"", b""), (b"a", b""), (b"", b"n"), (b"a", b"n")):
                    for ty in (0, 7, 11):
                        L.append("insn %d 2 r:%s m:%d:%d:%s:%s:%d:%s:%s" % (C["MOV"], x(b"r"), ty, disp, base, idx, sc, x(al), x(nal)))
    L += ["insn %d 0" % C["RET"], "endfunc", "endmodule"]
    P.append(Case("unit-mem-shapes", L, kind="unit"))
    # label numbers needing 1..4 bytes
    for base in (0, 120, 250, 65530, (1 << 24) - 3):
        L = ["module " + x(b"m"), "func %s 0 0 0" % x(b"f")]
        for k in range(1, 7):
            L += ["label %d" % k, "insn %d 1 l:%d" % (C["JMP"], 7 - k)]
        L += ["insn %d 0" % C["RET"], "endfunc", "endmodule"]
        P.append(Case("unit-labels-%d" % base, L, flags=["labelbase=%d" % base], kind="unit"))
    return P


def gen_cases(n, rng, prefix="g"):
    g = c11_gen.Gen(rng, T, hard_regs={"i": [b"rbx", b"r12", b"r13", b"r14", b"r15", b"rax", b"rsi"], "d": []})
    out = []
    for i in range(n):
        k = rng.below(10)
        feats = {"lref": k == 1, "expr": True,
                 "globals": not CFG["globalDoubleRead"], "props": CFG["codeLimit"] > max(PROP_CODES or [0]),
                 "data_p": CFG["dataPtr"], "trailing_label": CFG["endfuncLabels"] and k == 9}
        if k < 3:
            lines, calls = g.gen_exec_case(1 + rng.below(4), rng.choice([3, 10, 40]))
            out.append(Case("%s%d" % (prefix, i), lines, flags=["exec"], calls=calls, kind="exec"))
            continue
        nmod = rng.choice([1, 1, 1, 2, 3])
        lines = []
        flags = ["load"] if (feats["lref"] or rng.chance(1, 3)) else []
        feats["loadable"] = bool(flags)
        if rng.chance(1, 4):
            flags.append("rebuild")
        for _ in range(nmod):
            lines += g.gen_module(rng.choice([1, 3, 8, 20]), rng.choice([0, 2, 10, 40, 120]), feats)
        if rng.chance(1, 6):
            flags.append("labelbase=%d" % rng.choice([100, 250, 65000, 70000]))
        out.append(Case("%s%d" % (prefix, i), lines, flags=flags, kind="gen"))
    return out


def incompressible_cases(rng):
    """modules whose raw stream is incompressible over long stretches: random strings and random
    u64/u8 tables of sizes around the longest literal run of mir-reduce.h (2047) and around 2^16 / the
    2^18 buffer, several per module at different stream offsets, so that the boundary paths of the
    compression layer are driven through MIR_write / MIR_read"""
    C = T.code
    out = []

    def rnd(n):
        b = bytearray()
        while len(b) < n:
            b += rng.next().to_bytes(8, "little")
        return bytes(b[:n])

    def str_insn(bs):
        return "insn %d 2 r:%s s:%s" % (C["MOV"], x(b"r"), x(bs))

    def u64_data(name, n):
        return "data %s 7 %d %s" % (x(name), n, " ".join(str(rng.next() | (1 << 63)) for _ in range(n)))

    def u8_data(name, n):
        return "data %s 1 %d %s" % (x(name), n, " ".join(str(b) for b in rnd(n)))

    def module(name, pad, strs, tables):
        L = ["module " + x(name)]
        for j in range(pad):                       # shifts everything that follows in the stream
            L.append("import " + x(b"p%d_%d" % (j, rng.below(1000))))
        for k, (kind, n) in enumerate(tables):
            L.append(u64_data(b"t%d" % k, n) if kind == "u64" else u8_data(b"b%d" % k, n))
        L += ["func %s 0 0 0" % x(b"f"), "local 6 %s" % x(b"r")]
        L += [str_insn(rnd(n)) for n in strs]
        L += ["insn %d 0" % C["RET"], "endfunc", "endmodule"]
        return L

    # literal-run boundary: a run is flushed at exactly 2047 bytes
    out.append(Case("incompr-u64-600", module(b"m", 0, [], [("u64", 600)]), kind="incompr"))
    out.append(Case("incompr-u64-mix", module(b"m", 3, [], [("u64", 227), ("u64", 228), ("u64", 455), ("u64", 1000)]),
                    kind="incompr"))
    for base in (2047, 4094, 6141):
        sizes = [base + d for d in range(-4, 5)]
        out.append(Case("incompr-str-%d" % base, module(b"s", rng.below(7), sizes, []), kind="incompr"))
    out.append(Case("incompr-str-u8", module(b"s", 1, [2047, 100, 2046, 2048], [("u8", 2047), ("u8", 5000)]),
                    kind="incompr"))
    # 2^16 and several stretches in one module at different offsets
    for i, pad in enumerate((0, 5, 40)):
        out.append(Case("incompr-64k-%d" % i,
                        module(b"k", pad, [65535 + i, 2047, 65536 - i], [("u64", 600 + 17 * i), ("u8", 65536)]),
                        kind="incompr"))
    # the 2^18 buffer of the compressor: incompressible data across the buffer switch
    out.append(Case("incompr-buf", module(b"b", 2, [262144 - 3, 2047, 262144 + 5], [("u64", 30000)]), kind="incompr"))
    if THOROUGH:
        for i in range(6):
            strs = [rng.choice([2047, 2046, 2048, 4094, 10000, 65536, 100000]) for _ in range(1 + rng.below(4))]
            tabs = [(rng.choice(["u64", "u8"]), rng.choice([100, 227, 228, 600, 2047, 9000])) for _ in range(rng.below(4))]
            out.append(Case("incompr-rnd-%d" % i, module(b"r", rng.below(60), strs, tabs), kind="incompr"))
        out.append(Case("incompr-buf2", module(b"b", 0, [524288, 262143], [("u64", 60000)]), kind="incompr"))
    return out


def int_module(g, rng, nfuncs, with_lref=True):
    """integer-only module (nothing that link-time simplification turns into `.lc` data items):
    functions with forward branches and a backward counted loop, lref items over their labels,
    among them `lref later, first` whose base is the first label of the module"""
    C = T.code
    L = ["module " + x(g.ident(False))]
    calls = []
    for _ in range(nfuncs):
        fn, a = g.ident(False), g.ident(False)
        regs = [g.ident(False) for _ in range(3)]
        cnt = g.ident(False)                                         # loop counter, written nowhere else
        L.append("func %s 0 1 6 1 6 %s 0" % (x(fn), x(a)))
        L += ["local 6 %s" % x(r) for r in regs + [cnt]]
        L += ["insn %d 2 r:%s i:%d" % (C["MOV"], x(r), rng.below(50)) for r in regs + [cnt]]
        nl = 2 + rng.below(4)
        L.append("label 1")                                          # loop head = first label
        L.append("insn %d 3 r:%s r:%s i:1" % (C["ADD"], x(cnt), x(cnt)))
        for k in range(2, nl + 1):
            op = rng.choice(["ADD", "SUB", "XOR", "MUL", "AND"])
            L.append("insn %d 3 r:%s r:%s r:%s" % (C[op], x(rng.choice(regs)), x(rng.choice(regs)), x(a)))
            L.append("insn %d 3 l:%d r:%s i:%d" % (C[rng.choice(["BLT", "BGT", "BEQ", "BNE"])], k, x(rng.choice(regs)),
                                                   rng.below(100)))
            L.append("insn %d 3 r:%s r:%s i:%d" % (C["ADD"], x(regs[1]), x(regs[1]), g.u64() & 0xFFFF))
            L.append("label %d" % k)
        L.append("insn %d 3 l:1 r:%s i:%d" % (C["BLT"], x(cnt), 60 + rng.below(20)))
        L.append("insn %d 3 r:%s r:%s r:%s" % (C["ADD"], x(regs[0]), x(regs[1]), x(regs[2])))
        L += ["insn %d 1 r:%s" % (C["RET"], x(regs[0])), "endfunc"]
        if with_lref:
            L.append("lref %s %d 1 %d" % (x(g.ident(False)), nl, rng.below(16)))       # base = first label
            L.append("lref - %d %d 0" % (1 + rng.below(nl), 1 + rng.below(nl)))
            L.append("lref - 1 - 8")
        calls += ["call %s 1 i:%d" % (x(fn), rng.below(40)) for _ in range(2)]
    L.append("endmodule")
    return L, calls


def history_cases(rng, n):
    """modules that do not come straight from one context:
    merge    = every module built and written in a context of its own (labels numbered from 1 in each),
               all binaries read into one context, which is then written / read / compared;
    postlink = modules loaded and linked (labels renumbered from 0 per module) before they are written"""
    g = c11_gen.Gen(rng, T, hard_regs={"i": [b"rbx", b"r12", b"r13"], "d": []})
    out = []
    for i in range(n):
        k = i % 4
        if k == 0:
            lines, calls = [], []
            for _ in range(2 + rng.below(3)):
                l, c = int_module(g, rng, 1 + rng.below(3))
                lines += l
                calls += c
            out.append(Case("hist-merge-int-%d" % i, lines, flags=["merge", "exec"], calls=calls, kind="history"))
        elif k == 1:
            lines, calls = [], []
            for _ in range(2 + rng.below(2)):
                l, c = g.gen_exec_case(1 + rng.below(3), rng.choice([10, 40]))
                lines += l
                calls += c
            out.append(Case("hist-merge-exec-%d" % i, lines, flags=["merge", "exec"], calls=calls, kind="history"))
        elif k == 2:
            feats = {"lref": True, "expr": True, "globals": not CFG["globalDoubleRead"], "loadable": True,
                     "props": CFG["codeLimit"] > max(PROP_CODES or [0]), "data_p": CFG["dataPtr"]}
            lines = []
            for _ in range(2 + rng.below(2)):
                lines += g.gen_module(rng.choice([3, 8]), rng.choice([10, 40]), feats)
            fl = ["merge", "load"] + (["labelbase=%d" % rng.choice([250, 65530])] if rng.chance(1, 3) else [])
            out.append(Case("hist-merge-gen-%d" % i, lines, flags=fl, kind="history"))
        elif i % 8 == 3:
            lines, calls = [], []
            for _ in range(1 + rng.below(3)):
                l, c = int_module(g, rng, 1 + rng.below(3))
                lines += l
                calls += c
            out.append(Case("hist-postlink-%d" % i, lines, flags=["postlink", "exec"], calls=calls, kind="history"))
        else:
            # written after link, with float / double / long double / string constants: link-time
            # simplification turns them into `.lc<N>` data items
            lines, calls = [], []
            for _ in range(1 + rng.below(2)):
                l, c = g.gen_exec_case(1 + rng.below(3), rng.choice([10, 40]))
                lines += l
                calls += c
            l, c = int_module(g, rng, 1)
            k = next(j for j, ln in enumerate(l) if ln.startswith("insn"))
            sreg = g.ident(False)          # holds the address of the string: must not reach the result
            l.insert(k, "local 6 %s" % x(sreg))
            l.insert(k + 1, "insn %d 2 r:%s s:%s" % (T.code["MOV"], x(sreg), x(b"a string constant\0")))
            out.append(Case("hist-postlink-fp-%d" % i, lines + l, flags=["postlink", "exec"], calls=calls + c,
                            kind="history"))
    return out


def buffer_multiple_cases():
    """modules whose RAW stream length is exactly k * 2^18 (the buffer of mir-reduce.h) and k * 2^18 +- 1:
    padded with a u8 data item of zeros (one raw byte per element); the length is computed with the model"""
    if not HAVE_DRV:
        return []
    base = 10

    def lines(n):
        return ["module " + x(b"pad"), "data %s 1 %d %s" % (x(b"z"), n, " ".join(["0"] * n)),
                "func %s 0 1 6 0" % x(b"f"), "insn %d 1 i:7" % T.code["RET"], "endfunc", "endmodule"]

    r = run_driver([("write", lines(base))])[0]
    if "bytes" not in r:
        return []
    len0 = len(r["bytes"]) // 2
    out = []
    for k in (1, 2):
        for d in (-1, 0, 1):
            n = base + k * (1 << 18) + d - len0
            out.append(Case("bufmult-%d%+d" % (k, d), lines(n), flags=["exec"], calls=["call %s 0" % x(b"f")],
                            kind="incompr", meta={"raw_len": k * (1 << 18) + d}))
    return out


def big_cases(rng):
    """sizes beyond two compression buffers (2 * 2^18 raw bytes); few distinct strings, many tokens"""
    g = c11_gen.Gen(rng, T)
    C = T.code
    out = []
    # (1) a long function
    L = ["module " + x(b"big1"), "func %s 0 1 6 2 6 %s 0 6 %s 0" % (x(b"f"), x(b"a"), x(b"b"))]
    for i in range(8):
        L.append("local 6 %s" % x(b"r%d" % i))
    n = 60000
    for i in range(n):
        if i % 97 == 0:
            L.append("label %d" % (i // 97 + 1))
        d = x(b"r%d" % rng.below(8))
        L.append("insn %d 3 r:%s r:%s i:%d" % (C[rng.choice(["ADD", "SUB", "XOR", "MUL"])], d, x(rng.choice([b"a", b"b"])), g.u64()))
    L += ["insn %d 1 r:%s" % (C["RET"], x(b"r0")), "endfunc", "endmodule"]
    out.append(Case("big-func", L, kind="big"))
    # (2) large data items of every width
    L = ["module " + x(b"big2")]
    for ty, b, cnt in ((1, 8, 300000), (3, 16, 60000), (6, 64, 40000), (9, 64, 30000), (10, 80, 12000)):
        if ty == 10:
            els = ["%d_%d" % g.ldbits() for _ in range(cnt)]
        elif ty == 9:
            els = [str(g.dbits()) for _ in range(cnt)]
        else:
            els = [str(g.u64() & ((1 << b) - 1)) for _ in range(cnt)]
        L.append("data %s %d %d %s" % (x(b"d%d" % ty), ty, cnt, " ".join(els)))
    L.append("endmodule")
    out.append(Case("big-data", L, kind="big"))
    # (3) many distinct strings: string numbers needing 3 bytes (> 65536 entries)
    L = ["module " + x(b"big3")]
    for i in range(66000):
        L.append("import " + x(b"i%d" % i))
    L += ["func %s 0 0 0" % x(b"f"), "local 6 %s" % x(b"r"),
          "insn %d 2 r:%s R:%s" % (C["MOV"], x(b"r"), x(b"i65999")),
          "insn %d 2 r:%s s:%s" % (C["MOV"], x(b"r"), x(b"a string number above 65536\0")),
          "insn %d 0" % C["RET"], "endfunc", "endmodule"]
    out.append(Case("big-strings", L, kind="big"))
    return out


def text_corpus(rng):
    """mir-tests/*.mir and modules produced now by a c2m built from the tree under test"""
    out = []
    d = os.path.join(REPO, "mir-tests")
    for f in sorted(os.listdir(d)):
        if f.endswith(".mir"):
            out.append(Case("mir-tests-" + f[:-4], [], text=os.path.join(d, f), flags=["load"], kind="mir-tests"))
    c2m = ck.cc("c11_c2m", [os.path.join(REPO, "c2mir", "c2mir-driver.c"), os.path.join(REPO, "c2mir", "c2mir.c"),
                            os.path.join(REPO, "mir.c"), os.path.join(REPO, "mir-gen.c")],
                flags=["-O1", "-w", "-DNDEBUG"])
    if c2m is None:
        ck.broken_ties.append({"kind": "harness-compile", "name": "c11_c2m", "log": getattr(ck, "last_cc_log", "")[-800:]})
        return out
    files = []
    for sub in ("new", "lacc", "andrewchambers_c", "gcc", "mir", "havoc"):
        dd = os.path.join(REPO, "c-tests", sub)
        if os.path.isdir(dd):
            files += [os.path.join(dd, f) for f in sorted(os.listdir(dd)) if f.endswith(".c")]
    want = 400 if THOROUGH else 80
    must = [f for f in files if os.path.basename(f) in ("jcall.c", "propcond.c", "propcond2.c", "issue355.c", "setjmp.c",
                                                        "labels-as-values.c", "typedef.c")]
    pick = list(must)
    pool = [f for f in files if f not in must]
    while pool and len(pick) < want:
        pick.append(pool.pop(rng.below(len(pool))))
    outdir = os.path.join(RUN, "c2m")
    os.makedirs(outdir, exist_ok=True)

    def one(i_f):
        i, f = i_f
        o = os.path.join(outdir, "c%d.mir" % i)
        try:
            p = subprocess.run([c2m, "-S", os.path.basename(f), "-o", o], cwd=os.path.dirname(f),
                               stdout=subprocess.DEVNULL, stderr=subprocess.DEVNULL, timeout=60, preexec_fn=limits)
        except subprocess.TimeoutExpired:
            return None
        if p.returncode != 0 or not os.path.exists(o) or os.path.getsize(o) == 0:
            return None
        return Case("c2m-%d-%s" % (i, os.path.basename(f)[:-2]), [], text=o, flags=["load"], kind="c2m",
                    meta={"source": f})

    with ThreadPoolExecutor(max_workers=16) as ex:
        for c in ex.map(one, list(enumerate(pick))):
            if c is not None:
                out.append(c)
    stats["c2m_compiled"] = sum(1 for c in out if c.kind == "c2m")
    stats["c2m_tried"] = len(pick)
    return out


# ---------------------------------------------------------------------------------------------
# token-level unit tie
# ---------------------------------------------------------------------------------------------
def token_tie():
    vals = sorted(set(c11_gen.INTERESTING + [(1 << (8 * k)) - 1 for k in range(1, 9)] + [1 << (8 * k) for k in range(1, 8)]
                      + [ck.rng.next() >> ck.rng.below(64) for _ in range(200 if THOROUGH else 40)]))
    idxs = [0, 1, 127, 128, 255, 256, 65535, 65536, (1 << 24) - 1, 1 << 24, (1 << 32) - 1]
    req = []
    for v in vals:
        req += [("uint", v), ("int", v), ("len", v)]
    for v in c11_gen.F_BITS:
        req.append(("flt", v))
    for v in c11_gen.D_BITS:
        req.append(("dbl", v))
    for lo, hi in c11_gen.LD_BITS:
        req.append(("ldbl", "%d_%d" % (lo, hi)))
    for t in range(18):
        req.append(("type", t))
    for i in idxs:
        req += [("str", i), ("name", i), ("reg", i), ("lab", i)]
    base = {"str": 28, "name": 24, "reg": 20, "lab": 32}
    hin, din = [], []
    for k, v in req:
        if k == "len":
            hin.append("len %d" % v)
            din.append(("raw", "len %d" % v))
        elif k in base:
            hin.append("tokw %s %s" % (k, v))
            din.append(("raw", "tok idx %d %s" % (base[k], v)))
        else:
            hin.append("tokw %s %s" % (k, v))
            din.append(("raw", "tok %s %s" % (k, v)))
    path = os.path.join(RUN, "tok.txt")
    open(path, "w").write("\n".join(hin) + "\n")
    p = subprocess.run([HARNESS, path], stdout=subprocess.PIPE, stderr=subprocess.PIPE, env=ENV, timeout=300,
                       preexec_fn=limits)
    ho = p.stdout.decode().split("\n")
    if not HAVE_DRV:
        return 0
    do = run_driver(din)
    n_ok = 0
    toks = []
    for i, (k, v) in enumerate(req):
        h = ho[i] if i < len(ho) else "<none>"
        m = do[i]["line"]
        if h != m:
            tie_breaks.append((None, "token-write", {"token": [k, v], "impl": h, "model": m}))
        else:
            n_ok += 1
            if h.startswith("bytes "):
                toks.append(h[6:])
    # reading direction: every token written above, plus hand-made non-canonical encodings
    extra = ["0100", "020000", "0900", "0a0000", "04ffffffff", "0cffffffff", "0c00000080", "10ffffffffffffff7f",
             "1400", "150000", "18ff", "1bffffffff", "2300000001", "3d", "3e", "2b", "3c", "37", "3b", "45", "24", "2a",
             "00", "46", "7f", "80", "ff", "13" + "ff" * 16, "13" + "00" * 9 + "80" + "ff" * 6]
    rin = ["tokr " + t for t in toks + extra]
    open(path, "w").write("\n".join(rin) + "\n")
    p = subprocess.run([HARNESS, path], stdout=subprocess.PIPE, stderr=subprocess.PIPE, env=ENV, timeout=300,
                       preexec_fn=limits)
    ho = p.stdout.decode().split("\n")
    do = run_driver([("raw", "rtok " + t) for t in toks + extra])
    for i, t in enumerate(toks + extra):
        h = ho[i] if i < len(ho) else "<none>"
        m = do[i]["line"]
        if h.startswith("error") and m.startswith("error"):
            n_ok += 1
        elif h != m:
            tie_breaks.append((None, "token-read", {"bytes": t, "impl": h, "model": m}))
        else:
            n_ok += 1
    os.remove(path)
    stats["token_checks"] = n_ok
    return n_ok


# ---------------------------------------------------------------------------------------------
# shrinking
# ---------------------------------------------------------------------------------------------
def units_of(lines):
    """split description lines into removable units: whole functions, other items; modules kept"""
    units, i = [], 0
    while i < len(lines):
        if lines[i].startswith("func "):
            j = i
            while not lines[j].startswith("endfunc"):
                j += 1
            units.append(lines[i:j + 1])
            i = j + 1
        else:
            units.append([lines[i]])
            i += 1
    return units


def shrink(case, sig, budget=40):
    """greedy removal of items, then of instructions, keeping the same signature"""
    if case.text or not case.lines:
        return case
    if sig == "C11:crash":
        budget = 8
    n_eval = [0]

    def still(lines):
        if n_eval[0] >= budget:
            return False
        n_eval[0] += 1
        c = Case(case.id + "-s", lines, case.flags, case.kind, case.calls)
        try:
            (_, viol), = process([c], "shrink", timeout=60)
        except Exception:
            return False
        return any(s == sig for _, s, _ in viol)

    cur = list(case.lines)
    units = units_of(cur)
    k = max(1, len(units) // 2)
    while k >= 1 and n_eval[0] < budget:
        i, changed = 0, False
        while i < len(units) and n_eval[0] < budget:
            cand = units[:i] + units[i + k:]
            if any(u[0].startswith("module") for u in units[i:i + k]) or any(u[0].startswith("endmodule") for u in units[i:i + k]):
                i += k
                continue
            flat = [l for u in cand for l in u]
            if still(flat):
                units, changed = cand, True
            else:
                i += k
        if not changed:
            k //= 2
    cur = [l for u in units for l in u]
    # instruction level
    i = 0
    while i < len(cur) and n_eval[0] < budget:
        if cur[i].startswith(("insn ", "label ", "local ")):
            cand = cur[:i] + cur[i + 1:]
            if still(cand):
                cur = cand
                continue
        i += 1
    return Case(case.id, cur, case.flags, case.kind, case.calls)


# ---------------------------------------------------------------------------------------------
# main
# ---------------------------------------------------------------------------------------------
REAL = [0]      # violations with a failing input


def report(case, what, sig, det):
    rp = {"stage": "tie", "theorem_or_correspondence": "bin_roundtrip / MIR_write+MIR_read",
          "input": case.to_json(), "impl_output": {k: case.hr.get(k) for k in ("readerr", "text", "w2", "wcb", "readcb")
                                                   if hasattr(case, "hr")},
          "detail": det,
          "how_to_rerun": "cd /verif && ./check C11 --replay <this file>"}
    k = ck.is_known(sig) if sig else None
    if k:
        stats["known"][sig] = stats["known"].get(sig, 0) + 1
    if ck.violation(rp, what=what, signature=sig):
        REAL[0] += 1


def run_all(cases, exe=None, label="main"):
    if not cases:
        return
    small = [c for c in cases if c.kind not in ("big", "incompr")]
    big = [c for c in cases if c.kind in ("big", "incompr")]
    nchunk = max(1, min(16, len(small) // 4))
    chunks = [small[i::nchunk] for i in range(nchunk)] + [[c] for c in big]
    chunks = [c for c in chunks if c]
    results = []
    with ThreadPoolExecutor(max_workers=16) as ex:
        futs = [ex.submit(process, ch, "%s%d" % (label, i), exe) for i, ch in enumerate(chunks)]
        for f in futs:
            results += f.result()
    by_sig = {}
    for c, viol in results:
        for what, sig, det in viol:
            by_sig.setdefault(sig, []).append((c, what, det))
    for sig, lst in by_sig.items():
        # report the smallest witness per signature, shrunk
        lst.sort(key=lambda t: len(t[0].lines) if not t[0].text else 10 ** 6)
        c, what, det = lst[0]
        if not ck.is_known(sig):
            c2 = shrink(c, sig)
            c2.hr = getattr(c, "hr", {})
            c = c2
        det = dict(det, cases_with_this_signature=len(lst), ids=[t[0].id for t in lst[:10]])
        stats["known"][sig] = 0
        for _ in lst:
            if ck.is_known(sig):
                stats["known"][sig] += 1
        report(c, what, sig, det)
        failures.append((c.id, sig))


try:
    t0 = time.time()
    if ck.replay:
        d = json.load(open(ck.replay))
        c = Case.from_json(d.get("input") or d)
        run_all([c], label="replay")
    else:
        token_tie()
        ck.stage("token-tie", checks=stats.get("token_checks"))
        cases = []
        cdir = os.path.join(VERIF, "corpus", "C11")
        if os.path.isdir(cdir):
            for f in sorted(os.listdir(cdir)):
                if f.endswith(".json"):
                    c = Case.from_json(json.load(open(os.path.join(cdir, f))))
                    c.kind = "corpus"
                    cases.append(c)
        stats["corpus_replayed"] = len(cases)
        cases += defect_probes() + unit_probes() + incompressible_cases(ck.rng)
        cases += history_cases(ck.rng, 120 if THOROUGH else 32)
        cases += buffer_multiple_cases()
        cases += gen_cases(900 if THOROUGH else 320, ck.rng)
        cases += text_corpus(ck.rng)
        if THOROUGH:
            cases += big_cases(ck.rng)
        ck.log("cases: %d" % len(cases))
        run_all(cases)
        ck.stage("roundtrip", cases=len(cases), t=round(time.time() - t0, 1))
        if THOROUGH and HARNESS_ASSERT:
            # assert-enabled flavour on a sample (mir_assert active in the writer)
            run_all(gen_cases(120, ck.rng, prefix="a") + unit_probes(), exe=HARNESS_ASSERT, label="assert")
            ck.stage("assert-flavour", t=round(time.time() - t0, 1))
    # ties that broke (model and implementation disagree on a concrete input, or a proof / translator
    # obligation failed): when an input violating the property was found above, that is the verdict and
    # the broken ties go to the evidence only; otherwise they are reported, marked no-failing-input-found
    seen = set()
    suppressed = []
    for c, name, det in tie_breaks:
        if name in seen:
            continue
        seen.add(name)
        if REAL[0]:
            suppressed.append({"correspondence": name, "first_diff": str(det)[:400], "case": c.id if c is not None else None})
            continue
        ck.violation({"stage": "tie", "theorem_or_correspondence": name,
                      "input": c.to_json() if c is not None else det,
                      "first_diff": det, "count": sum(1 for t in tie_breaks if t[1] == name),
                      "how_to_rerun": "cd /verif && ./check C11 --replay <this file>"},
                     what="correspondence '%s' broke: model and implementation disagree (%s)" % (name, str(det)[:300]),
                     signature="C11:tie:" + name, found_input=False)
    if ck.broken_ties:
        if REAL[0]:
            suppressed += [{"obligation": str(b.get("kind")) + ":" + str(b.get("name", b.get("targets", "")))}
                           for b in ck.broken_ties]
        else:
            ck.violation({"stage": "proof", "broken": ck.broken_ties,
                          "search": "corpus, history, generated and token-level cases were run against the real "
                                    "code; no input violating the property was found"},
                         what="proof obligation no longer checks: " + "; ".join(
                             str(b.get("kind")) + ":" + str(b.get("name", b.get("targets", ""))) for b in ck.broken_ties),
                         found_input=False)
        ck.broken_ties = []
    ck.cov["broken_ties_not_reported_separately"] = suppressed
finally:
    shutil.rmtree(RUN, ignore_errors=True)

ck.cov["evaluations"] = stats["cases"] + stats.get("token_checks", 0)
ck.cov["distinct_nontrivial"] = stats["nontrivial"]
ck.cov["rule"] = ("case = set of modules built through the MIR API from a random description (generator seeded by "
                  "VERIF_SEED; vocabulary: every item kind, every insn_descs row with operands chosen by its op_modes, "
                  "calls/switch/ret/va_*/overflow branches, all memory shapes with aliases, non-finite floats, strings with "
                  "NULs), plus histories (modules written by separate contexts merged into one and re-written; modules written after MIR_link), plus modules with incompressible stretches (random strings / u64 / u8 tables around 2047, 2^16, 2^18 bytes), plus mir-tests/*.mir and c2m -S output of sampled c-tests, plus fixed unit/defect probes; "
                  "non-trivial = builds, has more than an empty module and its raw stream is distinct from all others")
ck.cov["distribution"] = {"kinds": stats["kinds"], "item_lines": stats["item_kinds"],
                          "distinct_opcodes": len(stats["opcodes"]), "raw_bytes_total": stats["bytes_total"],
                          "max_raw_bytes": stats["max_raw"], "cases_over_two_buffers": stats["raw_multi_buffer"],
                          "builder_rejected": stats["builderr"], "interp_calls_compared": stats["exec_calls"],
                          "model_reader_agrees": stats["model_read_ok"], "token_checks": stats.get("token_checks", 0),
                          "ld_padding_nonzero_cases": stats["ld_pad_nonzero"],
                          "c2m_compiled": stats.get("c2m_compiled", 0), "c2m_tried": stats.get("c2m_tried", 0),
                          "known_finding_hits": stats["known"], "source_cfg": CFG,
                          "source_cfg_equals_Cfg_today": CFG == {"unportable": [181, 185, 186], "globalDoubleRead": True,
                                                                 "lrefOrphan": True, "dataPtr": False, "codeLimit": 180,
                                                                 "endfuncLabels": False, "lrefZeroIsNone": False},
                          "temp_counters_compared": stats.get("counters_checked", 0),
                          "temp_counters_nonzero": stats.get("counters_nonzero", 0),
                          "label_operands_identity_checked": stats.get("label_ops_checked", 0),
                          "read_from_model_bytes": stats.get("read_from_model_bytes", 0),
                          "single_module_writes_compared": stats.get("single_module_writes", 0)}
ck.cov["trusted_base"] = ck.cov.get("trusted_base", []) + [
    "translate/c11_tables.py (textual extraction of enums, insn_descs and five reader facts; fails loudly)",
    "translate/c11_cfun.py (clang-14 JSON AST -> BitVec definitions)", "harness/c11_harness.c (structural dump, builder)",
    "lean/Drv/C11.lean (description parser/printer around the model)",
    "bv_decide axioms of Lemmas/BridgeC11.lean (uint_length/int_length bridges only)"]
ck.cov["corpus_replayed"] = stats.get("corpus_replayed", 0)
ck.cov["exhaustive"] = False
ck.assumptions += [
    "the compression layer is the real reduce_encode/reduce_decode of the tree under test (C12 is proved separately)",
    "checks made inside the MIR API while the reader rebuilds a module (operand modes, declared registers, hard "
    "register names) are not modelled; streams fed to the reader come from modules that passed them when built",
    "long double: the 6 padding bytes of a TAG_LD token are modelled as 0; the comparison masks them and counts cases "
    "where the real writer emitted something else",
    "execution equality is checked on generated executable modules only (interpreter), not on the c2m corpus",
    "temp-name counters are modelled for names whose suffix after `.lc` / `t` is a string of decimal digits (strtoul also "
    "accepts blanks and a sign)",
    "label numbers of generated modules stay below 2^24 + 8: the reader allocates func_labels up to the largest label "
    "number (8 bytes each), so numbers near 2^32 need 32 GiB (observed, not judged)",
]
ck.finish()
