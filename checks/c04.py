"""C04 — link-time simplification and inlining never change what a program computes.

proof gate : Props/C04.lean — lower_mem, algebraic_shortcuts (+ the unsound MULO row), bt_bf_const,
             reverse_branch, jump_to_next, br_over_jmp, alloca_consolidation (layout; alignment for the
             fix and partially for the code as it is), ret_ext/arg_ext, rename_injective,
             inline_sound_partial; tables and natural_alignment/get_alloca_size_align regenerated from
             mir.c by translate/c04_tables.py and bridged in Lemmas/BridgeC04.lean.
tie (a)    : unit level — small functions over all operand shapes / rewrite shapes are scanned, loaded and
             linked with a NULL interface by harness/c04_lower.c; MIR_output_item's text must equal what
             `mirdrv_c04 lower` (Model/Simplify.lean) prints, instruction by instruction.
tie (b)    : whole programs — lib/mirgen.py programs and checks/c04_gen.py programs (thresholds, chains,
             recursion, allocas, block arguments, several results/returns, narrow types, second module)
             are linked by three builds of the library (default thresholds / no inlining / always
             inlining), executed by MIR_interp and MIR_gen; results, buffer and call log must agree with
             each other, with MirCore (`mirdrv_c04 run`, the program AS WRITTEN) and with MirCore on the
             model-simplified program.
corpus     : corpus/C04/*.mir with *.json — minimised failures; `kf-*` are the known findings."""
import os, re, sys, json, glob, shutil, subprocess, resource, time
from concurrent.futures import ThreadPoolExecutor
from vf import Check, VERIF, REPO, LEAN
import mirgen, progtie, c04_gen, c04_unit

BUILDS = {"norm": [],
          "noinl": ["-DMIR_MAX_INSNS_FOR_INLINE=0", "-DMIR_MAX_INSNS_FOR_CALL_INLINE=0"],
          "always": ["-DMIR_MAX_INSNS_FOR_INLINE=100000", "-DMIR_MAX_INSNS_FOR_CALL_INLINE=100000",
                     "-DMIR_MAX_CALLER_SIZE_FOR_ANY_GROWTH_INLINE=3000"]}
ENGINES = ["interp", "gen0", "gen1"]
DRV = os.path.join(LEAN, ".lake", "build", "bin", "mirdrv_c04")
C01_KNOWN_ABORT = re.compile(r"Fatal failure in matching insn:\s+\w+s\s+hr\d+, hr\d+, i64:")
OVF_BR = ("bo", "bno", "ubo", "ubno")


def limits():
    resource.setrlimit(resource.RLIMIT_FSIZE, (1 << 28, 1 << 28))
    resource.setrlimit(resource.RLIMIT_CORE, (0, 0))
    resource.setrlimit(resource.RLIMIT_AS, (1 << 33, 1 << 33))


def run(cmd, inp=None, timeout=120):
    try:
        p = subprocess.run(cmd, input=inp, stdout=subprocess.PIPE, stderr=subprocess.PIPE, text=True,
                           timeout=timeout, preexec_fn=limits)
        return p.returncode, p.stdout[:1 << 26], p.stderr[-2000:]
    except subprocess.TimeoutExpired:
        return -99, "", "timeout"


def read_round_always():
    """model variant flags `<always><muloRow><freshRets>` as the translator found them in mir.c"""
    try:
        t = open(os.path.join(LEAN, "MirVerif", "Gen", "C04_Tables.lean")).read()
    except OSError:
        return "0100"
    return "".join("1" if f"def {n} : Bool := true" in t else "0" for n in ("roundAlways", "muloRow", "freshRets", "ovfAddrBefore"))


# ------------------------------------------------------------------ observations
def engine_obs(exe, engines, text, plan, work, tag, timeout=120):
    """-> list of observations (one per plan line) or a single {'fatal': ...}"""
    path = os.path.join(work, tag + ".mir")
    with open(path, "w") as f:
        f.write(text)
    rc, out, err = run([exe, ",".join(engines), path], inp=plan, timeout=timeout)
    if rc == -99:      # a loaded machine: one more try with a generous limit before calling it a hang
        rc, out, err = run([exe, ",".join(engines), path], inp=plan, timeout=4 * timeout)
    obs = []
    for l in out.split("\n"):
        if l.startswith("P "):
            left, right = l[2:].split(" | ")
            rs = right.split()
            same = rs[0].startswith("=")
            obs.append({"key": left.split()[0] + " " + " ".join(left.split()[1:5]), "same": same,
                        "res": rs[0].lstrip("=") if same else " ".join(rs)})
        elif l.startswith("R "):
            left, right = l[2:].split(" | ")
            rs = right.split()
            same = rs[0].startswith("=")
            obs.append({"key": left.strip(), "same": same, "res": rs[0].lstrip("=") if same else " ".join(rs)})
        elif l.startswith("M ") and obs and l.split()[2] == engines[0]:
            obs[-1]["M"] = l.split()[3]
        elif l.startswith("L ") and obs and l.split()[2:3] == [engines[0]]:
            obs[-1]["L"] = " ".join(l.split()[3:])
        elif l.startswith("E "):
            return [{"fatal": l.strip()}]
    if rc != 0:
        return [{"fatal": f"rc={rc} {err.strip()[-300:]}"}]
    return obs


def core_obs(lean_text, cmds):
    """cmds: list of driver command lines -> list of observations"""
    rc, out, err = run([DRV], inp=lean_text + "".join(c + "\n" for c in cmds), timeout=300)
    obs = []
    for l in out.split("\n"):
        if l.startswith("P "):
            obs.append({"res": l.split()[2], "same": True})
        elif l.startswith("X "):
            obs.append({"err": l.strip(), "same": True})
        elif l.startswith("M ") and obs:
            obs[-1]["M"] = l[2:].strip()
        elif l.startswith("L ") and obs:
            obs[-1]["L"] = l[2:].strip()
        elif l.startswith("E "):
            return [{"fatal": l.strip()}]
    if rc != 0:
        return [{"fatal": f"driver rc={rc} {err[-300:]}"}]
    return obs


def view(o, with_mem=True):
    if o is None:
        return ("missing",)
    if "fatal" in o:
        return ("fatal", o["fatal"][:160])
    if "err" in o:
        return ("err", o["err"])
    if not o.get("same", True):
        return ("engines-differ", o["res"])
    return (o["res"], o.get("M") if with_mem else None, o.get("L") if with_mem else None)


def compare_program(exes, text, lean_text, entries, argsets, work, tag, always):
    """-> (list of failure dicts, number of evaluations)"""
    plan = progtie.plan_for(entries, argsets)
    views = {}
    for b, exe in exes.items():
        views[b] = engine_obs(exe, ENGINES, text, plan, work, f"{tag}_{b}")
    n = len(entries) * len(argsets)
    if lean_text is not None:
        cmds, cmds_s = [], []
        for e in entries:
            for a in argsets:
                cmds.append(f"run {e} {a[0]:x} {a[1]:x} {a[2]:x} {a[3]:x}")
                cmds_s.append(f"runs {always} {e} {a[0]:x} {a[1]:x} {a[2]:x} {a[3]:x}")
        o = core_obs(lean_text, cmds + cmds_s)
        if len(o) == 2 * n:
            views["core"], views["core_simplified"] = o[:n], o[n:]
        else:
            views["core"] = o
    fails = []
    names = list(views)
    for k in range(n):
        row = {}
        for b in names:
            v = views[b]
            row[b] = view(v[k]) if len(v) == n else view(v[0] if v else None)
        ref = row.get("core", row[names[0]])
        if any(row[b] != ref for b in names):
            def brief(v):
                if v[0] in ("fatal", "err", "engines-differ", "missing"):
                    return [str(x) for x in v]
                return [v[0], "buffer+log " + ("same as MirCore" if v[1:] == ref[1:] else "differ")]
            fails.append({"index": k, "entry": entries[k // len(argsets)], "args": argsets[k % len(argsets)],
                          "views": {b: brief(row[b]) for b in names}})
            break
    return fails, n * (len(ENGINES) * len(exes) + (2 if lean_text is not None else 0))


def known_c01(fails):
    """a generator abort that C01 already reports (32-bit insn with a spilled operand) is not C04's"""
    for f in fails:
        for v in f["views"].values():
            if v and isinstance(v[0], str) and C01_KNOWN_ABORT.search(" ".join(str(x) for x in v)):
                return True
    return False


# ------------------------------------------------------------------ shrinking (best effort)
def fail_kind(views):
    """coarse class of a failure: which builds deviate from MirCore and how"""
    ref = views.get("core")
    return tuple(sorted((b, v[0] if v[0] in ("fatal", "err", "engines-differ", "missing") else "value")
                        for b, v in views.items() if v != ref))


def shrink(exes, P_text, entries, args, work, always, kind, budget=60):
    """remove single instructions while the program stays well defined for MirCore and the library
    deviates from it in the same way (an overflow instruction stays with its branch)"""
    lines = P_text.split("\n")

    def failing(ls):
        txt = "\n".join(ls)
        try:
            lt = c04_gen.to_lean(c04_gen.TextProg(txt))
        except Exception:
            return False
        if lt is None:
            return False
        f, _ = compare_program(exes, txt, lt, entries, [args], work, "shr", always)
        if not f:
            return False
        v = f[0]["views"]
        if "core" not in v or v["core"][0] in ("err", "fatal", "missing"):
            return False
        if any(x[0] == "fatal" and "mir-error" in " ".join(x) for x in v.values()) and \
                not any(k[1] == "fatal" for k in kind):
            return False
        return fail_kind(v) == kind

    def removable(ls, i):
        l = ls[i]
        t = l.split()
        if not t or l.rstrip().endswith(":") or t[0].endswith(":"):
            return False
        if t[0] in ("endfunc", "endmodule", "local", "export", "import", "ret", "jmp", "module") or t[0] in OVF_BR:
            return False
        nxt = ls[i + 1].split() if i + 1 < len(ls) else []
        return not (nxt and nxt[0] in OVF_BR)
    tries = 0
    i = 0
    deadline = time.time() + (45 if budget <= 40 else 240)
    while i < len(lines) and tries < budget and time.time() < deadline:
        if removable(lines, i):
            cand = lines[:i] + lines[i + 1:]
            tries += 1
            if failing(cand):
                lines = cand
                continue
        i += 1
    return "\n".join(lines)


# ------------------------------------------------------------------ stages
def unit_stage(ck, lower_exe, work, nfuncs, always):
    nmod = max(1, nfuncs // 250)
    diffs, total, kinds = [], 0, {}
    jobs = []
    for m in range(nmod):
        P, kd = c04_unit.gen_unit_funcs(ck.rng, f"u{m}", nfuncs // nmod)
        for k, v in kd.items():
            kinds[k] = kinds.get(k, 0) + v
        jobs.append(P)

    def one(P):
        path = os.path.join(work, P.name + ".mir")
        with open(path, "w") as f:
            f.write(P.text())
        rc, out, err = run([lower_exe, path], timeout=120)
        if rc != 0:
            return [("<module>", f"c04_lower rc={rc} {out[-200:]} {err[-200:]}", "", P)], 0
        cf = c04_gen.parse_c_output(out)
        lt = c04_gen.to_lean(P)
        rc2, out2, err2 = run([DRV], inp=lt + f"lower {always}\n", timeout=120)
        lf = c04_gen.parse_lean_lower(out2)
        d = []
        for fn in cf:
            if cf[fn] != lf.get(fn):
                d.append((fn, cf[fn], lf.get(fn), P))
        return d, len(cf)
    with ThreadPoolExecutor(max_workers=12) as ex:
        for d, n in ex.map(one, jobs):
            diffs += d
            total += n
    return diffs, total, kinds


def Prog_like(P, names):
    """text of a module with the protos/imports of P and only the named functions"""
    Q = mirgen.Prog(P.name)
    Q.protos, Q.imports = set(P.protos), set(P.imports)
    Q.funcs = [f for f in P.funcs if f[0] in names]
    return Q.text()


def bracket_compare(lower_exe, work, text, always):
    """-> list of (callee, model tuple, bstart, bend) that differ, for a module of v/w pairs as text"""
    path = os.path.join(work, "brk_replay.mir")
    with open(path, "w") as f:
        f.write(text)
    rc, out, err = run([lower_exe, path], timeout=120)
    rc2, out2, err2 = run([DRV], inp=c04_gen.to_lean(c04_gen.TextProg(text)) + f"allocafeat {always}\n", timeout=120)
    res = []
    for mm in re.finditer(r"A (\S+)_v(\d+) top=(\S+) used=(\d) nontop=(\d) brackets=(\d)", out2):
        w = f"{mm.group(1)}_w{mm.group(2)}"
        blk = out.split(f"F {w}\n")[1].split("endfunc")[0] if f"F {w}\n" in out else ""
        nb, ne = len(re.findall(r"\n\s*bstart\s", blk)), len(re.findall(r"\n\s*bend\s", blk))
        if nb != int(mm.group(6)) or ne != int(mm.group(6)):
            res.append((f"{mm.group(1)}_v{mm.group(2)}", mm.group(0), nb, ne))
    return res


def bracket_stage(ck, lower_exe, work, npairs, always):
    """unit tie for the stack bracket: number of bstart/bend the real link puts into the caller vs
    `inlineBrackets (simplifyFunc callee)` of the Lean model of func_alloca_features"""
    nmod = max(1, npairs // 100)
    total, kinds, diffs = 0, {}, []
    for m in range(nmod):
        P, pairs, kd = c04_unit.gen_bracket_module(ck.rng, f"b{m}", npairs // nmod)
        for k, v in kd.items():
            kinds[k] = kinds.get(k, 0) + v
        path = os.path.join(work, P.name + ".mir")
        with open(path, "w") as f:
            f.write(P.text())
        rc, out, err = run([lower_exe, path], timeout=120)
        rc2, out2, err2 = run([DRV], inp=c04_gen.to_lean(P) + f"allocafeat {always}\n", timeout=120)
        if rc != 0 or rc2 != 0:
            ck.broken_ties.append({"kind": "harness-run", "name": "bracket stage", "log": (out[-300:] + err[-300:] + err2[-300:])})
            continue
        body, cur = {}, None
        for l in out.split("\n"):
            if l.startswith("F "):
                cur = l[2:].strip(); body[cur] = []
            elif cur:
                body[cur].append(l)
        model = {}
        for l in out2.split("\n"):
            mm = re.match(r"A (\S+) top=(\S+) used=(\d) nontop=(\d) brackets=(\d)", l)
            if mm:
                model[mm.group(1)] = (mm.group(2), int(mm.group(3)), int(mm.group(4)), int(mm.group(5)))
        for v, w in pairs:
            total += 1
            lines = body.get(w, [])
            nb = sum(1 for l in lines if re.match(r"\s*bstart\s", l))
            ne = sum(1 for l in lines if re.match(r"\s*bend\s", l))
            inlined = not any(re.match(r"\s*(call|inline)\s+\w+, " + v + ",", l) for l in lines)
            exp = model.get(v, (None, 0, 0, -1))[3]
            if not inlined or nb != exp or ne != exp:
                src = [x for x in P.funcs if x[0] == v][0]
                mini = Prog_like(P, [v, w])
                diffs.append({"mir": mini, "callee": v, "callee_source": [mirgen.fmt_insn(i) for i in src[3]], "model (top,used,nontop,brackets)": model.get(v),
                              "library_caller_after_link": [l for l in lines if l.strip()][:60], "bstart": nb, "bend": ne, "inlined": inlined})
    for d in diffs[:3]:
        ck.violation({"stage": "bracket", "mir": d["mir"], "mir_callee": d["callee_source"], "model_output": d["model (top,used,nontop,brackets)"],
                      "impl_output": {"bstart": d["bstart"], "bend": d["bend"], "caller_after_link": d["library_caller_after_link"]}},
                     what=f"inlined callee {d['callee']} ({'; '.join(d['callee_source'])[:200]}): the model of func_alloca_features asks for "
                          f"{(d['model (top,used,nontop,brackets)'] or [0,0,0,'?'])[3]} bstart/bend pair(s) around the inlined body, MIR_link emitted "
                          f"{d['bstart']} bstart / {d['bend']} bend — a variable-size (or late) alloca of the callee is never released")
    return total, kinds, len(diffs)


def corpus_stage(ck, exes, work, always):
    n = 0
    for mir in sorted(glob.glob(os.path.join(VERIF, "corpus", "C04", "*.mir"))):
        meta_p = mir[:-4] + ".json"
        if not os.path.exists(meta_p):
            continue
        meta = json.load(open(meta_p))
        text = open(mir).read()
        tp = c04_gen.TextProg(text)
        lt = c04_gen.to_lean(tp)
        calls = meta["calls"]
        plan = "".join(f"call {f} {sig} {' '.join(a)}\n" for f, sig, a in calls)
        core = core_obs(lt, [f"ecall {f} {' '.join(a)}" for f, sig, a in calls])
        rows = {b: engine_obs(exe, ENGINES, text, plan, work, "corp_" + b, timeout=60) for b, exe in exes.items()}
        n += len(calls) * (len(exes) * len(ENGINES) + 1)
        bad = None
        for k in range(len(calls)):
            ref = view(core[k] if k < len(core) else None, False)
            for b, o in rows.items():
                v = view(o[k], False) if len(o) == len(calls) else view(o[0] if o else None, False)
                if v != ref and bad is None:
                    bad = {"call": calls[k], "mircore": list(ref), "build": b, "library": list(v)}
        if bad:
            ck.violation({"stage": "corpus", "file": os.path.relpath(mir, VERIF), "mir": text, "calls": calls,
                          "model_output": bad["mircore"], "impl_output": bad["library"], "build": bad["build"],
                          "how_to_rerun": f"./check C04 --replay {os.path.relpath(mir, VERIF)}"},
                         what=f"{os.path.basename(mir)}: {meta.get('what', '')} — MirCore (as written) {bad['mircore'][:2]} vs "
                              f"library build '{bad['build']}' {bad['library'][:2]} for {bad['call'][0]}({', '.join(bad['call'][2])})",
                         signature=meta.get("signature"))
    return n


# ------------------------------------------------------------------ branch-over-jump grid (every branch code)
INT_GRID = [0, 1, 2, (1 << 64) - 1, (1 << 31) - 1, 1 << 31, (1 << 32) - 1, 1 << 32, (1 << 63) - 1, 1 << 63,
            (1 << 64) - (1 << 31), 5]
NAN = 0x7ff8000000000000
DBL_GRID = [NAN, NAN | (1 << 63), 0x7ff0000000000000, 0xfff0000000000000, 0, 1 << 63, 0x3ff0000000000000,
            0xbff0000000000000, 0x4004000000000000, 0x7e37e43c8800759c, 0x3ff0000000000001]
CMPF = {"EQ": lambda a, b: a == b, "NE": lambda a, b: a != b, "LT": lambda a, b: a < b, "LE": lambda a, b: a <= b,
        "GT": lambda a, b: a > b, "GE": lambda a, b: a >= b}


def branch_taken(code, a, b):
    """MIR.md: is the branch `code L, a, b` taken?  a, b are 64-bit patterns"""
    import struct
    if code[0] in "FD" and code[1] == "B":
        x, y = (struct.unpack("<d", struct.pack("<Q", v))[0] for v in (a, b))
        if code[0] == "F":
            def f32(v):
                try:
                    return struct.unpack("<f", struct.pack("<f", v))[0]
                except OverflowError:
                    return float("inf") if v > 0 else float("-inf")
            x, y = f32(x), f32(y)
        return CMPF[code[2:]](x, y)
    short = code.endswith("S")
    c = code[:-1] if short else code
    if c in ("BT", "BF"):
        v = a & 0xffffffff if short else a
        return (v != 0) == (c == "BT")
    if c in ("BO", "BNO", "UBO", "UBNO"):      # after `addo t, a, b`
        sa, sb = a - (1 << 64) if a >> 63 else a, b - (1 << 64) if b >> 63 else b
        ov = (a + b >= 1 << 64) if c.startswith("U") else not (-(1 << 63) <= sa + sb < (1 << 63))
        return ov == (c in ("BO", "UBO"))
    uns = c.startswith("U")
    c = c[1:] if uns else c
    w = 32 if short else 64
    x, y = a & ((1 << w) - 1), b & ((1 << w) - 1)
    if not uns:
        x, y = (v - (1 << w) if v >> (w - 1) else v for v in (x, y))
    return CMPF[c[1:]](x, y)


def branch_grid_stage(ck, exe, work):
    """`BCond L1, a, b; JMP L2; L1: ret 1; L2: ret 2` (the shape simplify_func rewrites with the reversed
    branch) for every row of MIR_reverse_branch_code in the current tree and every integer / float /
    double branch of MIR.md, over boundary integers and NaN/inf/-0 doubles, linked and run for real."""
    sys.path.insert(0, os.path.join(VERIF, "translate"))
    import c04_tables
    try:
        rows = [c for c, _ in c04_tables.extract(open(os.path.join(REPO, "mir.c")).read())["rev"]]
    except SystemExit:
        rows = []
    codes = []
    for c in rows + [p + "B" + k for p in "FD" for k in CMPF] + \
            [u + "B" + k + s_ for k in CMPF for u in ("", "U") for s_ in ("", "S") if not (u and k in ("EQ", "NE"))] + \
            ["BT", "BTS", "BF", "BFS", "BO", "BNO", "UBO", "UBNO"]:
        if c not in codes and not c.startswith(("PR", "LD")):
            codes.append(c)
    funcs, plan, expect = [], [], []
    for c in codes:
        fn = "rb_" + c.lower()
        op = c.lower()
        fp = c[0] in "FD" and c[1] == "B"
        one = c.rstrip("S") in ("BT", "BF")
        ovf = c in ("BO", "BNO", "UBO", "UBNO")
        if fp and c[0] == "F":
            body = f"  local f:fa, f:fb\n  d2f fa, a\n  d2f fb, b\n  {op} {fn}_L1, fa, fb\n"
        elif ovf:
            body = f"  local i64:t\n  addo t, a, b\n  {op} {fn}_L1\n"
        elif one:
            body = f"  {op} {fn}_L1, a\n"
        else:
            body = f"  {op} {fn}_L1, a, b\n"
        ty = "d" if fp else "i64"
        funcs.append(f"{fn}: func i64, {ty}:a, {ty}:b\n{body}  jmp {fn}_L2\n{fn}_L1:\n  ret 1\n{fn}_L2:\n  ret 2\n  endfunc\n")
        grid = DBL_GRID if fp else INT_GRID
        for a in grid:
            for b in grid:
                plan.append(f"call {fn} {'dd_i' if fp else 'ii_i'} {a:x} {b:x}")
                expect.append((c, a, b, 1 if branch_taken(c, a, b) else 2))
    text = "rbm: module\nexport " + ", ".join("rb_" + c.lower() for c in codes) + "\n" + "".join(funcs) + "endmodule\n"
    obs = engine_obs(exe, ENGINES, text, "\n".join(plan) + "\n", work, "rbgrid", timeout=300)
    bad = []
    if len(obs) != len(plan):
        bad.append(("<all>", 0, 0, "?", view(obs[0] if obs else None, False)))
    else:
        for (c, a, b, e), o in zip(expect, obs):
            v = view(o, False)
            if v[0] != f"{e:x}":
                bad.append((c, a, b, e, v))
    seen = set()
    for c, a, b, e, v in bad:
        if c in seen:
            continue
        seen.add(c)
        fn = "rb_" + c.lower()
        ft = [f for f in funcs if f.startswith(fn + ":")]
        ck.violation({"stage": "branch-grid", "mir": "rbm: module\nexport " + fn + "\n" + "".join(ft) + "endmodule\n",
                      "calls": [[fn, "dd_i" if c[0] in "FD" and c[1] == "B" else "ii_i", [f"{a:x}", f"{b:x}"]]],
                      "model_output": e, "impl_output": list(v), "failing_points_of_this_code": sum(1 for x in bad if x[0] == c),
                      "how_to_rerun": "./check C04 --replay <this file>"},
                     what=f"branch-over-jump shape with {c}: `{c.lower()} L1,a,b; jmp L2; L1: ret 1; L2: ret 2` for a={a:#x} b={b:#x}: "
                          f"MIR.md says {e}, the linked program returns {v} (engines {ENGINES})")
        if len(seen) >= 4:
            break
    return len(plan) * len(ENGINES), codes


def inlined_census(lower_exe, P, sizes, work, tag):
    """which threshold helpers did the default build inline? (from the text after link)"""
    path = os.path.join(work, tag + ".mir")
    with open(path, "w") as f:
        f.write(P.text())
    rc, out, err = run([lower_exe, path], timeout=60)
    res = {}
    if rc != 0:
        return res
    body = {}
    cur = None
    for l in out.split("\n"):
        if l.startswith("F "):
            cur = l[2:].strip()
            body[cur] = []
        elif cur:
            body[cur].append(l)
    # a call that stays gets its callee through a temporary: `mov t26, <callee>; call p2, t26, ...`
    for fn, lines in body.items():
        if "_mid" not in fn:
            continue
        for l in lines:
            m = re.match(r"\s*mov\s+[\w.]+, (\w+_sz(\d+)_\d+)\s*$", l) or \
                re.match(r"\s*(?:call|inline)\s+\w+, (\w+_sz(\d+)_\d+),", l)
            if m:
                res.setdefault(int(m.group(2)), [0, 0, 0])[2] += 1
    for name, header, locs, insns in P.funcs:
        for x in insns:
            if x[0] in ("call", "inline") and x[2] in sizes:
                res.setdefault(sizes[x[2]], [0, 0, 0])[0 if x[0] == "call" else 1] += 1
    return res


def main():
    ck = Check("C04")
    quick = ck.tier == "quick"
    ck.proof_gate(["MirVerif.Props.C04"],
                  support_modules=["MirVerif.Model.MirCore", "MirVerif.Model.Simplify", "MirVerif.Model.SimplifyNames",
                                   "MirVerif.Model.SimplifyInline", "MirVerif.Lemmas.SimplifyLower",
                                   "MirVerif.Lemmas.SimplifyRules", "MirVerif.Lemmas.SimplifyCfg",
                                   "MirVerif.Lemmas.SimplifyAlloca", "MirVerif.Lemmas.SimplifyRename",
                                   "MirVerif.Lemmas.SimplifyInline"],
                  bridge_modules=["MirVerif.Lemmas.BridgeC04"], exes=["mirdrv_c04"], translators=["c04_tables.py"])
    if not quick:
        ck.leanchecker(["MirVerif.Props.C04"])
    always = read_round_always()
    mirc, mirg = os.path.join(REPO, "mir.c"), os.path.join(REPO, "mir-gen.c")
    jobs = [(f"c04_engine_{b}", ["harness/engine.c", mirc, mirg], ["-O1", "-g", "-DNDEBUG", "-w"] + fl) for b, fl in BUILDS.items()]
    jobs.append(("c04_lower", ["harness/c04_lower.c", mirc], ["-O1", "-g", "-DNDEBUG", "-w"]))
    built = ck.cc_par(jobs)
    for name, exe in built.items():
        if exe is None:
            ck.broken_ties.append({"kind": "harness-compile", "name": name, "log": getattr(ck, "last_cc_log", "")[-1500:]})
    if any(e is None for e in built.values()):
        ck.finish()
    exes = {b: built[f"c04_engine_{b}"] for b in BUILDS}
    lower_exe = built["c04_lower"]
    work = os.path.join(VERIF, ".cache", f"c04_{os.getpid()}")
    os.makedirs(work, exist_ok=True)
    try:
        ck.lower_exe = lower_exe
        body(ck, quick, exes, lower_exe, work, always)
    finally:
        shutil.rmtree(work, ignore_errors=True)
    ck.finish()


def replay(ck, exes, work, always):
    path = ck.replay
    sig = None
    if path.endswith(".mir"):
        text = open(path).read()
        meta = json.load(open(path[:-4] + ".json"))
        calls, entries, args = meta["calls"], None, None
        sig = meta.get("signature")
    else:
        rep = json.load(open(path))
        rep = rep.get("input", rep) if "mir" not in rep else rep
        if rep.get("stage") == "bracket":
            d = bracket_compare(ck.lower_exe, work, rep["mir"], always)
            ck.sample({"replay": path, "differences": d})
            ck.cov.update(evaluations=1, distinct_nontrivial=1, rule="replay of one saved callee/caller pair")
            if d:
                ck.violation({"stage": "replay", "file": path, "mir": rep["mir"]}, what=f"replayed pair still differs: {d[0]}")
            return
        text = rep["mir"]
        calls = rep.get("calls")
        entries, args = rep.get("entries"), rep.get("args")
    try:
        lt = c04_gen.to_lean(c04_gen.TextProg(text))
    except Exception:
        lt = None
    if calls:
        plan = "".join(f"call {f} {sig} {' '.join(a)}\n" for f, sig, a in calls)
        if lt is None or rep.get("stage") == "branch-grid":     # oracle = the documented branch condition
            core = [{"res": f"{rep['model_output']:x}", "same": True}]
        else:
            core = core_obs(lt, [f"ecall {f} {' '.join(a)}" for f, sig, a in calls])
        rows = {b: engine_obs(exe, ENGINES, text, plan, work, "rep_" + b, timeout=60) for b, exe in exes.items()}
        bad = [(b, k) for b, o in rows.items() for k in range(len(calls))
               if (view(o[k], False) if len(o) == len(calls) else view(o[0] if o else None, False)) != view(core[k] if k < len(core) else None, False)]
        ck.sample({"replay": path, "mircore": [view(c, False) for c in core], "library": {b: [view(x, False) for x in o] for b, o in rows.items()}})
        fails = bool(bad)
    else:
        f, _ = compare_program(exes, text, lt, entries, [tuple(args)], work, "rep", always)
        ck.sample({"replay": path, "views": f[0]["views"] if f else "all builds, engines and MirCore agree"})
        fails = bool(f)
    ck.cov.update(evaluations=1, distinct_nontrivial=1, rule="replay of one saved program")
    if fails:
        ck.violation({"stage": "replay", "file": path, "mir": text}, what=f"replayed program {os.path.basename(path)} still fails",
                     signature=sig)


def body(ck, quick, exes, lower_exe, work, always):
    if ck.replay:
        replay(ck, exes, work, always)
        return
    # ---- corpus (known findings and repaired defects)
    ncorp = corpus_stage(ck, exes, work, always)
    ck.stage("corpus", evaluations=ncorp)
    ngrid, grid_codes = branch_grid_stage(ck, exes["norm"], work)
    ck.stage("branch-grid", evaluations=ngrid, codes=len(grid_codes))
    # ---- (a) unit level
    nunit = 5000 if quick else 100000
    diffs, nfun, kinds = unit_stage(ck, lower_exe, work, nunit, always)
    ck.stage("unit", functions=nfun, diffs=len(diffs))
    nbr, brkinds, nbrdiff = bracket_stage(ck, lower_exe, work, 300 if quick else 3000, always)
    ck.stage("bracket", pairs=nbr, diffs=nbrdiff)
    for fn, c, l, P in diffs[:3]:
        src = [x for x in P.funcs if x[0] == fn]
        ck.broken_ties.append({"kind": "correspondence", "name": "simplify_func model vs MIR_link output",
                               "function": fn, "source": [mirgen.fmt_insn(i) for i in src[0][3]] if src else None,
                               "library": c, "model": l})
    # ---- (b) whole programs
    nprog = 400 if quick else 10000
    progs = []
    feat, gstats, shapes, stackk = {}, {}, {}, {}
    census = {}
    for k in range(nprog):
        kind = k % 4
        if k % 50 == 7:
            P, es = c04_gen.gen_stack_program(ck.rng, f"k{k}")
            for s_, v in P.stats.items():
                stackk[s_] = stackk.get(s_, 0) + v
            progs.append((P, es, None, mirgen.ARGSETS[1:3]))
            continue
        if kind == 3:
            P, es = c04_gen.gen_shape_program(ck.rng, f"s{k}")
            for s_, v in P.stats.items():
                shapes[s_] = shapes.get(s_, 0) + v
            progs.append((P, es, None))
        elif kind == 0:
            fp = ck.rng.chance(1, 2)
            P, es = mirgen.gen_program(ck.rng, f"m{k}", opts=dict(jmpi=False, fp=fp))
            P.funcs = [(n, h, l, c04_gen.sanitize(i)) for n, h, l, i in P.funcs]
            for s, v in P.stats.items():
                gstats[s] = gstats.get(s, 0) + v
            progs.append((P, es, None))
        else:
            g = c04_gen.C04Gen(ck.rng, f"c{k}")
            P, es = g.build()
            for s, v in P.stats.items():
                feat[s] = feat.get(s, 0) + v
            progs.append((P, es, g.sizes))

    def one(idx):
        P, es, sizes = progs[idx][:3]
        argsets = progs[idx][3] if len(progs[idx]) > 3 else mirgen.ARGSETS
        text = P.text()
        lt = c04_gen.to_lean(P)
        f, n = compare_program(exes, text, lt, es, argsets, work, f"p{idx}", always)
        cen = inlined_census(lower_exe, P, sizes, work, f"cen{idx}") if sizes else {}
        return idx, f, n, lt is not None, cen
    fails, nev, ncore = [], 0, 0
    with ThreadPoolExecutor(max_workers=14) as ex:
        for idx, f, n, hascore, cen in ex.map(one, range(nprog)):
            nev += n
            ncore += 1 if hascore else 0
            for key, v in cen.items():
                c = census.setdefault(str(key), [0, 0, 0])
                for j in range(3):
                    c[j] += v[j]
            if f and not known_c01(f):
                fails.append((idx, f[0]))
    ck.stage("programs", programs=nprog, with_mircore=ncore, failures=len(fails))
    classes = {}
    for idx, f in fails:
        classes.setdefault(fail_kind(f["views"]), []).append((idx, f))
    reported = 0
    for key, fl in classes.items():
        idx, f = fl[0]
        P, es = progs[idx][:2]
        text = P.text()
        hangs = any("SIG14" in str(v) or "timeout" in str(v) for v in f["views"].values())
        if reported < 3 and not hangs:      # every trial of a hanging program costs the engines' alarm time
            try:
                text = shrink(exes, text, [f["entry"]], f["args"], work, always, key, budget=40 if quick else 150)
            except Exception as ex:
                ck.log("shrink failed:", ex)
        if f["views"].get("core", ["ok"])[0] == "err":
            # the oracle itself rejects the program (undefined behaviour / unset register): a generator
            # defect, not a finding about the library
            ck.broken_ties.append({"kind": "generator", "name": "generated program is not well defined for MirCore",
                                   "entry": f["entry"], "args": list(f["args"]), "mircore": f["views"]["core"], "mir": text})
            continue
        if reported < 6:
            ck.violation({"stage": "programs", "entries": [f["entry"]], "args": list(f["args"]), "mir": text, "mir_unshrunk": P.text(),
                          "model_output": f["views"].get("core"), "impl_output": {b: v for b, v in f["views"].items() if b != "core"},
                          "same_class_count": len(fl), "engines": ENGINES, "builds": {b: " ".join(BUILDS[b]) for b in BUILDS},
                          "how_to_rerun": "./check C04 --replay <this file>"},
                         what=(f"program {f['entry']} args {[hex(a) if isinstance(a, int) else a for a in f['args'][:4]]}: "
                               + "; ".join(f"{b}={v[:2]}" for b, v in f["views"].items()))[:600])
            reported += 1
    ck.cov["evaluations"] = nev + ncorp + nfun + ngrid + nbr
    ck.cov["distinct_nontrivial"] = nprog + nfun
    ck.cov["programs"] = nprog
    ck.cov["unit_functions"] = nfun
    ck.cov["rule"] = ("(a) every generated unit function is a distinct draw of (instruction class x operand shapes) and is non-trivial when "
                      "simplify_func changes it (all do: at least one lowering/rewrite applies); (b) every program is a distinct draw; one quarter "
                      "lib/mirgen.py programs (2 helpers called by call/inline), one quarter executable rewrite-shape programs, one half checks/c04_gen.py programs (1-4 small callers, each "
                      "with 1-3 call sites of feature helpers); each program runs with "
                      f"{len(mirgen.ARGSETS)} argument sets through builds {list(BUILDS)} x engines {ENGINES}, MirCore as written and MirCore on the "
                      "model-simplified program; results, the 576-byte buffer and the external-call log are compared")
    ck.cov["distribution"] = {"unit_function_kinds": kinds, "c04_program_features": feat, "rewrite_shape_snippets": shapes, "stack_growth_loop_programs": stackk, "mirgen_constructs": gstats,
                              "programs_with_mircore_oracle": ncore, "corpus_evaluations": ncorp, "branch_grid": {"codes": grid_codes, "evaluations": ngrid},
                              "bracket_unit_pairs": {"pairs": nbr, "callee_shapes": brkinds},
                              "threshold_census_default_build (callee size -> [`call` sites, `inline` sites, calls left after link])": census,
                              "failure_classes": len(classes), "round_always_variant": always}
    P, es = c04_gen.gen_c04_program(ck.rng, "sample")
    ck.sample({"c04_program_text_head": P.text().split("\n")[:60]})
    U, _ = c04_unit.gen_unit_funcs(ck.rng, "usample", 6)
    ck.sample({"unit_functions": U.text().split("\n")[:60]})
    ck.cov["exhaustive"] = False
    ck.assumptions += [
        "process_inlines is not modelled as an executable function: its effect is tested through the three builds against MirCore; "
        "inline_sound_partial covers callees whose simplified body is straight-line code",
        "MirCore covers integer code, memory, branches, switch, overflow flags, alloca, calls, block arguments; programs with "
        "floating point are compared across builds/engines only",
        "engines are built as shipped (-DNDEBUG); the always-inline build caps caller growth at 3000 insns to bound recursion unrolling",
        "generator aborts already reported by C01 (32-bit insn with a spilled i64 slot) are not attributed to C04"]


main()
