"""C16: generators — textual MIR programs (loops, memory, calls, inline, switch, laddr/jmpi, lref
tables), edit scripts for the structural tie, and behavioural plans.  Everything is driven by the
SplitMix generator of the check (VERIF_SEED)."""

FUNC_SIG = "i64, i64:p, i64:n"


GLOBAL_HARD_REGS = ["r12", "r13", "r14", "r15", "rbx"]   # callee-saved on x86-64 SysV


class ProgGen:
    """one multi-module program: base modules (linked first) and later modules that call/inline
    functions of the base modules.  All functions have the signature  i64 f (i64 p, i64 n)."""

    def __init__(self, rng, tag, nbase=5, nlate=2, two_base_modules=True, flavour=None):
        self.rng = rng
        self.tag = tag
        self.lab = 0
        # flavours: "switch" (no computed jumps), "lref" (label tables first in their function),
        # "mixed" (everything: switch, laddr/jmpi, lref tables anywhere).  On earlier revisions of the
        # pinned tree one-shot generation of some "mixed" programs was already wrong (switch + jmpi in
        # one function after inlining); the behavioural tie therefore always runs the canonical and the
        # pure-interpretation history first and skips (and counts) programs for which those fail.
        self.flavour = flavour or __import__("os").environ.get("C16_FLAVOUR") or \
            rng.choice(["switch", "lref", "mixed", "mixed"])
        self.funcs = {}        # name -> {"callees": [...], "lref": bool, "module": str, "snips": [...]}
        self.modules = []      # (name, text, [func names], late?)
        base_names = [f"f{tag}_{i}" for i in range(nbase)]
        split = nbase if not two_base_modules else max(1, nbase // 2)
        self._module(f"mb{tag}a", base_names[:split], [], late=False)
        if split < nbase:
            self._module(f"mb{tag}b", base_names[split:], base_names[:split], late=False)
        late_names = [f"g{tag}_{i}" for i in range(nlate)]
        self._module(f"ml{tag}", late_names, base_names, late=True)

    def L(self):
        self.lab += 1
        return f"L{self.lab}"

    def _module(self, mname, names, importable, late):
        r = self.rng
        out = [f"{mname}:\tmodule"]
        out.append("\timport\text_log")
        used_imports = set()
        bodies = []
        avail = list(importable)
        for fn in names:
            body, callees, has_lref, snips = self._func(fn, avail, late)
            for c in callees:
                if c in importable:
                    used_imports.add(c)
            bodies.append(body)
            self.funcs[fn] = {"callees": callees, "lref": has_lref, "module": mname, "snips": snips}
            avail.append(fn)
        for c in sorted(used_imports):
            out.append(f"\timport\t{c}")
        for fn in names:
            out.append(f"\texport\t{fn}")
        out.append(f"p_ii:\tproto\ti64, i64:p, i64:n")
        out.append(f"p_log:\tproto\ti64:v")
        out += bodies
        out.append("\tendmodule")
        self.modules.append((mname, "\n".join(out) + "\n", list(names), late))

    def _func(self, fn, avail, late):
        r = self.rng
        ins = []
        callees = []
        snips = []
        pre = []     # items before the func (forward decls)
        post = []    # items after endfunc (lref tables)
        has_lref = False
        ins.append(f"\tmov\ts, {r.below(1000)}")
        kinds = ["loop", "mem", "ext", "arith", "dbl", "glob"]
        # variables tied to callee-saved hard registers (`global`): they are numbered after func->vars
        # (new_func_reg), live in func->global_vars and must survive duplicate/restore like locals.
        # The interpreter accepts them only in reg-reg moves; the old value is put back before `ret`.
        globs = []
        if self.flavour in ("switch", "mixed"):
            kinds += ["switch", "switch"]
        if self.flavour == "mixed":
            kinds += ["laddr", "lref"]
        if avail:
            kinds += ["call", "call", "inline"] if not late else ["call", "inline", "inline", "call"]
        nsn = 2 + r.below(4)
        if late and avail:   # a late function always calls and inlines something generated earlier
            forced = ["call", "inline"]
        else:
            forced = []
        first = ["lref"] if self.flavour == "lref" and r.chance(2, 3) else []
        for k in first + forced + [r.choice(kinds) for _ in range(nsn)]:
            if k == "lref" and has_lref:
                k = "arith"
            snips.append(k)
            if k == "loop":
                l1, l2 = self.L(), self.L()
                ins += [f"\tmov\ti, 0", f"\tand\tt, n, {3 + r.below(5)}", f"{l1}:", f"\tbge\t{l2}, i, t"]
                inner = r.below(3)
                if inner == 0:
                    ins += ["\tand\ta, i, 63", "\tmov\ta, i64:(p, a, 8)", "\tadd\ts, s, a"]
                elif inner == 1:
                    ins += ["\txor\ts, s, i", f"\tadd\ts, s, {r.below(50)}"]
                else:
                    ins += ["\tlsh\tb, s, 1", "\tadd\ts, b, i", "\tand\ts, s, 1048575"]
                ins += ["\tadd\ti, i, 1", f"\tjmp\t{l1}", f"{l2}:"]
            elif k == "mem":
                ins += ["\tand\ta, s, 63", "\tmov\tb, i64:(p, a, 8)", "\tadd\ts, s, b",
                        "\tand\ts, s, 1048575", "\tmov\ti64:(p, a, 8), s"]
            elif k == "arith":
                ins += [f"\tadd\ts, s, {r.below(100)}", f"\txor\ts, s, n", f"\tand\ts, s, 1048575"]
            elif k == "dbl":
                ins += ["\ti2d\td1, s", "\tdadd\td1, d1, d1", "\td2i\tb, d1", "\tadd\ts, s, b",
                        "\tand\ts, s, 1048575"]
            elif k == "ext":
                ins += ["\tcall\tp_log, ext_log, s"]
            elif k == "glob":
                free = [h for h in GLOBAL_HARD_REGS if h not in [g[1] for g in globs]]
                if not free:
                    ins += ["\tadd\ts, s, 1"]
                else:
                    h = r.choice(free)
                    g, sv = f"g_{h}", f"sv_{h}"
                    globs.append((g, h, sv))
                    ins += [f"\tmov\t{sv}, {g}", f"\tmov\t{g}, s", f"\tadd\ts, s, {1 + r.below(9)}",
                            f"\tmov\tb, {g}", "\tadd\ts, s, b", "\tand\ts, s, 1048575"]
            elif k in ("call", "inline"):
                c = r.choice(avail)
                callees.append(c)
                ins += [f"\tadd\tt, n, {r.below(4)}", "\tand\tt, t, 7", f"\t{k}\tp_ii, {c}, r, p, t",
                        "\tadd\ts, s, r", "\tand\ts, s, 1048575"]
            elif k == "switch":
                n = 2 + r.below(4)
                labs = [self.L() for _ in range(n)]
                le = self.L()
                ins += [f"\tand\ta, n, 7", f"\tbge\t{labs[0]}, a, {n}", f"\tswitch\ta, " + ", ".join(labs)]
                for j, lb in enumerate(labs):
                    ins += [f"{lb}:", f"\tadd\ts, s, {(j + 1) * 7 + r.below(5)}"]
                    if j + 1 < n and r.chance(2, 3):
                        ins += [f"\tjmp\t{le}"]
                ins += [f"{le}:"]
            elif k == "laddr":
                la1, lt1, lt2, lj, le = (self.L() for _ in range(5))
                ins += ["\tand\ta, n, 1", f"\tbt\t{la1}, a", f"\tladdr\tla, {lt1}", f"\tjmp\t{lj}",
                        f"{la1}:", f"\tladdr\tla, {lt2}", f"{lj}:", "\tjmpi\tla",
                        f"{lt1}:", f"\tadd\ts, s, {1 + r.below(30)}", f"\tjmp\t{le}",
                        f"{lt2}:", f"\tadd\ts, s, {31 + r.below(30)}", f"{le}:"]
            elif k == "lref":
                has_lref = True
                lr1, lr2, le = self.L(), self.L(), self.L()
                tbl = f"tbl_{fn}"
                pre.append(f"\tforward\t{tbl}")
                ins += [f"\tmov\tt, {tbl}", "\tand\ta, n, 1", "\tmov\tt, i64:(t, a, 8)", "\tjmpi\tt",
                        f"{lr1}:", f"\tadd\ts, s, {100 + r.below(50)}", f"\tjmp\t{le}",
                        f"{lr2}:", f"\tadd\ts, s, {200 + r.below(50)}", f"{le}:"]
                post += [f"{tbl}:\tlref\t{lr1}", f"\tlref\t{lr2}"]
                if r.chance(1, 2):
                    post += [f"\tlref\t{lr2}, {lr1}, {r.below(16)}"]
        ins += [f"\tmov\t{g}, {sv}" for g, h, sv in globs]
        ins += [f"\tmov\ti64:{8 * r.below(8)}(p), s", "\tret\ts"]
        decl = ["\tlocal\ti64:s, i64:i, i64:t, i64:a, i64:b, i64:r, i64:la, d:d1"]
        if globs:
            decl += ["\tlocal\t" + ", ".join(f"i64:{sv}" for g, h, sv in globs),
                     "\tglobal\t" + ", ".join(f"i64:{g}:{h}" for g, h, sv in globs)]
        text = pre + [f"{fn}:\tfunc\t{FUNC_SIG}"] + decl + ins + ["\tendfunc"] + post
        return "\n".join(text), callees, has_lref, snips

    def base_modules(self):
        return [m for m in self.modules if not m[3]]

    def late_modules(self):
        return [m for m in self.modules if m[3]]


def edit_script(rng, nfuncs=4, maxlen=14):
    """position-based edit scripts for the structural tie (one per function, used round-robin)"""
    lines = []
    tys = ["i64", "i64", "d", "f", "ld", "i32", "u8"]          # the last two are rejected by the C code
    names = ["zz", "t1", "t2", "hr5", ".lc1", "a_b", "s", "p", "hrx", "q9"]
    codes = ["sub", "add", "mul", "and", "xor", "adds", "jmp", "dadd", "label"]
    for _ in range(nfuncs):
        lines.append("S")
        for _ in range(rng.below(maxlen + 1)):
            k = rng.below(16)
            p = rng.below(40)
            if k == 0:
                lines.append(f"E ins {p} mov {rng.below(9)} {rng.below(9)}")
            elif k == 1:
                lines.append(f"E ins {p} label")
            elif k == 2:
                lines.append(f"E ins {p} jmp {rng.below(9)}")
            elif k == 3:
                lines.append(f"E ins {p} bt {rng.below(9)} {rng.below(9)}")
            elif k == 4:
                lines.append(f"E ins {p} switch {rng.below(9)} {rng.below(9)} {rng.below(9)}")
            elif k in (5, 6):
                lines.append(f"E del {p}")
            elif k == 7:
                lines.append(f"E move {p} {rng.below(40)}")
            elif k == 8:
                kind = rng.choice(["reg", "int", "lab"])
                lines.append(f"E setop {p} {rng.below(6)} {kind} {rng.below(12)}")
            elif k == 9:
                lines.append(f"E setdata {p} {rng.choice(['-', str(rng.below(9))])}")
            elif k == 10:
                lines.append(f"E setcode {p} {rng.choice(codes)}")
            elif k in (11, 12):
                lines.append(f"E newtemp {rng.choice(tys)}")
            elif k == 13:
                lines.append(f"E addreg {rng.choice(tys)} {rng.choice(names)}")
            else:
                lines.append(f"E lref {rng.below(5)} {rng.below(9)} {rng.choice(['-', str(rng.below(9))])}")
    return lines


NO, MAYBE, YES = 0, 1, 2


class PlanSim:
    """three-valued bookkeeping of which functions have machine code / interpreter code, so that
    plans can avoid the interleavings of still-open known findings (and use them freely once those
    are fixed).  A callee may or may not run separately (calls to small functions and `inline`
    insns are merged into the caller at link time), hence MAYBE."""

    def __init__(self, prog, iface, avoid_kf1, avoid_kf2):
        self.p = prog
        self.avoid_kf1 = avoid_kf1
        self.avoid_kf2 = avoid_kf2
        self.linked = set()
        self.gen = {}
        self.icode = {}
        self.tainted = set()   # functions that inlined (at link) a callee carrying interpreter data
        self.iface_of = {}
        self.link_ok = True
        self.assert_build = False   # assert-enabled library: even a repeated MIR_gen asserts func_item->data == NULL

    def link(self, names, iface):
        for n in names:
            # process_inlines copies the callee's insns including the interpreter's insn->data
            # (transitively: a function linked earlier in the same batch may already be tainted)
            if any(self.icode.get(c, NO) != NO or c in self.tainted for c in self.p.funcs[n]["callees"]):
                self.tainted.add(n)
        self.link_ok = not (iface == "gen" and self.avoid_kf1 and any(n in self.tainted for n in names))
        for n in names:
            self.linked.add(n)
            self.iface_of[n] = iface
            self.gen[n] = YES if iface == "gen" else NO
            self.icode[n] = NO

    # --- primitive events on copies of the state; `bad` collects forbidden steps
    def _generate(self, f, gen, icode, bad, sure):
        """f is (maybe) generated now"""
        info = self.p.funcs[f]
        if gen[f] == YES:
            if sure and self.assert_build and self.avoid_kf1 and icode[f] != NO:
                bad.append(("kf1-assert", f))
            return
        if self.avoid_kf1 and (icode[f] != NO or f in self.tainted):
            bad.append(("kf1", f))
        if self.avoid_kf2 and info["lref"] and icode[f] != NO:
            bad.append(("kf2", f))
        gen[f] = YES if sure else max(gen[f], MAYBE)
        if sure and not self.avoid_kf1:
            icode[f] = NO          # (with the kf1 fix) generation drops the interpreter code

    def _interpret(self, f, gen, icode, bad, sure):
        info = self.p.funcs[f]
        if self.avoid_kf2 and info["lref"] and gen[f] != NO:
            bad.append(("kf2", f))
        icode[f] = YES if sure else max(icode[f], MAYBE)

    def _callees(self, f, gen, icode, bad, seen):
        for c in self.p.funcs[f]["callees"]:
            if c in self.linked and c not in seen:
                seen.add(c)
                self._thunk(c, gen, icode, bad, False, seen)

    def _thunk(self, f, gen, icode, bad, sure, seen):
        """f is (maybe) entered through its thunk"""
        if gen[f] == YES:
            pass
        elif self.iface_of[f] == "lazy":
            self._generate(f, gen, icode, bad, sure)
        elif self.iface_of[f] == "interp":
            if gen[f] == NO:
                self._interpret(f, gen, icode, bad, sure)
            else:                                   # maybe generated: either engine may run
                self._interpret(f, gen, icode, bad, False)
        self._callees(f, gen, icode, bad, seen)

    def try_exec(self, f, via):
        if f not in self.linked:
            return False
        gen, icode, bad = dict(self.gen), dict(self.icode), []
        if via == "interp":
            self._interpret(f, gen, icode, bad, True)
            self._callees(f, gen, icode, bad, {f})
        else:
            self._thunk(f, gen, icode, bad, True, {f})
        if bad:
            return False
        self.gen, self.icode = gen, icode
        return True

    def try_gen(self, f):
        if f not in self.linked:
            return False
        gen, icode, bad = dict(self.gen), dict(self.icode), []
        self._generate(f, gen, icode, bad, True)
        if bad:
            return False
        self.gen, self.icode = gen, icode
        return True

    def is_gen(self, f):
        return self.gen.get(f, NO) == YES

    def has_icode(self, f):
        return self.icode.get(f, NO) != NO


def make_plans(rng, prog, files, level, iface, late_iface, avoid_kf1, avoid_kf2, nact=24, no_icode_before_late=False):
    """returns (test_plan, canon_plan, interp_plan, meta).  files: module name -> path"""
    base = prog.base_modules()
    late = prog.late_modules()
    base_funcs = [f for m in base for f in m[2]]
    late_funcs = [f for m in late for f in m[2]]
    sim = PlanSim(prog, iface, avoid_kf1, avoid_kf2)
    sim.assert_build = no_icode_before_late
    plan = [f"OPT {level}"] + [f"SCAN {files[m[0]]}" for m in base] + [f"LOADLINK {iface}", "SNAP s0"]
    sim.link(base_funcs, iface)
    inputs = []      # (id, func, n) executed somewhere
    nid = [0]
    stats = {"gen": 0, "regen": 0, "interp": 0, "call": 0, "checktext": 0, "skipped_kf": 0,
             "interp_after_gen": 0, "gen_after_interp": 0}

    phase = [1]

    def exec_ok(f, via):
        # assert-enabled builds: linking a module that inlines an interpreted function asserts (open kf1)
        saved = (dict(sim.gen), dict(sim.icode))
        if not sim.try_exec(f, via):
            return False
        if no_icode_before_late and phase[0] == 1 and any(v != NO for v in sim.icode.values()):
            sim.gen, sim.icode = saved
            return False
        return True

    def act(funcs, count):
        for _ in range(count):
            k = rng.below(10)
            f = rng.choice(funcs)
            if k < 4:
                was = sim.is_gen(f)
                had_icode = sim.has_icode(f)
                if sim.try_gen(f):
                    plan.append(f"GEN {f}")
                    stats["regen" if was else "gen"] += 1
                    if had_icode and not was:
                        stats["gen_after_interp"] += 1
                    if rng.chance(1, 3):
                        plan.append(f"GEN {f}")
                        stats["regen"] += 1
                else:
                    stats["skipped_kf"] += 1
            elif k < 6:
                n = rng.below(8)
                i = rng.below(3)
                if exec_ok(f, "interp"):
                    plan.append(f"INTERP {i} {f} {n}")
                    inputs.append((i, f, n))
                    stats["interp"] += 1
                    if sim.is_gen(f):
                        stats["interp_after_gen"] += 1
                else:
                    stats["skipped_kf"] += 1
            elif k < 8:
                n = rng.below(8)
                i = rng.below(3)
                if exec_ok(f, "thunk"):
                    plan.append(f"CALL {i} {f} {n}")
                    inputs.append((i, f, n))
                    stats["call"] += 1
                else:
                    stats["skipped_kf"] += 1
            elif k == 8:
                plan.append(f"CHECKTEXT c{len(plan)}")
                stats["checktext"] += 1
            else:
                if rng.chance(1, 2):
                    plan.append(f"OPT {rng.below(4)}")    # the level may change between generations
                    plan.append(f"OPT {level}")
    act(base_funcs, nact)
    plan.append("CHECKTEXT mid")
    if avoid_kf1 and late_iface == "gen" and any(sim.has_icode(c) or c in sim.tainted for f in late_funcs for c in prog.funcs[f]["callees"]):
        late_iface = "interp"      # eager generation would hit the open known finding
    plan += [f"SCAN {files[m[0]]}" for m in late] + [f"LOADLINK {late_iface}", "SNAP s1"]
    sim.link(late_funcs, late_iface)
    phase[0] = 2
    act(base_funcs + late_funcs + late_funcs, nact)
    # finally everything is generated (where allowed) and called once more
    for f in base_funcs + late_funcs:
        if sim.try_gen(f):
            plan.append(f"GEN {f}")
    plan.append("CHECKTEXT end")
    for f in late_funcs + base_funcs:
        n, i = rng.below(8), rng.below(3)
        if sim.try_exec(f, "thunk"):
            plan.append(f"CALL {i} {f} {n}")
            inputs.append((i, f, n))
    plan.append("CHECKTEXT end2")
    uniq = sorted(set(inputs))
    allmods = base + late
    # canonical history: everything loaded at once, generated once in module order, then called
    canon = [f"OPT {level}"] + [f"SCAN {files[m[0]]}" for m in allmods] + ["LOADLINK gen", "SNAP s0"]
    canon += [f"CALL {i} {f} {n}" for (i, f, n) in uniq] + ["CHECKTEXT end"]
    # pure interpretation, base linked first (for the text twin) then the late modules
    interp = [f"OPT {level}"] + [f"SCAN {files[m[0]]}" for m in base] + ["LOADLINK interp", "SNAP s0"]
    interp += [f"SCAN {files[m[0]]}" for m in late] + ["LOADLINK interp", "SNAP s1"]
    interp += [f"INTERP {i} {f} {n}" for (i, f, n) in uniq] + ["CHECKTEXT end"]
    return plan, canon, interp, stats


def plan_allowed(prog, plan, avoid_kf1, avoid_kf2):
    """re-simulate a (shrunk) plan: False if it uses an interleaving of a still-open known finding"""
    sim = None
    base_funcs = [f for m in prog.base_modules() for f in m[2]]
    late_funcs = [f for m in prog.late_modules() for f in m[2]]
    nlink = 0
    for l in plan:
        w = l.split(" ")
        if w[0] == "LOADLINK":
            if sim is None:
                sim = PlanSim(prog, w[1], avoid_kf1, avoid_kf2)
            names = base_funcs if nlink == 0 else late_funcs
            nlink += 1
            sim.link(names, w[1])
            if not sim.link_ok:
                return False
        elif w[0] == "GEN":
            if sim is None or not sim.try_gen(w[1]):
                return False
        elif w[0] == "INTERP":
            if sim is None or not sim.try_exec(w[2], "interp"):
                return False
        elif w[0] == "CALL":
            if sim is None or not sim.try_exec(w[2], "thunk"):
                return False
    return True


# ----------------------------------------------------------------------------- builtin-needing functions
# Generating a function that uses one of these instructions makes the generator add helper items
# (a proto and an import, `_MIR_builtin_proto` / `_MIR_builtin_func`) to the function's module.  The
# plans below let that happen while ANOTHER module is under construction through the API.
def _fb(locals_, body):
    return ["fb:\tfunc\ti64, i64:p, i64:n", "\tlocal\ti64:s, i64:b" + (", " + locals_ if locals_ else ""),
            "\tadd\ts, n, 77"] + body + ["\tadd\ts, s, b", "\tmov\ti64:8(p), s", "\tret\ts", "\tendfunc"]


BUILTIN_KINDS = {
    "ui2d": ([], _fb("d:d1", ["\tui2d\td1, s", "\tdadd\td1, d1, d1", "\td2i\tb, d1"]), []),
    "ui2f": ([], _fb("f:f1", ["\tui2f\tf1, s", "\tfadd\tf1, f1, f1", "\tf2i\tb, f1"]), []),
    "ui2ld": ([], _fb("ld:l1, d:d1", ["\tui2ld\tl1, s", "\tld2d\td1, l1", "\td2i\tb, d1"]), []),
    "ld2i": ([], _fb("ld:l1", ["\ti2ld\tl1, s", "\tldadd\tl1, l1, l1", "\tld2i\tb, l1"]), []),
    "va_arg": (["p_vh:\tproto\ti64, i64:k, ...",
                "vh:\tfunc\ti64, i64:k, ...", "\tlocal\ti64:va, i64:a, i64:r", "\talloca\tva, 64", "\tva_start\tva",
                "\tva_arg\ta, va, i64:0", "\tmov\tr, i64:(a)", "\tva_arg\ta, va, i64:0", "\tadd\tr, r, i64:(a)",
                "\tva_end\tva", "\tadd\tr, r, k", "\tret\tr", "\tendfunc"],
               _fb("", ["\tcall\tp_vh, vh, b, 1, s, n"]), ["vh"]),
    "blk_arg": (["p_bh:\tproto\ti64, blk:40(a)",
                 "bh:\tfunc\ti64, blk:40(a)", "\tlocal\ti64:r", "\tmov\tr, i64:8(a)", "\tadd\tr, r, i64:32(a)",
                 "\tret\tr", "\tendfunc"],
                _fb("i64:a", ["\talloca\ta, 40", "\tmov\ti64:8(a), s", "\tmov\ti64:32(a), n",
                              "\tcall\tp_bh, bh, b, blk:40(a)"]), ["bh"]),
    "va_block_arg": (["p_vb:\tproto\ti64, i64:el, ...",
                      "vb:\tfunc\ti64, i64:el, ...", "\tlocal\ti64:va, i64:a", "\talloca\tva, 64", "\talloca\ta, 16",
                      "\tva_start\tva", "\tva_block_arg\ta, va, 16, 12", "\tadd\ti64:8(a), i64:8(a), 18",
                      "\tret\ti64:8(a)", "\tendfunc"],
                     _fb("i64:a", ["\talloca\ta, 16", "\tmov\ti64:(a), n", "\tmov\ti64:8(a), s",
                                   "\tcall\tp_vb, vb, b, 1, blk:16(a)"]), ["vb"]),
}


def builtin_module(kind):
    pre, fb, helpers = BUILTIN_KINDS[kind]
    return "\n".join(["mu:\tmodule", "\texport\tfb"] + pre + fb + ["\tendmodule"]) + "\n", helpers


def open_module_plans(kind, path, level, mode, pos, interp_ok=True):
    """plan / canonical / pure-interpretation twin for: base module with a builtin-needing function,
    then a second module built through the API in steps, with the generation of the base function
    (mode: lazy first call | MIR_gen under the interpreter interface | MIR_gen under the lazy one)
    placed between MIR_new_module and MIR_finish_module (pos: first | between | infunc)"""
    _, helpers = builtin_module(kind)
    iface = {"lazy-call": "lazy", "gen-under-interp": "interp", "gen-under-lazy": "lazy"}[mode]
    if mode == "lazy-call":
        W = ["CALL 0 fb 3", "CALL 0 fb 3"]
    elif mode == "gen-under-interp":
        W = [f"GEN {h}" for h in helpers] + ["GEN fb", "GEN fb"]
    else:
        W = ["GEN fb", "CALL 0 fb 3"] + [f"GEN {h}" for h in helpers]

    def build(window):
        if pos == "first":
            return ["MODBEGIN mo fb"] + window + ["MODFUNC go1 fb", "MODFUNC go2 fb", "MODEND"]
        if pos == "between":
            return ["MODBEGIN mo fb", "MODFUNC go1 fb"] + window + ["MODFUNC go2 fb", "MODEND"]
        return ["MODBEGIN mo fb", "MODFUNCBEGIN go1 fb"] + window + ["MODFUNCEND", "MODFUNC go2 fb", "MODEND"]
    head = [f"OPT {level}", f"SCAN {path}"]
    calls = ["CALL 1 go1 3", "CALL 2 go2 5", "CALL 0 fb 3", "CALL 3 fb 9", "CALL 1 go1 3"]
    interps = ["INTERP 1 go1 3", "INTERP 2 go2 5", "INTERP 0 fb 3", "INTERP 3 fb 9"]
    plan = head + [f"LOADLINK {iface}", "SNAP s0"] + build(W) + ["CHECKTEXT mid", f"LOADLINK {iface}"] + calls \
        + (interps if interp_ok else []) + ["CHECKTEXT end"]
    canon = head + ["LOADLINK gen", "SNAP s0"] + build([]) + ["LOADLINK gen", "CALL 0 fb 3"] + calls + ["CHECKTEXT end"]
    interp = head + ["LOADLINK interp", "SNAP s0"] + build([]) + ["LOADLINK interp"] + interps + ["CHECKTEXT end"]
    return plan, canon, interp


# ----------------------------------------------------------------------------- many small functions
def many_module(n, seed, export=True):
    """a module of n small functions h0..h{n-1}; every third one calls its predecessor (lazy chains)"""
    out = ["mm:\tmodule", "p_ii:\tproto\ti64, i64:p, i64:n"] + ([f"\texport\th{k}" for k in range(n)] if export else [])
    for k in range(n):
        out += [f"h{k}:\tfunc\ti64, i64:p, i64:n", "\tlocal\ti64:s, i64:r", f"\tadd\ts, n, {k * 3 + seed % 7}"]
        if k % 3 == 2:
            out += [f"\tcall\tp_ii, h{k - 1}, r, p, s", "\tadd\ts, s, r"]
        if k % 4 == 1:
            out += ["\tmul\ts, s, 3", f"\txor\ts, s, {k}"]
        out += [f"\tmov\ti64:{8 * (k % 8)}(p), s", "\tret\ts", "\tendfunc"]
    out.append("\tendmodule")
    return "\n".join(out) + "\n"


def many_plans(n, path, level, iface, rng, calls_only=False):
    """every function called, called again, MIR_gen'ed (again), called: addresses and results stable.
    calls_only: no MIR_gen and no text comparison after the calls (open finding on lazy bb generation)"""
    head = [f"OPT {level}", f"SCAN {path}"]
    order = list(range(n))
    if rng.chance(1, 2):
        order.reverse()
    acts, cacts, iacts = [], [], []
    for k in order:
        a = k % 5
        acts += [f"CALL {k} h{k} {a}", f"CALL {k} h{k} {a}"]
        cacts += [f"CALL {k} h{k} {a}"]
        iacts += [f"INTERP {k} h{k} {a}"]
    regen = [f"GEN h{k}" for k in order if k % 2 == 0] + [f"GEN h{k}" for k in order if k % 4 == 0]
    acts += regen + [f"CALL {k} h{k} {k % 5}" for k in order]
    if calls_only:
        acts = [a for a in acts if not a.startswith("GEN")]
    plan = head + [f"LOADLINK {iface}", "SNAP s0"] + acts + ([] if calls_only else ["CHECKTEXT end"])
    canon = head + ["LOADLINK gen", "SNAP s0"] + cacts + ["CHECKTEXT end"]
    interp = head + ["LOADLINK interp", "SNAP s0"] + iacts + ["CHECKTEXT end"]
    return plan, canon, interp


# ----------------------------------------------------------------------------- generation-order pairs
# The generator keeps per-function working sets in its context (addr_regs, tied_regs, the scan-var map,
# spill tables, ...).  A function A that uses such a feature is generated right before / after a plain
# function B that uses none of them but the SAME register numbers; every function's results must be
# those of the function generated alone in a fresh context.
PAIR_LOCALS = "\tlocal\ti64:v0, i64:v1, i64:v2, i64:v3, i64:v4, i64:v5, i64:v6, i64:v7, d:d0, d:d1"


def _pairfunc(name, extra_locals, body, pre=(), post=()):
    return list(pre) + [f"{name}:\tfunc\ti64, i64:p, i64:n", PAIR_LOCALS] \
        + (["\tlocal\t" + extra_locals] if extra_locals else []) + body + ["\tendfunc"] + list(post)


def pair_victims():
    """plain functions touching every register number v0..v7, d0, d1 with redefinitions and copies"""
    vs = {}
    b = ["\tmov\ts, 0"]
    for k in range(7):       # the shape of the seeded-change demo on every adjacent pair of registers
        a, c = f"v{k}", f"v{k + 1}"
        b += [f"\tadd\t{a}, n, {k + 1}", f"\tmov\t{c}, {a}", f"\tadd\t{a}, {a}, {100 + k}", f"\tadd\t{c}, {c}, {a}",
              f"\tadd\ts, s, {c}"]
    b += ["\tand\ts, s, 1048575", "\tmov\ti64:(p), s", "\tret\ts"]
    vs["copies"] = _pairfunc("B", "i64:s", b)
    b = ["\tmov\tv0, 0", "\tmov\tv1, 0", "\tand\tv2, n, 7", "\tadd\tv2, v2, 3", "\tmov\tv7, 1",
         "LB1:", "\tbge\tLB2, v1, v2", "\tmov\tv3, v0", "\tadd\tv0, v0, v1", "\tadd\tv4, v3, v0",
         "\tmov\tv5, v4", "\tadd\tv4, v4, 7", "\tadd\tv6, v5, v4", "\tadd\tv7, v7, v6", "\tand\tv7, v7, 1048575",
         "\tmov\tv0, v7", "\tadd\tv1, v1, 1", "\tjmp\tLB1", "LB2:", "\ti2d\td0, v7", "\tdmov\td1, d0",
         "\tdadd\td0, d0, d0", "\tdadd\td1, d1, d0", "\td2i\tv3, d1", "\tadd\tv0, v0, v3",
         "\tmov\ti64:8(p), v0", "\tret\tv0"]
    vs["loop"] = _pairfunc("B", "", b)
    return vs


def pair_features():
    """name -> (items before, function A (+helpers), names to generate in order (helpers first))"""
    fs = {}

    def A(extra, body, pre=(), post=()):
        return _pairfunc("A", extra, ["\tadd\tv0, n, 11"] + body + ["\tand\tv0, v0, 1048575", "\tmov\ti64:16(p), v0",
                                                                  "\tret\tv0"], pre, post)
    for k in range(8):       # the address of the local with each register number escapes
        fs[f"addr_v{k}"] = (["\timport\text_inc", "p_inc:\tproto\tp:q"],
                            A("i64:q", [f"\tmov\tv{k}, v0", f"\taddr\tq, v{k}", "\tcall\tp_inc, ext_inc, q",
                                        f"\tadd\tv0, v0, v{k}"]), ["A"])
    fs["addr_d"] = ([], A("i64:q", ["\ti2d\td0, v0", "\taddr\tq, d0", "\tdadd\td:(q), d:(q), d:(q)", "\td2i\tv1, d0",
                                    "\tadd\tv0, v0, v1"]), ["A"])
    fs["addr8"] = ([], A("i64:q", ["\tmov\tv1, v0", "\taddr8\tq, v1", "\tmov\tu8:(q), 5", "\tadd\tv0, v0, v1",
                                   "\tmov\tv2, v0", "\taddr16\tq, v2", "\tmov\tu16:(q), 9", "\tadd\tv0, v0, v2",
                                   "\tmov\tv3, v0", "\taddr32\tq, v3", "\tmov\tu32:(q), 3", "\tadd\tv0, v0, v3"]), ["A"])
    for h in ("r12", "rbx"):    # declared first: the tied register has the number of B's first local
        gb = ["\tmov\tsv, g", "\tadd\tv0, n, 11", "\tmov\tg, v0", "\tadd\tv0, v0, 5", "\tmov\tv1, g",
              "\tadd\tv0, v0, v1", "\tmov\tg, sv", "\tmov\ti64:16(p), v0", "\tret\tv0"]
        fs[f"global_{h}"] = ([], ["A:\tfunc\ti64, i64:p, i64:n", f"\tglobal\ti64:g:{h}", PAIR_LOCALS, "\tlocal\ti64:sv"]
                             + gb + ["\tendfunc"], ["A"])
    # tied to a call-clobbered hard register, with a call while the variable holds a value
    fs["global_r9_call"] = (["\timport\text_log", "p_log:\tproto\ti64:v"],
                            ["A:\tfunc\ti64, i64:p, i64:n", "\tglobal\ti64:g:r9", PAIR_LOCALS, "\tlocal\ti64:sv",
                             "\tmov\tsv, g", "\tadd\tv0, n, 11", "\tmov\tg, v0", "\tcall\tp_log, ext_log, v0",
                             "\tadd\tv0, v0, 5", "\tmov\tg, sv", "\tmov\ti64:16(p), v0", "\tret\tv0", "\tendfunc"], ["A"])
    fs["alloca"] = ([], A("i64:q", ["\tand\tv1, n, 7", "\tadd\tv1, v1, 2", "\tmul\tv1, v1, 16", "\talloca\tq, v1",
                                    "\tmov\ti64:8(q), v0", "\tmov\ti64:(q), n", "\tadd\tv0, v0, i64:8(q)",
                                    "\tadd\tv0, v0, i64:(q)"]), ["A"])
    fs["va"] = (["p_vh:\tproto\ti64, i64:k, ...",
                 "vh:\tfunc\ti64, i64:k, ...", "\tlocal\ti64:va, i64:a, i64:r", "\talloca\tva, 64", "\tva_start\tva",
                 "\tva_arg\ta, va, i64:0", "\tmov\tr, i64:(a)", "\tva_arg\ta, va, i64:0", "\tadd\tr, r, i64:(a)",
                 "\tva_end\tva", "\tadd\tr, r, k", "\tret\tr", "\tendfunc"],
                A("", ["\tcall\tp_vh, vh, v1, 1, v0, n", "\tadd\tv0, v0, v1"]), ["vh", "A"])
    fs["blk"] = (["p_bh:\tproto\ti64, blk:40(a)",
                  "bh:\tfunc\ti64, blk:40(a)", "\tlocal\ti64:r", "\tmov\tr, i64:8(a)", "\tadd\tr, r, i64:32(a)",
                  "\tret\tr", "\tendfunc"],
                 A("i64:q", ["\talloca\tq, 40", "\tmov\ti64:8(q), v0", "\tmov\ti64:32(q), n",
                             "\tcall\tp_bh, bh, v1, blk:40(q)", "\tadd\tv0, v0, v1"]), ["bh", "A"])
    fs["lref_jmpi"] = ([], A("i64:t", ["\tmov\tt, tblA", "\tand\tv1, n, 1", "\tmov\tt, i64:(t, v1, 8)", "\tjmpi\tt",
                                       "LA1:", "\tadd\tv0, v0, 100", "\tjmp\tLA3", "LA2:", "\tadd\tv0, v0, 200", "LA3:"],
                             pre=["\tforward\ttblA"], post=["tblA:\tlref\tLA1", "\tlref\tLA2"]), ["A"])
    fs["laddr_switch"] = ([], A("i64:t", ["\tand\tv1, n, 1", "\tbt\tLA4, v1", "\tladdr\tt, LA1", "\tjmp\tLA5", "LA4:",
                                          "\tladdr\tt, LA2", "LA5:", "\tjmpi\tt", "LA1:", "\tadd\tv0, v0, 10",
                                          "\tjmp\tLA3", "LA2:", "\tadd\tv0, v0, 20", "LA3:", "\tand\tv2, n, 3",
                                          "\tbge\tLA8, v2, 3", "\tswitch\tv2, LA6, LA7, LA8", "LA6:", "\tadd\tv0, v0, 1",
                                          "LA7:", "\tadd\tv0, v0, 2", "LA8:"]), ["A"])
    fs["ldouble"] = ([], A("ld:l0, ld:l1", ["\ti2ld\tl0, v0", "\tldmov\tl1, l0", "\tldadd\tl0, l0, l0",
                                             "\tldadd\tl1, l1, l0", "\tld2i\tv1, l1", "\tui2ld\tl0, v1",
                                             "\tld2d\td0, l0", "\td2i\tv2, d0", "\tadd\tv0, v1, v2"]), ["A"])
    sp = [f"i64:w{k}" for k in range(40)]
    body = [f"\tadd\tw{k}, n, {k}" for k in range(40)] + ["\tcall\tp_log, ext_log, v0"] \
        + [f"\tadd\tv0, v0, w{k}" for k in range(40)]
    fs["spills"] = (["\timport\text_log", "p_log:\tproto\ti64:v"], A(", ".join(sp), body), ["A"])
    return fs


def pair_module(feature, victim):
    pre, a, gens = pair_features()[feature]
    b = pair_victims()[victim]
    return "\n".join(["mp:\tmodule", "\texport\tA, B"] + pre + a + b + ["\tendmodule"]) + "\n", gens


def pair_plans(path, level, gens, other_level=None):
    """single plans (one process each): B alone, A(+helpers) alone, A..B, B..A, A B A' (B between), interp"""
    head = [f"OPT {level}", f"SCAN {path}", "LOADLINK interp", "SNAP s0"]
    ca = [f"CALL {i} A {n}" for i, n in enumerate((0, 1, 5, 6))]
    cb = [f"CALL {i} B {n}" for i, n in enumerate((0, 1, 5, 6))]
    ga = [f"GEN {g}" for g in gens]
    extra = {}
    if other_level is not None and other_level != level:
        # the optimization level changes between functions of one context (and back)
        o1, o2 = [f"OPT {other_level}"], [f"OPT {level}"]
        extra = {"A_B_levels": head + ga + o1 + ["GEN B"] + ca + cb + o2 + ["GEN A", "GEN B"] + ca + cb + ["CHECKTEXT end"],
                 "B_A_levels": head + ["GEN B"] + o1 + ga + cb + ca + ["CHECKTEXT end"]}
    return {
        **extra,
        "solo_A": head + ga + ca + ["CHECKTEXT end"],
        "solo_B": head + ["GEN B"] + cb + ["CHECKTEXT end"],
        "A_B": head + ga + ["GEN B"] + ca + cb + ["GEN A", "GEN B"] + ca + cb + ["CHECKTEXT end"],
        "B_A": head + ["GEN B"] + ga + cb + ca + ["GEN B", "GEN A"] + cb + ca + ["CHECKTEXT end"],
        "interp": head + [l.replace("CALL", "INTERP") for l in ca + cb] + ["CHECKTEXT end"],
    }


# ----------------------------------------------------------------------------- loading the same module again
def reload_plans(n, path, level, ifaces, rng):
    """a module WITHOUT exports may be loaded again: MIR_load_module puts every function's thunk back to the
    undefined-interface stub and the next MIR_link / MIR_gen has to make it lead to the existing code again.
    ifaces: first link, then one interface per reload"""
    head = [f"OPT {level}", f"SCAN {path}"]
    fs = list(range(n))
    acts = [f"LOADLINK {ifaces[0]}", "SNAP s0"]
    for k in fs:
        c = rng.below(3)
        if c == 0:
            acts += [f"CALL {k} h{k} {k % 5}"]
        elif c == 1:
            acts += [f"GEN h{k}", f"CALL {k} h{k} {k % 5}"]
    for it in ifaces[1:]:
        acts += [f"RELOADLINK {it}"]
        for k in fs:
            c = rng.below(4)
            if c == 0:
                acts += [f"GEN h{k}", f"GEN h{k}", f"CALL {k} h{k} {k % 5}"]
            elif c == 1:
                acts += [f"CALL {k} h{k} {k % 5}", f"GEN h{k}", f"CALL {k} h{k} {k % 5}"]
            elif c == 2:
                acts += [f"GEN h{k}", f"CALL {k} h{k} {k % 5}", f"INTERP {k} h{k} {k % 5}"]
        acts += ["CHECKTEXT r"]
    acts += [f"GEN h{k}" for k in fs] + [f"CALL {k} h{k} {k % 5}" for k in fs] + ["CHECKTEXT end"]
    canon = head + ["LOADLINK gen", "SNAP s0"] + [f"CALL {k} h{k} {k % 5}" for k in fs] + ["CHECKTEXT end"]
    interp = head + ["LOADLINK interp", "SNAP s0"] + [f"INTERP {k} h{k} {k % 5}" for k in fs] + ["CHECKTEXT end"]
    return head + acts, canon, interp
